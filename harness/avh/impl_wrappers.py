"""Helpers shared by C15 (BalancingLearner) and C18 (DataSaver): construction of
real child learners, a recorder of the calls a wrapper makes on a child (the
"recorded oracle" that instantiates Model/GenericLearner.Learner for
execution, Run/OracleChild.v) and the Gallina printers for it."""
from __future__ import annotations

import math

import numpy as np

from . import coqio as C

KINDS = ["l1d", "avg", "seq", "lnd"]


# ----------------------------------------------------------------------
# functions learnt by the children: deterministic, cheap, varied
def fn1d(k):
    fs = [lambda x: x, lambda x: x * x, lambda x: math.sin(5 * x), lambda x: 1.0 / (0.05 + x * x),
          lambda x: 0.0, lambda x: (1.0 if x > 0.3 else -1.0), lambda x: math.exp(3 * x), lambda x: abs(x) ** 0.5 * 40]
    return fs[k % len(fs)]


def fnnd(k):
    fs = [lambda p: p[0] + p[1], lambda p: p[0] * p[1], lambda p: math.sin(3 * p[0]) + p[1] ** 2,
          lambda p: math.exp(-(p[0] ** 2 + p[1] ** 2) * 4), lambda p: 1.0]
    return fs[k % len(fs)]


def fnavg(k):
    def f(seed):
        h = (seed * 2654435761 + k * 40503) % 2 ** 32
        return (h / 2 ** 32 - 0.5) * (1 + k) + k
    return f


def fnavg1d(k):
    base = fn1d(k)

    def f(seed_x):
        seed, x = seed_x
        h = (int(seed) * 2654435761 + k * 40503 + int(round(float(x) * 1000)) * 97) % 2 ** 32
        return base(x) + (h / 2 ** 32 - 0.5) * 0.2 * (1 + k % 3)
    return f


def make_child(kind: str, k: int, size: int = 60):
    """A fresh real learner of the given kind (k varies the function/domain)."""
    import adaptive
    if kind == "l1d":
        b = [(-1.0, 1.0), (0.0, 2.0), (-3.0, 5.0)][k % 3]
        return adaptive.Learner1D(fn1d(k), b)
    if kind == "avg":
        return adaptive.AverageLearner(fnavg(k), atol=0.01 * (1 + k % 3), rtol=None)
    if kind == "seq":
        return adaptive.SequenceLearner(lambda e: float(e) * 0.5 + k, [10.0 * k + j for j in range(size)])
    if kind == "lnd":
        b = [(-1.0, 1.0), (-1.0, 1.0)] if k % 2 == 0 else [(0.0, 2.0), (-1.0, 3.0)]
        return adaptive.LearnerND(fnnd(k), b)
    if kind == "int":
        return adaptive.IntegratorLearner(fn1d(k), bounds=(0.0, 1.0) if k % 2 == 0 else (-1.0, 2.0), tol=1e-8)
    if kind == "l2d":          # C18 only
        b = [(-1.0, 1.0), (-1.0, 1.0)] if k % 2 == 0 else [(0.0, 2.0), (-1.0, 3.0)]
        return adaptive.Learner2D(fnnd(k), b)
    if kind == "avg1d":        # C18 only; points are (seed, x)
        b = [(-1.0, 1.0), (0.0, 2.0), (-3.0, 5.0)][k % 3]
        return adaptive.AverageLearner1D(fnavg1d(k), b, min_samples=1 + k % 3, max_samples=6 + k % 3, delta=0.3 + 0.1 * (k % 2))
    raise ValueError(kind)


def evaluate(kind: str, child, p):
    """The learnt function on a point as the learner hands it out."""
    return float(child.function(p))


def enc_point(kind: str, p):
    """A point as a list of doubles (Run/OracleChild.v [pt])."""
    if kind == "seq":
        return [float(p[0])] if isinstance(p, tuple) else [float(p)]
    if kind in ("lnd", "l2d"):
        return [float(c) for c in p]
    if kind == "avg1d":        # a sample is (seed, x); the keys of `data` are plain x
        return [float(c) for c in p] if isinstance(p, tuple) else [float(p)]
    return [float(p)]


def hashable(kind: str, p):
    """The key under which the learner stores the point in data / pending_points."""
    if kind == "seq":
        return int(p[0]) if isinstance(p, tuple) else int(p)
    if kind in ("lnd", "l2d"):
        return tuple(float(c) for c in p)
    if kind == "avg":
        return int(p)
    if kind == "avg1d":
        return (int(p[0]), float(p[1])) if isinstance(p, tuple) else float(p)
    return float(p)


def _fval(v):
    """A told value as a double for the log (nan for a value that is none, e.g. None passed on by a wrapper)."""
    try:
        return float(v)
    except Exception:
        return float("nan")


def child_loss(child, real):
    """loss(real) of a child, bypassing any instance-level wrapper; nan when it raises (F11)."""
    try:
        return float(type(child).loss(child, real=real))
    except ZeroDivisionError:
        return float("nan")


def child_pending(kind, child):
    return sorted(enc_point(kind, p) for p in child.pending_points)


def child_data(kind, child):
    return sorted((enc_point(kind, p), float(v)) for p, v in child.data.items())


def public_state(kind, child):
    """Everything C15 can see of a child."""
    return {"npoints": int(child.npoints), "data": child_data(kind, child), "pend": child_pending(kind, child),
            "loss_r": child_loss(child, True), "loss_e": child_loss(child, False)}


def _same(a, b):
    return a == b or (isinstance(a, float) and isinstance(b, float) and math.isnan(a) and math.isnan(b))


def same_state(x, y):
    return all(_same(x[k], y[k]) for k in x)


def state_diff(x, y):
    return "; ".join(f"{k}: {str(x[k])[:60]} -> {str(y[k])[:60]}" for k in x if not _same(x[k], y[k]))


# ----------------------------------------------------------------------
_REG: dict = {}     # id(child) -> Recorder  (not stored on the child: LearnerND pickles its __dict__)
_SUB: dict = {}     # learner class -> recording subclass


def _subclass(cls, names=None):
    names = tuple(names or Recorder.NAMES)
    key = cls if names == Recorder.NAMES else (cls, names)
    if key not in _SUB:
        ns = {}
        for name in names:
            def mk(name):
                orig = getattr(cls, name)

                def m(self, *a, **k):
                    rec = _REG.get(id(self))
                    if rec is None:
                        return orig(self, *a, **k)
                    return rec._call(name, orig, a, k)
                m.__name__ = name
                return m
            ns[name] = mk(name)
        _SUB[key] = type("Rec" + cls.__name__, (cls,), ns)
    return _SUB[key]


class Recorder:
    """Records every call a wrapper makes on ONE child learner: the child's
    class is swapped for a subclass whose ask/tell/tell_pending/
    remove_unfinished log (call, answer, snapshot of the public state after).
    Calls the child makes on itself (ask -> self.tell_pending) are not logged."""

    NAMES = ("ask", "tell", "tell_many", "tell_pending", "remove_unfinished")

    def __init__(self, kind: str, child, index: int = 0, on_call=None, names=None, tolerant=False):
        """`names`: the methods to hook (default NAMES; C18 adds "_set_data", logged as CSetData).
        `tolerant`: a child whose loss() raises is snapshotted with nan losses instead of raising inside
        the wrapper's call (the caller looks at the child itself afterwards)."""
        self.kind, self.child, self.index, self.tolerant = kind, child, index, tolerant
        self.log: list[dict] = []
        self.depth = 0
        self.on_call = on_call          # callback(recorder, entry) after every outside call
        self.base = type(child)
        child.__class__ = _subclass(self.base, names)
        self.snap0 = self.snapshot(full=True)
        self.current = self.snap0       # the snapshot that describes the child's present state
        _REG[id(child)] = self

    def unwrap(self):
        _REG.pop(id(self.child), None)
        self.child.__class__ = self.base

    def snapshot(self, full=False):
        c = self.child
        if self.tolerant:
            def closs(c, real):
                try:
                    return child_loss(c, real)
                except Exception:
                    return float("nan")
        else:
            closs = child_loss
        return {"npoints": int(c.npoints), "loss_r": closs(c, True), "loss_e": closs(c, False),
                "pend": child_pending(self.kind, c),
                "data": child_data(self.kind, c) if full else None}

    def restored_to(self, snap):
        """The child was put back (utils.restore) into the state described by `snap` (a value of
        `self.current` taken earlier): not a call on the child, the log simply continues."""
        self.current = snap

    def mark_full(self):
        """Record the data of the child in its latest snapshot (called by the
        harness after every wrapper operation)."""
        tgt = self.current
        if tgt["data"] is None:
            tgt["data"] = child_data(self.kind, self.child)

    def _call(self, name, orig, args, kwargs):
        child = self.child
        if self.depth > 0:
            return orig(child, *args, **kwargs)
        if name == "tell_many":
            # a wrapper that forwards a whole batch: recorded as the sequence of its tells (the
            # intermediate states are not observable); one-shot iterables are materialised first
            xs, ys = list(args[0]), list(args[1])
            self.depth += 1
            try:
                ret = orig(child, xs, ys, *args[2:], **kwargs)
            finally:
                self.depth -= 1
            after = self.snapshot()
            self.current = after
            for x, y in zip(xs, ys):
                e = {"name": "tell", "pts": [], "imps": [], "raw_pts": [],
                     "call": ("tell", enc_point(self.kind, x), _fval(y)), "after": after}
                self.log.append(e)
                if self.on_call:
                    self.on_call(self, e)
            return ret
        self.depth += 1
        try:
            ret = orig(child, *args, **kwargs)
        finally:
            self.depth -= 1
        e = {"name": name, "pts": [], "imps": [], "raw_pts": []}
        if name == "ask":
            n = args[0] if args else kwargs["n"]
            commit = args[1] if len(args) > 1 else kwargs.get("tell_pending", True)
            e["call"] = ("ask", int(n), bool(commit))
            e["raw_pts"] = list(ret[0])
            e["pts"] = [enc_point(self.kind, p) for p in ret[0]]
            e["imps"] = [float(v) for v in ret[1]]
        elif name == "tell":
            e["call"] = ("tell", enc_point(self.kind, args[0]), _fval(args[1]))
        elif name == "tell_pending":
            e["call"] = ("tell_pending", enc_point(self.kind, args[0]))
        elif name == "_set_data":
            e["call"] = ("set_data",)
        else:
            e["call"] = ("remove",)
        e["after"] = self.snapshot()
        self.current = e["after"]
        self.log.append(e)
        if self.on_call:
            self.on_call(self, e)
        return ret


# ----------------------------------------------------------------------
# Gallina printers (Run/OracleChild.v)
def pt_term(p):
    return C.lst(C.flt(c) for c in p)


def snap_term(s):
    return C.app("mksnap", C.nat(s["npoints"]), C.flt(s["loss_r"]), C.flt(s["loss_e"]),
                 C.lst(pt_term(p) for p in s["pend"]),
                 C.opt(s["data"], lambda d: C.lst(C.pair(pt_term(p), C.flt(v)) for p, v in d)))


def call_term(c):
    if c[0] == "ask":
        return C.app("CAsk", C.nat(c[1]), C.bool_(c[2]))
    if c[0] == "tell":
        return C.app("CTell", pt_term(c[1]), C.flt(c[2]))
    if c[0] == "tell_pending":
        return C.app("CTellPending", pt_term(c[1]))
    if c[0] == "set_data":
        return "CSetData"
    return "CRemove"


def entry_term(e):
    return C.app("mkentry", call_term(e["call"]), C.lst(pt_term(p) for p in e["pts"]),
                 C.lst(C.flt(v) for v in e["imps"]), snap_term(e["after"]))


def child_term(rec: Recorder, upto=None):
    log = rec.log if upto is None else rec.log[:upto]
    return C.pair(C.lst((entry_term(e) for e in log), sep=";\n    "), snap_term(rec.snap0))
