"""Fault injection around the REAL adaptive.utils.save (property C14).

The names `adaptive.utils.save` reaches for -- os.makedirs, open, os.replace
(os.rename), os.path.exists, os.remove (os.unlink) -- are patched for the
duration of one call.  The injected `open` honours its `mode` and `buffering`
arguments the way the real one does: it opens the real file as a raw FileIO,
puts a fake RAW file (io.RawIOBase) in front of it and wraps that in the real
io.BufferedWriter / TextIOWrapper exactly when the real open would; with
buffering=0 the raw object itself is handed out.  Faults are injected at the
raw layer, i.e. where write(2)/close(2) happen.

Every call that concerns a path under the scratch root consumes one decision of
the plan (["ok"] | ["fail", n] | ["die", n] | ["short", k]; ok beyond the end),
is recorded, and is then carried out on the real file system, fails with an
OSError, or kills the process.  For a raw write, "fail"/"die" let n bytes reach
the file before the fault; "short" accepts only k (1 <= k < len) bytes and
returns k WITHOUT an error, as write(2) does on a full disk or at RLIMIT_FSIZE
(a BufferedWriter retries the rest; code that writes to a raw file and ignores
the count loses it).  Everything else passes through untouched (fsync, reads,
paths elsewhere).

In-process use (no deaths): run_case(cfg, plan).  Deaths: `python -m
avh.impl_c14_inject` reads a JSON job list on stdin, runs each save in a
forked child that really dies (os._exit(9) or SIGKILL) at the chosen call, and
prints the observations as JSON.  Jobs with cfg["rlimit"]=k run the unpatched
save in a forked child under resource.setrlimit(RLIMIT_FSIZE, k) with SIGXFSZ
ignored, so that the real kernel produces the short write.
"""
from __future__ import annotations

import builtins
import errno
import gzip
import io
import json
import os
import shutil
import signal
import sys

OK = ["ok"]

OLD_DATA = {-1.0: 1.0, 0.0: 0.5, 1.0: 2.0}
NEW_DATA = {-1.0: 1.0, -0.5: 0.625, 0.0: 0.5, 0.5: 1.25, 1.0: 2.0}


def big_data(n):
    """n entries; pickled larger than the I/O buffer, so that a BufferedWriter writes straight through."""
    return {i / 1024.0: (i * 37 % 1009) / 7.0 for i in range(n)}


BYSTANDER = b"bystander\n"
STALE = b"stale-temp"

ERRORS = [
    lambda: OSError(errno.ENOSPC, "No space left on device (injected)"),
    lambda: PermissionError(errno.EACCES, "Permission denied (injected)"),
    lambda: OSError(errno.EIO, "Input/output error (injected)"),
    lambda: FileNotFoundError(errno.ENOENT, "No such file or directory (injected)"),
    # (no EINTR / EAGAIN: the io layer itself retries those, PEP 475 -- they are not failures save can see)
    lambda: OSError(errno.EDQUOT, "Disk quota exceeded (injected)"),
]


class Injector:
    def __init__(self, root, plan, child=False, logfd=None, kill="exit", err=0):
        self.root = os.path.realpath(root)
        self.plan = [list(d) for d in plan]
        self.child, self.logfd, self.kill, self.err = child, logfd, kill, err
        self.idx = 0
        self.busy = False
        self.active = False
        self.events = []
        self.saved = {}

    # -- bookkeeping ---------------------------------------------------
    def rel(self, p):
        try:
            a = os.path.abspath(os.fsdecode(os.fspath(p)))
        except Exception:
            return None
        if a == self.root:
            return "."
        if a.startswith(self.root + os.sep):
            return os.path.relpath(a, self.root)
        return None

    def next(self):
        d = self.plan[self.idx] if self.idx < len(self.plan) else OK
        self.idx += 1
        return d

    def log(self, sc, p1, p2, n, res, data=None):
        ev = {"sc": sc, "p1": p1, "p2": p2, "n": n, "res": res}
        if data is not None:
            ev["data"] = bytes(data).hex()
        self.events.append(ev)
        if self.logfd is not None:
            os.write(self.logfd, (json.dumps(ev) + "\n").encode())

    def die(self):
        if not self.child:
            raise RuntimeError("a 'die' decision outside a child process")
        if self.kill == "sigkill":
            os.kill(os.getpid(), signal.SIGKILL)
        os._exit(9)

    def oserror(self, sc):
        e = ERRORS[self.err % len(ERRORS)]()
        e.c14_sc = sc
        return e

    def simple(self, sc, p1, p2, action):
        d = self.next()
        if d[0] == "die":
            self.log(sc, p1, p2, 0, "die")
            self.die()
        if d[0] == "fail":
            self.log(sc, p1, p2, 0, "fail")
            raise self.oserror(sc)
        self.busy = True
        try:
            try:
                r = action()
            except OSError as e:
                self.log(sc, p1, p2, 0, "fail")      # a failure nobody injected
                e.c14_sc = sc
                raise
        finally:
            self.busy = False
        self.log(sc, p1, p2, 0, "ok")
        return r

    # -- the patched names ----------------------------------------------
    def install(self):
        inj = self
        import os.path as osp
        S = self.saved
        S.update(makedirs=os.makedirs, replace=os.replace, rename=os.rename, remove=os.remove,
                 unlink=os.unlink, exists=osp.exists, open=builtins.open, stat=os.stat)

        def makedirs(name, mode=0o777, exist_ok=False):
            r = inj.rel(name)
            if r is None or inj.busy:
                return S["makedirs"](name, mode, exist_ok)
            return inj.simple("makedirs", r, "", lambda: S["makedirs"](name, mode, exist_ok))

        def mk_replace(real):
            def replace(src, dst, **kw):
                a, b = inj.rel(src), inj.rel(dst)
                if a is None or b is None or inj.busy:
                    return real(src, dst, **kw)
                return inj.simple("replace", a, b, lambda: real(src, dst, **kw))
            return replace

        def mk_remove(real):
            def remove(p, **kw):
                r = inj.rel(p)
                if r is None or inj.busy:
                    return real(p, **kw)
                return inj.simple("remove", r, "", lambda: real(p, **kw))
            return remove

        def exists(p):
            r = inj.rel(p)
            if r is None or inj.busy:
                return S["exists"](p)
            d = inj.next()
            if d[0] == "die":
                inj.log("exists", r, "", 0, "die")
                inj.die()
            inj.busy = True
            try:
                if d[0] == "fail":
                    # the stat underneath fails; the real os.path.exists answers False
                    def bad_stat(*a, **k):
                        raise inj.oserror("exists")
                    os.stat = bad_stat
                    try:
                        ans = S["exists"](p)
                    finally:
                        os.stat = S["stat"]
                else:
                    ans = S["exists"](p)
            finally:
                inj.busy = False
            inj.log("exists", r, "", 0, "true" if ans else "false")
            return ans

        def fopen(file, mode="r", buffering=-1, encoding=None, errors=None, newline=None,
                  closefd=True, opener=None):
            r = inj.rel(file) if isinstance(file, (str, bytes, os.PathLike)) else None
            if r is None or inj.busy or not isinstance(mode, str) or not any(c in mode for c in "wax+"):
                return S["open"](file, mode, buffering, encoding, errors, newline, closefd, opener)
            # the argument checks of the real open
            binary, text = "b" in mode, "b" not in mode
            if not isinstance(buffering, int):
                raise TypeError(f"an integer is required (got type {type(buffering).__name__})")
            if binary and (encoding is not None or errors is not None or newline is not None):
                raise ValueError("binary mode doesn't take an encoding/errors/newline argument")
            if text and buffering == 0:
                raise ValueError("can't have unbuffered text I/O")
            rawmode = mode.replace("b", "").replace("t", "")
            real = inj.simple("open", r, "", lambda: io.FileIO(file, rawmode, closefd=closefd, opener=opener))
            raw = FaultyRaw(inj, real, r, mode)
            if buffering == 0:
                return raw                                  # unbuffered: the raw file itself
            line_buffering = buffering == 1 and text
            if buffering < 0 or buffering == 1:
                buffering = io.DEFAULT_BUFFER_SIZE
                inj.busy = True
                try:
                    bs = getattr(os.fstat(real.fileno()), "st_blksize", 0)
                finally:
                    inj.busy = False
                if bs > 1:
                    buffering = bs
            buf = (io.BufferedRandom if "+" in mode else io.BufferedWriter)(raw, buffering)
            if binary:
                return buf
            return io.TextIOWrapper(buf, encoding, errors, newline, line_buffering)

        self.active = True
        os.makedirs = makedirs
        os.replace = mk_replace(S["replace"])
        os.rename = mk_replace(S["rename"])
        os.remove = mk_remove(S["remove"])
        os.unlink = mk_remove(S["unlink"])
        osp.exists = exists
        builtins.open = fopen

    def uninstall(self):
        import os.path as osp
        self.active = False
        S = self.saved
        os.makedirs, os.replace, os.rename = S["makedirs"], S["replace"], S["rename"]
        os.remove, os.unlink, osp.exists = S["remove"], S["unlink"], S["exists"]
        builtins.open = S["open"]
        os.stat = S["stat"]


class FaultyRaw(io.RawIOBase):
    """Stands where the raw FileIO underneath open(tmp, 'wb') stands."""

    def __init__(self, inj, real, rel, mode):
        super().__init__()
        self._inj, self._real, self._rel, self._mode = inj, real, rel, mode

    name = property(lambda self: self._real.name)
    mode = property(lambda self: self._real.mode)

    def writable(self):
        return self._real.writable()

    def readable(self):
        return self._real.readable()

    def seekable(self):
        return self._real.seekable()

    def fileno(self):
        return self._real.fileno()

    def isatty(self):
        return False

    def seek(self, *a):
        return self._real.seek(*a)

    def tell(self):
        return self._real.tell()

    def truncate(self, *a):
        return self._real.truncate(*a)

    def readinto(self, b):
        return self._real.readinto(b)

    def _put(self, data):
        inj = self._inj
        inj.busy = True
        try:
            while data:
                k = self._real.write(data)
                data = data[k:]
        finally:
            inj.busy = False

    def write(self, b):
        inj = self._inj
        data = bytes(b)
        if not inj.active:
            self._put(data)
            return len(data)
        d = inj.next()
        kind = d[0]
        if kind == "ok":
            n = len(data)
        elif kind == "short":
            n = min(max(int(d[1]), 1), len(data))
            kind = "short" if n < len(data) else "ok"
        else:
            n = min(int(d[1]), len(data))
        self._put(data[:n])
        inj.log("write", self._rel, "", n, kind, data)
        if kind == "die":
            inj.die()
        if kind == "fail":
            raise inj.oserror("write")
        return n                         # "short": fewer bytes than asked for, no error

    def close(self):
        if self.closed:
            return
        inj = self._inj
        d = inj.next() if inj.active else OK
        if d[0] == "die":
            inj.log("close", self._rel, "", 0, "die")
            inj.die()
        inj.busy = True
        try:
            try:
                self._real.close()      # the descriptor is released either way
            finally:
                super().close()
        finally:
            inj.busy = False
        if not inj.active:
            return
        if d[0] == "fail":
            inj.log("close", self._rel, "", 0, "fail")
            raise inj.oserror("close")
        inj.log("close", self._rel, "", 0, "ok")


# ----------------------------------------------------------------------
def new_data_of(cfg):
    return big_data(cfg["big"]) if cfg.get("big") else NEW_DATA


def encode(data, compress):
    """The bytes of a saved file, produced without adaptive.utils.save."""
    import pickle
    import cloudpickle
    blob = cloudpickle.dumps(data, protocol=pickle.HIGHEST_PROTOCOL)
    return gzip.compress(blob) if compress else blob


def fname_of(cfg, root):
    lay = cfg["layout"]
    rel = {"bare": "data.pickle", "sub": "sub/data.pickle", "newdir": "new/deep/data.pickle",
           "abs": "sub/data.pickle"}[lay]
    return (os.path.join(root, rel) if lay == "abs" else rel), rel


def prepare(cfg, root):
    """Fresh scratch root for one run; returns (fname to pass to save, dst relative to root)."""
    shutil.rmtree(root, ignore_errors=True)
    os.makedirs(root)
    fname, rel = fname_of(cfg, root)
    with open(os.path.join(root, "other.txt"), "wb") as f:
        f.write(BYSTANDER)
    if cfg["layout"] in ("sub", "abs"):
        os.makedirs(os.path.join(root, "sub"))
        with open(os.path.join(root, "sub", "other.bin"), "wb") as f:
            f.write(BYSTANDER)
    if cfg["prev"]:
        with open(os.path.join(root, rel), "wb") as f:
            f.write(encode(OLD_DATA, cfg["compress"]))
    return fname, rel


def snapshot(root):
    files, dirs = {}, []
    for dp, dn, fn in os.walk(root):
        for d in dn:
            dirs.append(os.path.relpath(os.path.join(dp, d), root))
        for f in fn:
            p = os.path.join(dp, f)
            with open(p, "rb") as fh:
                files[os.path.relpath(p, root)] = fh.read().hex()
    return {"files": files, "dirs": sorted(dirs)}


def call_save(root, fname, cfg, plan, child=False, logfd=None):
    """Run the real save under the plan; cwd must already be root."""
    import adaptive.utils as U
    inj = Injector(root, plan, child=child, logfd=logfd, kill=cfg.get("kill", "exit"), err=cfg.get("err", 0))
    data = new_data_of(cfg)
    inj.install()
    try:
        try:
            if cfg.get("via") == "learner":
                import adaptive
                lrn = adaptive.Learner1D(lambda x: x, (-1, 1))
                lrn.tell_many(list(data), list(data.values()))
                ret = lrn.save(fname, compress=cfg["compress"])
                out = ["learner_returned", repr(ret)]
            else:
                ret = U.save(fname, data, cfg["compress"])
                out = ["returned", ret] if isinstance(ret, bool) else ["other", "returned " + repr(ret)]
        except OSError as e:
            sc = getattr(e, "c14_sc", None)
            out = ["raised", sc, type(e).__name__] if sc else ["other", "raised " + repr(e)]
        except Exception as e:  # noqa: BLE001
            out = ["other", "raised " + repr(e)]
    finally:
        inj.uninstall()
    return out, inj.events


def run_case(cfg, plan, root):
    """In-process run (the plan contains no 'die')."""
    fname, rel = prepare(cfg, root)
    stale = None
    if cfg.get("stale"):
        stale = f"{rel}.{os.getpid()}"
        with open(os.path.join(root, stale), "wb") as f:
            f.write(STALE)
    before = snapshot(root)
    st0 = os.stat(os.path.join(root, rel)) if cfg["prev"] else None
    cwd = os.getcwd()
    os.chdir(root)
    try:
        out, events = call_save(root, fname, cfg, plan)
    finally:
        os.chdir(cwd)
    after = snapshot(root)
    st1 = os.stat(os.path.join(root, rel)) if os.path.exists(os.path.join(root, rel)) else None
    same_inode = None if st0 is None or st1 is None else (st0.st_ino == st1.st_ino and st0.st_mtime_ns == st1.st_mtime_ns)
    return {"cfg": cfg, "plan": plan, "dst": rel, "out": out, "events": events, "before": before,
            "after": after, "same_inode": same_inode, "where": "in-process"}


def run_case_forked(cfg, plan, root):
    """Run in a forked child that may really die; called inside the worker."""
    fname, rel = prepare(cfg, root)
    before = snapshot(root)
    st0 = os.stat(os.path.join(root, rel)) if cfg["prev"] else None
    logpath = root + ".log"
    sys.stdout.flush()
    pid = os.fork()
    if pid == 0:
        code = 3
        try:
            if cfg.get("stale"):
                with open(os.path.join(root, f"{rel}.{os.getpid()}"), "wb") as f:
                    f.write(STALE)
            os.chdir(root)
            fd = os.open(logpath, os.O_WRONLY | os.O_CREAT | os.O_TRUNC | os.O_APPEND, 0o644)
            out, _ = call_save(root, fname, cfg, plan, child=True, logfd=fd)
            os.write(fd, (json.dumps({"out": out}) + "\n").encode())
            code = 0
        finally:
            os._exit(code)
    _, status = os.waitpid(pid, 0)
    events, out = [], None
    if os.path.exists(logpath):
        with open(logpath) as f:
            for line in f:
                d = json.loads(line)
                if "out" in d:
                    out = d["out"]
                else:
                    events.append(d)
        os.remove(logpath)
    if os.WIFSIGNALED(status):
        how = f"signal {os.WTERMSIG(status)}"
        died = os.WTERMSIG(status) == signal.SIGKILL
    else:
        how = f"exit {os.WEXITSTATUS(status)}"
        died = os.WEXITSTATUS(status) == 9
    if died:
        out = ["died", how]
    elif out is None:
        out = ["other", "child ended with " + how]
    if cfg.get("stale"):
        before["files"][f"{rel}.{pid}"] = STALE.hex()
    after = snapshot(root)
    st1 = os.stat(os.path.join(root, rel)) if os.path.exists(os.path.join(root, rel)) else None
    same_inode = None if st0 is None or st1 is None else (st0.st_ino == st1.st_ino and st0.st_mtime_ns == st1.st_mtime_ns)
    return {"cfg": cfg, "plan": plan, "dst": rel, "out": out, "events": events, "before": before,
            "after": after, "same_inode": same_inode, "where": "forked child, " + how}


def run_case_rlimit(cfg, root):
    """The unpatched save in a forked child whose files may not grow beyond cfg["rlimit"] bytes:
    the real write(2) comes back short, the next one fails with EFBIG.  Only the exit status
    travels back (the child cannot write a log beyond the limit)."""
    import resource
    fname, rel = prepare(cfg, root)
    before = snapshot(root)
    st0 = os.stat(os.path.join(root, rel)) if cfg["prev"] else None
    sys.stdout.flush()
    pid = os.fork()
    if pid == 0:
        code = 5
        try:
            import adaptive.utils as U
            os.chdir(root)
            signal.signal(signal.SIGXFSZ, signal.SIG_IGN)
            _, hard = resource.getrlimit(resource.RLIMIT_FSIZE)
            resource.setrlimit(resource.RLIMIT_FSIZE, (int(cfg["rlimit"]), hard))
            try:
                ret = U.save(fname, new_data_of(cfg), cfg["compress"])
                code = 0 if ret is True else 1 if ret is False else 4
            except OSError:
                code = 2
            except BaseException:  # noqa: BLE001
                code = 3
        finally:
            os._exit(code)
    _, status = os.waitpid(pid, 0)
    code = os.WEXITSTATUS(status) if os.WIFEXITED(status) else -os.WTERMSIG(status)
    out = {0: ["returned", True], 1: ["returned", False], 2: ["raised", "?", "OSError"]}.get(
        code, ["other", f"child ended with status {code}"])
    after = snapshot(root)
    st1 = os.stat(os.path.join(root, rel)) if os.path.exists(os.path.join(root, rel)) else None
    same_inode = None if st0 is None or st1 is None else (st0.st_ino == st1.st_ino and st0.st_mtime_ns == st1.st_mtime_ns)
    return {"cfg": cfg, "plan": [], "dst": rel, "out": out, "events": [], "before": before, "after": after,
            "same_inode": same_inode, "where": f"forked child, real kernel, RLIMIT_FSIZE={cfg['rlimit']}"}


def worker_main():
    jobs = json.load(sys.stdin)
    import adaptive.utils  # noqa: F401  (import once, before forking)
    res = []
    for j in jobs:
        if "rlimit" in j["cfg"]:
            res.append(run_case_rlimit(j["cfg"], j["root"]))
        else:
            res.append(run_case_forked(j["cfg"], j["plan"], j["root"]))
        shutil.rmtree(j["root"], ignore_errors=True)
    real_stdout.write(json.dumps(res))
    real_stdout.flush()


if __name__ == "__main__":
    real_stdout = sys.stdout
    sys.stdout = sys.stderr
    worker_main()
