"""Fault injection around the REAL adaptive.utils.save (property C14).

The names `adaptive.utils.save` reaches for -- os.makedirs, open, the file
object's write/close, os.replace (os.rename), os.path.exists, os.remove
(os.unlink) -- are patched for the duration of one call.  Every call that
concerns a path under the scratch root consumes one decision of the plan
(["ok"] | ["fail", n] | ["die", n]; ok beyond the end), is recorded, and is then
carried out on the real file system, fails with an OSError, or kills the
process.  For a write, n bytes of the chunk reach the file (flushed) before the
fault.  Everything else passes through untouched (flush, fsync, reads, paths
elsewhere).

In-process use (no deaths): run_case(cfg, plan).  Deaths: `python -m
avh.impl_c14_inject` reads a JSON job list on stdin, runs each save in a
forked child that really dies (os._exit(9) or SIGKILL) at the chosen call, and
prints the observations as JSON.
"""
from __future__ import annotations

import builtins
import errno
import gzip
import json
import os
import shutil
import signal
import sys

OK = ["ok"]

OLD_DATA = {-1.0: 1.0, 0.0: 0.5, 1.0: 2.0}
NEW_DATA = {-1.0: 1.0, -0.5: 0.625, 0.0: 0.5, 0.5: 1.25, 1.0: 2.0}
BYSTANDER = b"bystander\n"
STALE = b"stale-temp"

ERRORS = [
    lambda: OSError(errno.ENOSPC, "No space left on device (injected)"),
    lambda: PermissionError(errno.EACCES, "Permission denied (injected)"),
    lambda: OSError(errno.EIO, "Input/output error (injected)"),
    lambda: FileNotFoundError(errno.ENOENT, "No such file or directory (injected)"),
    lambda: InterruptedError(errno.EINTR, "Interrupted (injected)"),
]


class Injector:
    def __init__(self, root, plan, child=False, logfd=None, kill="exit", err=0):
        self.root = os.path.realpath(root)
        self.plan = [list(d) for d in plan]
        self.child, self.logfd, self.kill, self.err = child, logfd, kill, err
        self.idx = 0
        self.busy = False
        self.events = []
        self.saved = {}

    # -- bookkeeping ---------------------------------------------------
    def rel(self, p):
        try:
            a = os.path.abspath(os.fsdecode(os.fspath(p)))
        except Exception:
            return None
        if a == self.root:
            return "."
        if a.startswith(self.root + os.sep):
            return os.path.relpath(a, self.root)
        return None

    def next(self):
        d = self.plan[self.idx] if self.idx < len(self.plan) else OK
        self.idx += 1
        return d

    def log(self, sc, p1, p2, n, res, data=None):
        ev = {"sc": sc, "p1": p1, "p2": p2, "n": n, "res": res}
        if data is not None:
            ev["data"] = bytes(data).hex()
        self.events.append(ev)
        if self.logfd is not None:
            os.write(self.logfd, (json.dumps(ev) + "\n").encode())

    def die(self):
        if not self.child:
            raise RuntimeError("a 'die' decision outside a child process")
        if self.kill == "sigkill":
            os.kill(os.getpid(), signal.SIGKILL)
        os._exit(9)

    def oserror(self, sc):
        e = ERRORS[self.err % len(ERRORS)]()
        e.c14_sc = sc
        return e

    def simple(self, sc, p1, p2, action):
        d = self.next()
        if d[0] == "die":
            self.log(sc, p1, p2, 0, "die")
            self.die()
        if d[0] == "fail":
            self.log(sc, p1, p2, 0, "fail")
            raise self.oserror(sc)
        self.busy = True
        try:
            try:
                r = action()
            except OSError as e:
                self.log(sc, p1, p2, 0, "fail")      # a failure nobody injected
                e.c14_sc = sc
                raise
        finally:
            self.busy = False
        self.log(sc, p1, p2, 0, "ok")
        return r

    # -- the patched names ----------------------------------------------
    def install(self):
        inj = self
        import os.path as osp
        S = self.saved
        S.update(makedirs=os.makedirs, replace=os.replace, rename=os.rename, remove=os.remove,
                 unlink=os.unlink, exists=osp.exists, open=builtins.open, stat=os.stat)

        def makedirs(name, mode=0o777, exist_ok=False):
            r = inj.rel(name)
            if r is None or inj.busy:
                return S["makedirs"](name, mode, exist_ok)
            return inj.simple("makedirs", r, "", lambda: S["makedirs"](name, mode, exist_ok))

        def mk_replace(real):
            def replace(src, dst, **kw):
                a, b = inj.rel(src), inj.rel(dst)
                if a is None or b is None or inj.busy:
                    return real(src, dst, **kw)
                return inj.simple("replace", a, b, lambda: real(src, dst, **kw))
            return replace

        def mk_remove(real):
            def remove(p, **kw):
                r = inj.rel(p)
                if r is None or inj.busy:
                    return real(p, **kw)
                return inj.simple("remove", r, "", lambda: real(p, **kw))
            return remove

        def exists(p):
            r = inj.rel(p)
            if r is None or inj.busy:
                return S["exists"](p)
            d = inj.next()
            if d[0] == "die":
                inj.log("exists", r, "", 0, "die")
                inj.die()
            inj.busy = True
            try:
                if d[0] == "fail":
                    # the stat underneath fails; the real os.path.exists answers False
                    def bad_stat(*a, **k):
                        raise inj.oserror("exists")
                    os.stat = bad_stat
                    try:
                        ans = S["exists"](p)
                    finally:
                        os.stat = S["stat"]
                else:
                    ans = S["exists"](p)
            finally:
                inj.busy = False
            inj.log("exists", r, "", 0, "true" if ans else "false")
            return ans

        def fopen(file, mode="r", *a, **k):
            r = inj.rel(file) if isinstance(file, (str, bytes, os.PathLike)) else None
            if r is None or inj.busy or not isinstance(mode, str) or not any(c in mode for c in "wax+"):
                return S["open"](file, mode, *a, **k)
            real = inj.simple("open", r, "", lambda: S["open"](file, mode, *a, **k))
            return FaultyFile(inj, real, r)

        os.makedirs = makedirs
        os.replace = mk_replace(S["replace"])
        os.rename = mk_replace(S["rename"])
        os.remove = mk_remove(S["remove"])
        os.unlink = mk_remove(S["unlink"])
        osp.exists = exists
        builtins.open = fopen

    def uninstall(self):
        import os.path as osp
        S = self.saved
        os.makedirs, os.replace, os.rename = S["makedirs"], S["replace"], S["rename"]
        os.remove, os.unlink, osp.exists = S["remove"], S["unlink"], S["exists"]
        builtins.open = S["open"]
        os.stat = S["stat"]


class FaultyFile:
    """Stands where the file object returned by open(tmp, 'wb') stands."""

    def __init__(self, inj, real, rel):
        self._inj, self._real, self._rel = inj, real, rel
        self._closed = False

    def write(self, data):
        inj = self._inj
        data = bytes(data)
        d = inj.next()
        n = len(data) if d[0] == "ok" else min(int(d[1]), len(data))
        inj.busy = True
        try:
            self._real.write(data[:n])
            self._real.flush()
        finally:
            inj.busy = False
        if d[0] == "die":
            inj.log("write", self._rel, "", n, "die", data)
            inj.die()
        if d[0] == "fail":
            inj.log("write", self._rel, "", n, "fail", data)
            raise inj.oserror("write")
        inj.log("write", self._rel, "", n, "ok", data)
        return n

    def close(self):
        if self._closed:
            return
        inj = self._inj
        d = inj.next()
        if d[0] == "die":
            inj.log("close", self._rel, "", 0, "die")
            inj.die()
        self._closed = True
        inj.busy = True
        try:
            self._real.close()          # the descriptor is released either way
        finally:
            inj.busy = False
        if d[0] == "fail":
            inj.log("close", self._rel, "", 0, "fail")
            raise inj.oserror("close")
        inj.log("close", self._rel, "", 0, "ok")

    def __enter__(self):
        return self

    def __exit__(self, *exc):
        self.close()

    def __getattr__(self, name):
        return getattr(self._real, name)


# ----------------------------------------------------------------------
def data_of(name):
    return {"old": OLD_DATA, "new": NEW_DATA}[name]


def encode(data, compress):
    """The bytes of a saved file, produced without adaptive.utils.save."""
    import pickle
    import cloudpickle
    blob = cloudpickle.dumps(data, protocol=pickle.HIGHEST_PROTOCOL)
    return gzip.compress(blob) if compress else blob


def fname_of(cfg, root):
    lay = cfg["layout"]
    rel = {"bare": "data.pickle", "sub": "sub/data.pickle", "newdir": "new/deep/data.pickle",
           "abs": "sub/data.pickle"}[lay]
    return (os.path.join(root, rel) if lay == "abs" else rel), rel


def prepare(cfg, root):
    """Fresh scratch root for one run; returns (fname to pass to save, dst relative to root)."""
    shutil.rmtree(root, ignore_errors=True)
    os.makedirs(root)
    fname, rel = fname_of(cfg, root)
    with open(os.path.join(root, "other.txt"), "wb") as f:
        f.write(BYSTANDER)
    if cfg["layout"] in ("sub", "abs"):
        os.makedirs(os.path.join(root, "sub"))
        with open(os.path.join(root, "sub", "other.bin"), "wb") as f:
            f.write(BYSTANDER)
    if cfg["prev"]:
        with open(os.path.join(root, rel), "wb") as f:
            f.write(encode(OLD_DATA, cfg["compress"]))
    return fname, rel


def snapshot(root):
    files, dirs = {}, []
    for dp, dn, fn in os.walk(root):
        for d in dn:
            dirs.append(os.path.relpath(os.path.join(dp, d), root))
        for f in fn:
            p = os.path.join(dp, f)
            with open(p, "rb") as fh:
                files[os.path.relpath(p, root)] = fh.read().hex()
    return {"files": files, "dirs": sorted(dirs)}


def call_save(root, fname, cfg, plan, child=False, logfd=None):
    """Run the real save under the plan; cwd must already be root."""
    import adaptive.utils as U
    inj = Injector(root, plan, child=child, logfd=logfd, kill=cfg.get("kill", "exit"), err=cfg.get("err", 0))
    data = data_of("new")
    inj.install()
    try:
        try:
            if cfg.get("via") == "learner":
                import adaptive
                lrn = adaptive.Learner1D(lambda x: x, (-1, 1))
                lrn.tell_many(list(data), list(data.values()))
                ret = lrn.save(fname, compress=cfg["compress"])
                out = ["learner_returned", repr(ret)]
            else:
                ret = U.save(fname, data, cfg["compress"])
                out = ["returned", ret] if isinstance(ret, bool) else ["other", "returned " + repr(ret)]
        except OSError as e:
            sc = getattr(e, "c14_sc", None)
            out = ["raised", sc, type(e).__name__] if sc else ["other", "raised " + repr(e)]
        except Exception as e:  # noqa: BLE001
            out = ["other", "raised " + repr(e)]
    finally:
        inj.uninstall()
    return out, inj.events


def run_case(cfg, plan, root):
    """In-process run (the plan contains no 'die')."""
    fname, rel = prepare(cfg, root)
    stale = None
    if cfg.get("stale"):
        stale = f"{rel}.{os.getpid()}"
        with open(os.path.join(root, stale), "wb") as f:
            f.write(STALE)
    before = snapshot(root)
    st0 = os.stat(os.path.join(root, rel)) if cfg["prev"] else None
    cwd = os.getcwd()
    os.chdir(root)
    try:
        out, events = call_save(root, fname, cfg, plan)
    finally:
        os.chdir(cwd)
    after = snapshot(root)
    st1 = os.stat(os.path.join(root, rel)) if os.path.exists(os.path.join(root, rel)) else None
    same_inode = None if st0 is None or st1 is None else (st0.st_ino == st1.st_ino and st0.st_mtime_ns == st1.st_mtime_ns)
    return {"cfg": cfg, "plan": plan, "dst": rel, "out": out, "events": events, "before": before,
            "after": after, "same_inode": same_inode, "where": "in-process"}


def run_case_forked(cfg, plan, root):
    """Run in a forked child that may really die; called inside the worker."""
    fname, rel = prepare(cfg, root)
    before = snapshot(root)
    st0 = os.stat(os.path.join(root, rel)) if cfg["prev"] else None
    logpath = root + ".log"
    sys.stdout.flush()
    pid = os.fork()
    if pid == 0:
        code = 3
        try:
            if cfg.get("stale"):
                with open(os.path.join(root, f"{rel}.{os.getpid()}"), "wb") as f:
                    f.write(STALE)
            os.chdir(root)
            fd = os.open(logpath, os.O_WRONLY | os.O_CREAT | os.O_TRUNC | os.O_APPEND, 0o644)
            out, _ = call_save(root, fname, cfg, plan, child=True, logfd=fd)
            os.write(fd, (json.dumps({"out": out}) + "\n").encode())
            code = 0
        finally:
            os._exit(code)
    _, status = os.waitpid(pid, 0)
    events, out = [], None
    if os.path.exists(logpath):
        with open(logpath) as f:
            for line in f:
                d = json.loads(line)
                if "out" in d:
                    out = d["out"]
                else:
                    events.append(d)
        os.remove(logpath)
    if os.WIFSIGNALED(status):
        how = f"signal {os.WTERMSIG(status)}"
        died = os.WTERMSIG(status) == signal.SIGKILL
    else:
        how = f"exit {os.WEXITSTATUS(status)}"
        died = os.WEXITSTATUS(status) == 9
    if died:
        out = ["died", how]
    elif out is None:
        out = ["other", "child ended with " + how]
    if cfg.get("stale"):
        before["files"][f"{rel}.{pid}"] = STALE.hex()
    after = snapshot(root)
    st1 = os.stat(os.path.join(root, rel)) if os.path.exists(os.path.join(root, rel)) else None
    same_inode = None if st0 is None or st1 is None else (st0.st_ino == st1.st_ino and st0.st_mtime_ns == st1.st_mtime_ns)
    return {"cfg": cfg, "plan": plan, "dst": rel, "out": out, "events": events, "before": before,
            "after": after, "same_inode": same_inode, "where": "forked child, " + how}


def worker_main():
    jobs = json.load(sys.stdin)
    import adaptive.utils  # noqa: F401  (import once, before forking)
    res = []
    for j in jobs:
        res.append(run_case_forked(j["cfg"], j["plan"], j["root"]))
        shutil.rmtree(j["root"], ignore_errors=True)
    real_stdout.write(json.dumps(res))
    real_stdout.flush()


if __name__ == "__main__":
    real_stdout = sys.stdout
    sys.stdout = sys.stderr
    worker_main()
