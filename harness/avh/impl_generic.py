"""Uniform adapters for every learner type and both wrappers (shared by C09 and
C10): deterministic construction, in-domain points the learner never
suggested, values, a canonical snapshot of the observable state, concrete
JSON-able operations, and twins built by REPLAYING a history on a fresh
learner (never by deepcopy/pickle: for several learner types those drop the
pending points).

A *spec* is a JSON-able dict naming a configuration:
  {"kind": "L1D"|"LND"|"L2D"|"Avg"|"Avg1D"|"Seq"|"Int", ...parameters}
  {"kind": "Bal", "child": <base spec>, "nchild": 2|3, "strategy": ...}
  {"kind": "DS", "child": <base spec>}
Wrappers nest: the child of a "Bal" / "DS" spec may itself be a "Bal" or "DS" spec (BalancingLearner over DataSavers,
DataSaver over a BalancingLearner, BalancingLearner over BalancingLearners, ...); a point of a nested BalancingLearner
is (index, point of the child), a value told to a DataSaver at any level is {"y": value for what it wraps, "tag": ...}.
"""
from __future__ import annotations

import math
import traceback
from operator import itemgetter

import numpy as np

BASE_KINDS = ["L1D", "LND", "Avg", "Avg1D", "Seq", "Int", "L2D"]
STRATEGIES = ["loss_improvements", "loss", "npoints", "cycle"]


# ---------------------------------------------------------------- canonical values
def canon(v):
    """Hashable, exactly comparable form of a point / value / answer."""
    if v is None or isinstance(v, (bool, str)):
        return v
    if isinstance(v, (int, np.integer)):
        return int(v)
    if isinstance(v, (float, np.floating)):
        v = float(v)
        return "nan" if math.isnan(v) else ("f", v.hex())
    if isinstance(v, np.ndarray):
        return ("a",) + tuple(canon(x) for x in v.tolist()) if v.ndim else canon(v.item())
    if isinstance(v, (tuple, list)):
        return ("t",) + tuple(canon(x) for x in v)
    if isinstance(v, dict):
        return ("d",) + tuple(sorted(((canon(k), canon(x)) for k, x in v.items()), key=repr))
    if isinstance(v, (set, frozenset)):
        return ("s",) + tuple(sorted((canon(x) for x in v), key=repr))
    return ("r", repr(v))


def plain(v):
    """JSON-able form of a point or value (floats stay floats)."""
    if isinstance(v, (np.integer,)):
        return int(v)
    if isinstance(v, (np.floating,)):
        return float(v)
    if isinstance(v, np.ndarray):
        return [plain(x) for x in v.tolist()]
    if isinstance(v, (tuple, list)):
        return [plain(x) for x in v]
    if isinstance(v, dict):
        return {str(k): plain(x) for k, x in v.items()}
    return v


def exc_value(e: BaseException):
    tb = traceback.extract_tb(e.__traceback__)
    where = [f"{fr.filename.rsplit('/', 1)[-1]}:{fr.name}" for fr in tb if "/adaptive/" in fr.filename]
    return ("exc", type(e).__name__, str(e)[:90], tuple(where[-4:]))


def is_exc(v):
    return isinstance(v, tuple) and len(v) == 4 and v[0] == "exc"


# ---------------------------------------------------------------- learnt functions (deterministic)
def _noise(a, b=0.0):
    t = math.sin(a * 12.9898 + b * 78.233) * 43758.5453
    return t - math.floor(t)


def f_1d(x):
    return x + 0.01 ** 2 / (0.01 ** 2 + (x - 0.3) ** 2)


def f_nd(p):
    x, y = p[0], p[1]
    z = p[2] if len(p) > 2 else 0.0
    return x + math.exp(-((x * x + y * y + z * z - 0.75 ** 2) ** 2) / 0.2 ** 4) + z * z


def f_avg(seed):
    return 1.0 + 2.0 * (_noise(float(seed)) - 0.5)


def f_avg1d(seed_x):
    seed, x = seed_x
    return x ** 3 - x + 3 * 0.05 ** 2 / (0.05 ** 2 + (x + 0.4) ** 2) + 1.5 * (_noise(float(seed), x) - 0.5)


def f_seq(e):
    return float(np.sum(np.asarray(e, dtype=float))) * 2.0 + 1.0


def f_int(x):
    return math.exp(-30 * (x - 0.3) ** 2) + (0.5 if x > 0.6 else 0.0)


def shift_value(v, d):
    """A told value moved by d: numbers, vectors (lists) and the {"y": ...} records of DataSavers at any depth."""
    if isinstance(v, dict):
        return dict(v, y=shift_value(v["y"], d))
    if isinstance(v, (list, tuple)):
        return [shift_value(x, d) for x in v]
    return v + d


# ---------------------------------------------------------------- adapters
class Adapter:
    kind = "?"
    keeps_first = True          # tell ignores a point it already knows
    unsolicited = True          # accepts in-domain points it never suggested
    discard_noop = False        # remove_unfinished is documented as a no-op
    pending_superset = False    # pending_points may legitimately hold more than what was handed out
    has_tell_pending = True
    retell_alt = True           # a re-tell with a DIFFERENT value is a legal op (first kept, or overwritten)

    def __init__(self, spec):
        self.spec = spec

    def stored(self, v):
        """What data holds for a told value (canonical)."""
        return canon(v)

    def count_points(self, keys):
        """npoints expected for a set of distinct told keys."""
        return len(keys)

    # keys: canonical identity of a point in data / pending_points
    def key(self, p):
        return canon(p)

    def point(self, p):
        """JSON round-tripped point -> what the learner expects."""
        return p

    def value(self, p):
        raise NotImplementedError

    def alt_value(self, p):
        v = self.value(p)
        return [x + 1.25 for x in v] if isinstance(v, list) else v + 1.25

    # falsy / special values a learner may legally be told (exact zeros of every flavour)
    specials = (0, 0.0, -0.0)

    def first_value(self, rng, p, prob=0.15):
        """The value for a first tell of p: now and then an exact zero."""
        if self.specials and rng.random() < prob:
            return rng.choice(self.specials)
        return self.value(p)

    def special_value(self, v):
        """A special (falsy) value of the innermost learner in the form this learner is told (wrappers wrap it)."""
        return v

    # points for the "hull" opening (LearnerND): well inside / near the border of the domain
    def interior_point(self, rng, l):
        return None

    def outer_point(self, rng, l):
        return None

    def rand_point(self, rng, l):
        raise NotImplementedError

    def data_items(self, l):
        return [(self.key(k), canon(v)) for k, v in l.data.items()]

    def pending(self, l):
        return [self.key(p) for p in l.pending_points]

    def extras(self, l):
        return ()

    def tell_many_ok(self, l, pts):
        return True


class A_L1D(Adapter):
    kind = "L1D"

    def make(self):
        from adaptive import Learner1D
        from adaptive.learner import learner1D as m
        loss = {"default": None, "uniform": m.uniform_loss, "curvature": m.curvature_loss_function(),
                "triangle": m.triangle_loss}[self.spec.get("loss", "default")]
        if self.spec.get("vec"):
            self.specials = ([0.0, 0.0], [-0.0, 0.0])
        return Learner1D(f_1d, tuple(self.spec.get("bounds", (-1.0, 1.0))), loss_per_interval=loss)

    def point(self, p):
        return float(p)

    def value(self, p):
        lo, hi = self.spec.get("bounds", (-1.0, 1.0))
        v = f_1d((float(p) - lo) / (hi - lo))
        return [v, 2.0 * v - 1.0] if self.spec.get("vec") else v

    def stored(self, v):
        # Learner1D.tell converts everything that is not a float / int with np.asarray(y, dtype=float); the rebuilding
        # path of tell_many stores the sequence as given -- both count as the same vector
        return canon(v) if isinstance(v, (float, int)) else canon(np.asarray(v, dtype=float))

    def data_items(self, l):
        return [(self.key(k), self.stored(v) if isinstance(v, (list, tuple, np.ndarray)) else canon(v)) for k, v in l.data.items()]

    def rand_point(self, rng, l):
        lo, hi = l.bounds
        for _ in range(20):
            x = lo + (hi - lo) * rng.randint(1, 255) / 256.0 if rng.random() < 0.5 else rng.uniform(lo, hi)
            if x not in l.data and x not in l.pending_points:
                return float(x)
        return None

    def tell_many_ok(self, l, pts):
        # the rebuilding path of Learner1D.tell_many is legal only once both end
        # points are known or pending (DESIGN 4.5); keep batches on the incremental path
        if not (len(pts) > 0.5 * len(l.data) and len(pts) > 2):
            return True
        xs = {float(p) for p in pts}
        return all(b in l.data or b in l.pending_points or b in xs for b in l.bounds)


class A_LND(Adapter):
    kind = "LND"

    def make(self):
        from adaptive import LearnerND
        from adaptive.learner import learnerND as m
        dim = self.spec.get("dim", 2)
        loss = {"default": None, "uniform": m.uniform_loss}[self.spec.get("loss", "default")]
        if self.spec.get("vec"):
            self.specials = ([0.0, 0.0], [-0.0, 0.0])
        return LearnerND(f_nd, self.box(dim), loss_per_simplex=loss)

    def box(self, dim=2):
        """Per-axis ranges: spec["bounds"] = [[lo, hi], ...] (default the cube [-1, 1]^dim).  Ranges that differ from axis
        to axis -- also disjoint ones -- are what exposes code that uses the wrong axis' range."""
        b = self.spec.get("bounds")
        return tuple((float(lo), float(hi)) for lo, hi in b) if b else tuple((-1.0, 1.0) for _ in range(dim))

    def from_unit(self, u):
        """A point of the cube [-1, 1]^d mapped affinely into the learner's box."""
        box = self.box(len(u))
        return tuple(lo + (hi - lo) * (x + 1.0) / 2.0 for x, (lo, hi) in zip(u, box))

    def to_unit(self, p):
        box = self.box(len(p))
        return tuple(2.0 * (float(x) - lo) / (hi - lo) - 1.0 for x, (lo, hi) in zip(p, box))

    def point(self, p):
        return tuple(float(x) for x in p)

    def key(self, p):
        return canon(tuple(float(x) for x in p))

    def value(self, p):
        v = f_nd(self.to_unit(tuple(p)) if self.spec.get("bounds") else tuple(p))
        return [v, 0.5 - v] if self.spec.get("vec") else v

    def _fresh(self, l, gen):
        for _ in range(20):
            p = self.from_unit(gen()) if self.spec.get("bounds") else gen()
            if p not in l.data and p not in l.pending_points:
                return p
        return None

    def interior_point(self, rng, l):
        nd = len(self.box(getattr(l, "ndim", 2)))
        return self._fresh(l, lambda: tuple(rng.uniform(-0.55, 0.55) for _ in range(nd)))

    def outer_point(self, rng, l):
        nd = len(self.box(getattr(l, "ndim", 2)))
        return self._fresh(l, lambda: tuple(rng.choice([-1, 1]) * rng.uniform(0.7, 0.95) for _ in range(nd)))

    def rand_point(self, rng, l):
        nd = len(self.box(getattr(l, "ndim", 2)))
        return self._fresh(l, lambda: tuple(rng.uniform(-0.97, 0.97) for _ in range(nd)))


class A_L2D(A_LND):
    kind = "L2D"
    keeps_first = False         # Learner2D.tell has no "already known" guard: a re-tell overwrites

    def make(self):
        from adaptive import Learner2D
        return Learner2D(f_nd, self.box(2))


class A_Avg(Adapter):
    kind = "Avg"

    def make(self):
        from adaptive import AverageLearner
        return AverageLearner(f_avg, atol=self.spec.get("atol", 0.05), rtol=self.spec.get("rtol", 1.0),
                              min_npoints=self.spec.get("min_npoints", 2))

    def point(self, p):
        return int(p)

    def value(self, p):
        return f_avg(int(p))

    def rand_point(self, rng, l):
        for _ in range(20):
            n = rng.choice([rng.randint(0, 12), rng.randint(40, 60)])
            if n not in l.data and n not in l.pending_points:
                return n
        return None

    def extras(self, l):
        return (("npoints_attr", int(l.npoints)), ("sum_f", canon(float(l.sum_f))), ("sum_f_sq", canon(float(l.sum_f_sq))))


class A_Avg1D(Adapter):
    kind = "Avg1D"

    def make(self):
        from adaptive import AverageLearner1D
        return AverageLearner1D(f_avg1d, (-2.0, 2.0), min_samples=self.spec.get("min_samples", 3),
                                delta=self.spec.get("delta", 0.2), alpha=self.spec.get("alpha", 0.005),
                                neighbor_sampling=self.spec.get("neighbor_sampling", 0.3))

    def point(self, p):
        return (int(p[0]), float(p[1]))

    def key(self, p):
        return canon((int(p[0]), float(p[1])))

    def value(self, p):
        return f_avg1d((int(p[0]), float(p[1])))

    def rand_point(self, rng, l):
        for _ in range(20):
            if l.data and rng.random() < 0.5:
                x = rng.choice(list(l.data))
                seed = rng.randint(0, 30)
            else:
                x = -2.0 + 4.0 * rng.randint(1, 63) / 64.0
                seed = rng.randint(0, 5)
            p = (seed, float(x))
            if p not in l.pending_points and not (x in l._data_samples and seed in l._data_samples[x]):
                return p
        return None

    def count_points(self, keys):
        return len({k[2] for k in keys})        # distinct abscissae: key = ("t", seed, x)

    # the record of what was told is _data_samples; data holds the running means
    def data_items(self, l):
        return [(self.key((seed, x)), canon(y)) for x, smp in l._data_samples.items() for seed, y in smp.items()]

    def extras(self, l):
        return (("means", tuple(sorted((canon(float(x)), canon(float(y))) for x, y in l.data.items()))),
                ("nsamples", int(l.nsamples)))


class A_Seq(Adapter):
    kind = "Seq"
    keeps_first = False
    specials = (0, 0.0, -0.0, False, None, "", [])      # the values are arbitrary objects

    def seq(self):
        n = self.spec.get("n", 12)
        return [[i, i + 0.5] for i in range(n)] if self.spec.get("elements", "list") == "list" else list(range(100, 100 + n))

    def make(self):
        from adaptive import SequenceLearner
        return SequenceLearner(f_seq, self.seq())

    def point(self, p):
        i = int(p[0])
        return (i, self.seq()[i])

    def key(self, p):
        return int(p[0]) if isinstance(p, (tuple, list)) else int(p)

    def value(self, p):
        return f_seq(self.seq()[int(p[0])])

    def rand_point(self, rng, l):
        n = len(l.sequence)         # (children of a BalancingLearner may be shorter prefixes of the configured sequence)
        todo = [i for i in range(n) if i not in l.data and i not in l.pending_points]
        if not todo:
            return None
        i = rng.choice(todo)
        return (i, self.seq()[i])


class A_Int(Adapter):
    kind = "Int"
    keeps_first = False         # tell overwrites (and re-processes)
    unsolicited = False         # only abscissae it handed out
    discard_noop = True
    pending_superset = True     # points are pending from the moment they are queued
    has_tell_pending = False
    retell_alt = False
    specials = (0.0,)

    def make(self):
        from adaptive import IntegratorLearner
        lo, hi = self.spec.get("bounds", (0.0, 1.0))     # a very narrow domain: requests soon fail ("No way to improve")
        return IntegratorLearner(f_int, (float(lo), float(hi)), tol=self.spec.get("tol", 1e-6))

    def point(self, p):
        return float(p)

    def value(self, p):
        return f_int(float(p))

    def rand_point(self, rng, l):
        return None

    def extras(self, l):
        try:
            ig, er = canon(float(l.igral)), canon(float(l.err))
        except Exception as e:  # noqa: BLE001
            ig = er = exc_value(e)[:2]
        return (("igral", ig), ("err", er), ("nivals", len(l.ivals)))


ADAPTERS = {c.kind: c for c in (A_L1D, A_LND, A_L2D, A_Avg, A_Avg1D, A_Seq, A_Int)}


class A_Bal(Adapter):
    kind = "Bal"

    def __init__(self, spec):
        super().__init__(spec)
        self.child = adapter(spec["child"])
        self.keeps_first = self.child.keeps_first
        self.unsolicited = self.child.unsolicited
        self.discard_noop = self.child.discard_noop
        self.pending_superset = self.child.pending_superset
        self.has_tell_pending = self.child.has_tell_pending
        self.retell_alt = self.child.retell_alt

    def stored(self, v):
        return self.child.stored(v)

    def count_points(self, keys):
        n = 0
        for i in {k[1] for k in keys}:
            n += self.child.count_points([k[2] for k in keys if k[1] == i])
        return n

    def make(self):
        from adaptive import BalancingLearner
        kids = [self.child.make() for _ in range(self.spec.get("nchild", 2))]
        if self.spec.get("child_ns"):
            # SequenceLearner children of UNEQUAL length (prefixes of the configured sequence): a request larger than what the
            # short ones can serve fails half-way, after points were handed out
            from adaptive import SequenceLearner
            seq = self.child.seq()
            kids = [SequenceLearner(f_seq, seq[:k]) for k in self.spec["child_ns"]]
        return BalancingLearner(kids, strategy=self.spec.get("strategy", "loss_improvements"))

    def point(self, p):
        return (int(p[0]), self.child.point(p[1]))

    def key(self, p):
        return ("b", int(p[0]), self.child.key(p[1]))

    @property
    def specials(self):
        return self.child.specials

    def special_value(self, v):
        return self.child.special_value(v)

    def value(self, p):
        return shift_value(self.child.value(p[1]), 0.125 * int(p[0]))

    def alt_value(self, p):
        v = shift_value(self.value(p), 1.25)
        return dict(v, tag="again") if isinstance(v, dict) else v

    def rand_point(self, rng, l):
        i = rng.randrange(len(l.learners))
        q = self.child.rand_point(rng, l.learners[i])
        return None if q is None else (i, q)

    def first_value(self, rng, p, prob=0.15):
        if self.child.specials and rng.random() < prob:
            return self.child.special_value(rng.choice(self.child.specials))
        return self.value(p)

    def interior_point(self, rng, l):
        i = rng.randrange(len(l.learners))
        q = self.child.interior_point(rng, l.learners[i])
        return None if q is None else (i, q)

    def outer_point(self, rng, l):
        i = rng.randrange(len(l.learners))
        q = self.child.outer_point(rng, l.learners[i])
        return None if q is None else (i, q)

    def data_items(self, l):
        return [(("b", i, k), v) for i, c in enumerate(l.learners) for k, v in self.child.data_items(c)]

    def pending(self, l):
        return [("b", i, k) for i, c in enumerate(l.learners) for k in self.child.pending(c)]

    def extras(self, l):
        return tuple(("child", i) + self.child.extras(c) for i, c in enumerate(l.learners))

    def tell_many_ok(self, l, pts):
        return True     # BalancingLearner.tell_many is BaseLearner's loop over tell


class A_DS(Adapter):
    kind = "DS"

    def __init__(self, spec):
        super().__init__(spec)
        self.child = adapter(spec["child"])
        for a in ("keeps_first", "unsolicited", "discard_noop", "pending_superset", "has_tell_pending", "retell_alt"):
            setattr(self, a, getattr(self.child, a))

    def stored(self, v):
        return self.child.stored(v["y"])

    def count_points(self, keys):
        return self.child.count_points(keys)

    @property
    def specials(self):
        return self.child.specials

    def special_value(self, v):
        return {"y": self.child.special_value(v), "tag": "first"}

    def make(self):
        from adaptive import DataSaver
        return DataSaver(self.child.make(), arg_picker=itemgetter("y"))

    def point(self, p):
        return self.child.point(p)

    def key(self, p):
        return self.child.key(p)

    def value(self, p):
        return {"y": self.child.value(p), "tag": "first"}

    def alt_value(self, p):
        return {"y": self.child.alt_value(p), "tag": "again"}

    def rand_point(self, rng, l):
        return self.child.rand_point(rng, l.learner)

    def first_value(self, rng, p, prob=0.15):
        if self.child.specials and rng.random() < prob:
            return self.special_value(rng.choice(self.child.specials))
        return self.value(p)

    def interior_point(self, rng, l):
        return self.child.interior_point(rng, l.learner)

    def outer_point(self, rng, l):
        return self.child.outer_point(rng, l.learner)

    def data_items(self, l):
        return self.child.data_items(l.learner)

    def pending(self, l):
        return self.child.pending(l.learner)

    def picked(self, v):
        return canon(v["y"])

    def extras(self, l):
        def k(x):
            return self.child.key(x)
        return self.child.extras(l.learner) + (("extra_data", tuple(sorted(((k(x), canon(r)) for x, r in l.extra_data.items()), key=repr))),)

    def tell_many_ok(self, l, pts):
        return True     # DataSaver.tell_many is BaseLearner's loop over DataSaver.tell


def adapter(spec) -> Adapter:
    k = spec["kind"]
    if k == "Bal":
        return A_Bal(spec)
    if k == "DS":
        return A_DS(spec)
    return ADAPTERS[k](spec)


def spec_name(spec):
    k = spec["kind"]
    if k == "Bal":
        return f"BalancingLearner[{spec.get('nchild', 2)}x{spec_name(spec['child'])},{spec.get('strategy')}]"
    if k == "DS":
        return f"DataSaver[{spec_name(spec['child'])}]"
    names = {"L1D": "Learner1D", "LND": "LearnerND", "L2D": "Learner2D", "Avg": "AverageLearner",
             "Avg1D": "AverageLearner1D", "Seq": "SequenceLearner", "Int": "IntegratorLearner"}
    extra = ",".join(f"{a}={b}" for a, b in sorted(spec.items()) if a != "kind")
    return names[k] + (f"({extra})" if extra else "")


def base_kind(spec):
    return base_kind(spec["child"]) if spec["kind"] in ("Bal", "DS") else spec["kind"]


def wrapper_depth(spec):
    """Number of wrappers around the innermost learner type (0 for a plain learner, >= 2 for nested wrappers)."""
    return 1 + wrapper_depth(spec["child"]) if spec["kind"] in ("Bal", "DS") else 0


def has_bal(spec):
    """Is there a BalancingLearner anywhere in the configuration?"""
    return spec["kind"] == "Bal" or spec["kind"] == "DS" and has_bal(spec["child"])


def walk(ad, l, path=()):
    """(path, adapter, learner) of EVERY learner of the tree, outermost first.  A path is a tuple of child indices of
    BalancingLearners and "w" for the learner wrapped by a DataSaver."""
    yield path, ad, l
    k = ad.spec["kind"]
    if k == "Bal":
        for i, c in enumerate(l.learners):
            yield from walk(ad.child, c, path + (i,))
    elif k == "DS":
        yield from walk(ad.child, l.learner, path + ("w",))


def path_name(path):
    return "[" + ".".join(str(x) for x in path) + "]"


# ---------------------------------------------------------------- observation
def _l2d_leaves(ad, l):
    k = ad.spec["kind"]
    if k == "Bal":
        return [x for c in l.learners for x in _l2d_leaves(ad.child, c)]
    if k == "DS":
        return _l2d_leaves(ad.child, l.learner)
    return [l] if k == "L2D" else []


def snapshot(ad: Adapter, l, fresh=False):
    """Everything the properties call observable, in canonical form.  With
    fresh=True (C10 only) the expected loss is read a second time after the
    learners' cached combined interpolators / the wrapper's loss caches were
    dropped, so that a clause can tell "stale cache" from "wrong state"."""
    def guarded(f, c=canon):
        try:
            return c(f())
        except Exception as e:  # noqa: BLE001
            return exc_value(e)[:3]

    def ident(x):
        return x
    data = guarded(lambda: tuple(sorted(ad.data_items(l), key=repr)), ident)
    pend = guarded(lambda: tuple(sorted(ad.pending(l), key=repr)), ident)
    s = {"data": data, "pending": pend, "npoints": guarded(lambda: int(l.npoints)),
         "loss_real": guarded(lambda: l.loss(real=True)), "loss_exp": guarded(lambda: l.loss(real=False)),
         "extras": guarded(lambda: ad.extras(l), ident)}
    if ad.spec["kind"] == "Bal":
        # what the children say right now (the BalancingLearner caches their losses)
        s["fresh_real"] = guarded(lambda: max(c.loss(real=True) for c in l.learners))
        s["fresh_exp"] = guarded(lambda: max(c.loss(real=False) for c in l.learners))
        s["child_exp"] = s["fresh_exp"]         # what the children themselves answer (before any cache of theirs is dropped)
    if wrapper_depth(ad.spec) >= 2:
        # nested wrappers: what every learner INSIDE reports itself, read from that object (not through the outer
        # wrappers): data, pending points, npoints, both losses of each BalancingLearner / innermost learner, and the
        # extra_data of each DataSaver.  (A DataSaver's loss is the wrapped learner's loss: read once, there.)
        for path, a, b in walk(ad, l):
            if not path:
                continue
            pre = "inner" + path_name(path) + "."
            if a.spec["kind"] == "DS":
                s[pre + "extra_data"] = guarded(lambda: tuple(sorted(((a.child.key(x), canon(r)) for x, r in b.extra_data.items()), key=repr)), ident)
                continue
            s[pre + "data"] = guarded(lambda: tuple(sorted(a.data_items(b), key=repr)), ident)
            s[pre + "pending"] = guarded(lambda: tuple(sorted(a.pending(b), key=repr)), ident)
            s[pre + "npoints"] = guarded(lambda: int(b.npoints))
            s[pre + "loss_real"] = guarded(lambda: b.loss(real=True))
            s[pre + "loss_exp"] = guarded(lambda: b.loss(real=False))
            if a.spec["kind"] not in ("Bal", "DS"):
                s[pre + "extras"] = guarded(lambda: a.extras(b), ident)
    if fresh and base_kind(ad.spec) == "L2D":
        for b in _l2d_leaves(ad, l):
            b._ip_combined = None
        if ad.spec["kind"] == "Bal":
            s["fresh_exp"] = guarded(lambda: max(c.loss(real=False) for c in l.learners))
        else:
            s["fresh_exp"] = guarded(lambda: l.loss(real=False))
            s["fresh_real"] = s["loss_real"]
    return s


def diff_snap(a, b):
    return [k for k in a if a[k] != b[k]]


def short(v, n=160):
    s = repr(v)
    return s if len(s) <= n else s[:n] + "..."


# ---------------------------------------------------------------- deep fingerprint of the private state
_SKIP_ATTRS = ("function", "_original_function", "_cache", "_Learner1D__missing_bounds", "loss_per_interval",
               "loss_per_simplex", "arg_picker", "_ask_and_tell")


def deep_fp(v, depth=0, seen=None):
    """Canonical form of an object's whole private state (callables and the
    caches of read-only queries left out); used only to attribute a failure
    to a mechanism, never to decide one."""
    seen = seen if seen is not None else {}
    if depth > 14:
        return "..."
    if v is None or isinstance(v, (bool, str, int, float, np.integer, np.floating)):
        return canon(v)
    if isinstance(v, np.ndarray):
        return canon(v)
    if id(v) in seen:
        return ("ref", seen[id(v)])
    if isinstance(v, dict) or hasattr(v, "items") and hasattr(v, "keys"):
        seen[id(v)] = len(seen)
        try:
            items = list(v.items())
        except Exception:  # noqa: BLE001
            items = []
        return ("d",) + tuple(sorted(((deep_fp(k, depth + 1, seen), deep_fp(x, depth + 1, seen)) for k, x in items), key=repr))
    if isinstance(v, (set, frozenset)) or type(v).__name__ in ("SortedSet",):
        seen[id(v)] = len(seen)
        return ("s",) + tuple(sorted((deep_fp(x, depth + 1, seen) for x in v), key=repr))
    if isinstance(v, tuple):
        return ("t",) + tuple(deep_fp(x, depth + 1, seen) for x in v)
    if isinstance(v, list) or type(v).__name__ in ("SortedKeyList", "SortedList"):
        seen[id(v)] = len(seen)
        return ("t",) + tuple(deep_fp(x, depth + 1, seen) for x in v)
    if type(v).__name__ == "Random":
        return ("rnd", hash(v.getstate()))
    if type(v).__name__ == "cycle":
        return "<cycle>"
    if callable(v) and not hasattr(v, "__dict__") or type(v).__name__ in ("function", "partial", "method", "builtin_function_or_method"):
        return "<callable>"
    seen[id(v)] = len(seen)
    d = {}
    if hasattr(v, "__dict__"):
        d.update(v.__dict__)
    for s in getattr(type(v), "__slots__", ()) or ():
        if hasattr(v, s):
            d[s] = getattr(v, s)
    if not d:
        return ("r", type(v).__name__)
    return ("o", type(v).__name__) + tuple(sorted(((k, deep_fp(x, depth + 1, seen)) for k, x in d.items()
                                                   if k not in _SKIP_ATTRS), key=lambda kv: kv[0]))


def fp_attrs(l):
    """{attribute: fingerprint} of a learner's private state."""
    return {k: deep_fp(x) for k, x in l.__dict__.items() if k not in _SKIP_ATTRS}


# ---------------------------------------------------------------- operations
def apply_op(ad: Adapter, l, op):
    """Execute one concrete (JSON-able) op.  Returns the canonical outcome:
    for ask ('ask', points, improvements) else 'ok'; exceptions as values."""
    k = op[0]
    try:
        if k == "ask":
            pts, imps = l.ask(int(op[1]), tell_pending=bool(op[2]))
            return ("ask", [plain(p) for p in pts], [float(i) for i in imps])
        if k == "tell":
            l.tell(ad.point(op[1]), value_in(op[2]))
        elif k == "tell_many":
            l.tell_many([ad.point(p) for p in op[1]], [value_in(v) for v in op[2]])
        elif k == "tell_pending":
            l.tell_pending(ad.point(op[1]))
        elif k == "remove_unfinished":
            l.remove_unfinished()
        elif k == "set_strategy":
            l.strategy = str(op[1])         # BalancingLearner: documented as changeable while running
        else:
            raise ValueError(k)
        return "ok"
    except Exception as e:  # noqa: BLE001
        return exc_value(e)


def value_in(v):
    return v


def answer_key(out):
    """Canonical form of an ask outcome for comparison."""
    if is_exc(out):
        return out[:3]
    if isinstance(out, tuple) and out and out[0] == "ask":
        return ("ask", canon(out[1]), canon(out[2]))
    return out


def replay(ad: Adapter, ops):
    """A fresh learner brought to the state after `ops` (the twin)."""
    l = ad.make()
    for op in ops:
        apply_op(ad, l, op)
    return l


# ---------------------------------------------------------------- history generation
def gen_op(ad: Adapter, l, rng, handed, weights=None):
    """Next legal op, chosen while looking at the real learner.  `handed` is
    the list of points handed out by committing asks and not yet told."""
    w = weights or {}
    if ad.spec["kind"] == "Bal" and rng.random() < w.get("switch", 0.05):
        return ["set_strategy", rng.choice(STRATEGIES)]
    r = rng.random()
    pend_pts = list(handed)
    a = w.get("ask", 0.30)
    t = a + w.get("tell", 0.36)
    tm = t + w.get("tell_many", 0.07)
    tp = tm + w.get("tell_pending", 0.09)
    rt = tp + w.get("retell", 0.10)
    if r < a:
        n = rng.choice([0, 1, 1, 2, 2, 3, 4, 5, 7, 12])
        return ["ask", n, rng.random() < w.get("commit", 0.7)]
    if r < t:
        if pend_pts and (rng.random() < 0.75 or not ad.unsolicited):
            p = rng.choice(pend_pts)
        else:
            p = ad.rand_point(rng, l) if ad.unsolicited else None
        if p is None:
            return ["ask", rng.choice([1, 2, 3]), True]
        return ["tell", plain(p), plain(ad.first_value(rng, p, w.get("special", 0.15)))]
    if r < tm:
        pts = []
        for _ in range(rng.randint(2, 4)):
            p = rng.choice(pend_pts) if pend_pts and (rng.random() < 0.7 or not ad.unsolicited) else \
                (ad.rand_point(rng, l) if ad.unsolicited else None)
            if p is not None and all(ad.key(p) != ad.key(q) for q in pts):
                pts.append(p)
        vals = [ad.first_value(rng, p, w.get("special", 0.15)) for p in pts]
        if w.get("retell_in_batch", 0.25) > rng.random():
            known = known_points(ad, l)
            if known:
                p = pick_known(ad, l, rng, known)
                if all(ad.key(ad.point(plain(p))) != ad.key(ad.point(plain(q))) for q in pts):
                    pts.append(p)
                    vals.append(told_value(ad, l, p))
        if len(pts) >= 2 and ad.tell_many_ok(l, pts):
            return ["tell_many", [plain(p) for p in pts], [plain(v) for v in vals]]
        return ["ask", rng.choice([1, 2]), True]
    if r < tp:
        p = ad.rand_point(rng, l) if (ad.unsolicited and ad.has_tell_pending) else None
        if p is None:
            return ["ask", rng.choice([1, 2]), True]
        return ["tell_pending", plain(p)]
    if r < rt:
        known = known_points(ad, l)
        if not known:
            return ["ask", 1, True]
        p = pick_known(ad, l, rng, known)
        same = rng.random() < 0.5 or not ad.retell_alt
        return ["tell", plain(p), plain(told_value(ad, l, p) if same else ad.alt_value(p))]
    return ["remove_unfinished"]


def is_falsy(v):
    """Exact zero of any flavour, empty or None (what `if value:` would skip)."""
    if isinstance(v, dict):
        v = v.get("y")
    try:
        if v is None or isinstance(v, str):
            return not v
        a = np.asarray(v, dtype=float)
        return a.size == 0 or not np.any(a != 0)
    except Exception:  # noqa: BLE001
        return False


def pick_known(ad, l, rng, known):
    """A known point for a re-tell; half of the time one whose current value is an exact zero, when there is one."""
    if rng.random() < 0.5:
        z = [p for p in known if is_falsy(told_value(ad, l, p))]
        if z:
            return rng.choice(z)
    return rng.choice(known)


def hull_ops(ad, l, rng):
    """Opening for LearnerND-based learners: the user first tells ndim+1.. generic interior points the learner never
    suggested (a triangulation exists whose hull does not reach the corners), then asks and marks points OUTSIDE that
    hull, tells some of them, asks again."""
    first = ad.interior_point(rng, l)
    if first is None:
        return
    q, a = first, ad
    while a.spec["kind"] in ("Bal", "DS"):      # down to the innermost learner's point (wrappers may nest)
        q, a = (q[1] if a.spec["kind"] == "Bal" else q), a.child
    nd = len(q)
    out = yield ["tell", plain(first), plain(ad.first_value(rng, first, 0.2))]
    for _ in range(nd + rng.randint(1, 3) + (nd + 1 if ad.spec["kind"] == "Bal" else 0)):
        p = ad.interior_point(rng, l)
        if p is not None:
            out = yield ["tell", plain(p), plain(ad.first_value(rng, p, 0.2))]
    got = []
    for step in ("ask", "mark", "ask", "tell", "mark", "ask"):
        if step == "ask":
            out = yield ["ask", rng.choice([2, 4, 4, 6]), True]
            if is_exc(out):
                return
            got += list(out[1])
        elif step == "mark":
            p = ad.outer_point(rng, l)
            if p is not None and ad.has_tell_pending:
                out = yield ["tell_pending", plain(p)]
        else:
            for p in got[:2]:
                out = yield ["tell", p, plain(ad.value(ad.point(p)))]
            got = got[2:]


def switch_ops(ad, l, rng):
    """BalancingLearner only: work under one strategy (so that its caches are filled the way that strategy fills them,
    e.g. non-committing child asks under 'loss_improvements'), switch to another one, go on.  All 16 ordered pairs occur
    over the cases (the first strategy is the configuration's, or a switch right at the start)."""
    if ad.spec["kind"] != "Bal":
        return
    if rng.random() < 0.5:
        yield ["set_strategy", rng.choice(STRATEGIES)]
    got = []
    for phase in range(rng.choice([2, 2, 3])):
        for n_ask, n_tell in [(rng.choice([1, 2, 3]), rng.choice([1, 2])), (rng.choice([1, 2, 4]), rng.choice([0, 1, 3]))]:
            out = yield ["ask", n_ask, True]
            if is_exc(out):
                return
            got += list(out[1])
            for p in got[:n_tell]:
                yield ["tell", p, plain(ad.value(ad.point(p)))]
            got = got[n_tell:]
        yield ["set_strategy", rng.choice(STRATEGIES)]
    out = yield ["ask", rng.choice([2, 3, 5]), True]


def directed_ops(ad, l, rng):
    """A scripted opening that reaches the states random histories rarely reach: everything handed out is told, more
    points are requested and then discarded, and the learner is asked again."""
    first = 33 if base_kind(ad.spec) == "Int" else rng.choice([4, 8, 9])
    script = [("ask", first), ("tellall",), ("ask", rng.choice([3, 5])), ("discard",), ("ask", rng.choice([1, 2, 4])),
              ("tellall",)]
    got = []
    for s in script:
        if s[0] == "ask":
            op = ["ask", s[1], True]
            out = yield op
            if is_exc(out):
                return
            got = list(out[1])
        elif s[0] == "tellall":
            for p in got:
                yield ["tell", p, plain(ad.value(ad.point(p)))]
            got = []
        else:
            yield ["remove_unfinished"]


def known_points(ad: Adapter, l):
    """Points (in the adapter's op form) the learner already has a value for."""
    k = ad.spec["kind"]
    if k == "Bal":
        return [(i, q) for i, c in enumerate(l.learners) for q in known_points(ad.child, c)]
    if k == "DS":
        return known_points(ad.child, l.learner)
    if k == "Avg1D":
        return [(seed, x) for x, smp in l._data_samples.items() for seed in smp]
    if k == "Seq":
        seq = ad.seq()
        return [(i, seq[i]) for i in l.data]
    return list(l.data)


def told_value(ad: Adapter, l, p):
    """The value the learner currently holds for a known point (op form)."""
    k = ad.spec["kind"]
    if k == "Bal":
        return told_value(ad.child, l.learners[p[0]], p[1])
    if k == "DS":
        return l.extra_data.get(ad.child.point(p), {"y": told_value(ad.child, l.learner, p), "tag": "first"})
    if k == "Avg1D":
        return l._data_samples[p[1]][p[0]]
    if k == "Seq":
        return l.data[p[0]]
    return l.data[ad.point(p)]
