"""Driver of the real LearnerND and from-scratch oracle of property C04.

The driver resolves an abstract history (ask k / tell the j-th outstanding point /
tell an unsolicited point / tell_pending / remove_unfinished) against the live
learner, so the points are the learner's own suggestions, completed out of order
and partially.  The oracle is written from the property text and only looks at
public attributes plus the private tables the property names (`_losses`,
`_subtriangulations`, `_simplex_queue`).
"""
from __future__ import annotations

import itertools
import math
from fractions import Fraction as Fr

import numpy as np

from . import impl_tri as X

F5 = "F5 LearnerND.ask after remove_unfinished raises AssertionError (subdivided simplices not re-queued)"
F12 = "F12 LearnerND.ask raises ValueError: Point already in triangulation under out-of-order tells"


# ---------------------------------------------------------------------------
# configurations
def funcs(kind, dim, vdim):
    def base(x):
        r2 = sum(t * t for t in x)
        return math.exp(-3.0 * r2) + float(x[0])

    def steep(x):          # range grows by far more than 1.1 between evaluations
        return 1000.0 * math.tanh(40.0 * (float(x[0]) - 0.3)) + float(x[-1])

    def const(x):          # zero output scale
        return 1.0

    def ramp(x):           # the first two corners (sorted order) span the whole output range: later corners do not
        return float(x[-1])  # grow it, so no tell recomputes all losses (and none builds the triangulation itself)

    def slow(x):           # slowly varying around a large offset: whether a tell grows the range by 10 % depends on the order
        return 5.0 + 0.001 * float(x[0]) + 0.01 * float(x[-1])

    f = {"smooth": base, "steep": steep, "const": const, "ramp": ramp, "slow": slow}[kind]
    if vdim == 1:
        return f
    return lambda x: [f(x) * (k + 1) + k * float(x[-1]) for k in range(vdim)]


HULLS = {
    (2, "triangle"): [(0.0, 0.0), (1.0, 0.0), (0.0, 1.0)],
    (2, "pentagon"): [(0.0, 0.0), (2.0, 0.0), (3.0, 1.0), (1.0, 2.0), (-1.0, 1.0)],
    (2, "wide"): [(0.0, 0.0), (8.0, 0.0), (8.0, 1.0), (0.0, 1.0), (4.0, 1.5)],
    (3, "tetra"): [(0.0, 0.0, 0.0), (1.0, 0.0, 0.0), (0.0, 1.0, 0.0), (0.0, 0.0, 1.0)],
    (3, "octa"): [(1.0, 0.0, 0.0), (-1.0, 0.0, 0.0), (0.0, 1.0, 0.0), (0.0, -1.0, 0.0), (0.0, 0.0, 1.0), (0.0, 0.0, -1.0)],
    # hulls computed, as is usual, from a CLOUD: some points are no vertices of the hull (strictly
    # interior, on an edge, on a face); the corners of the domain are the hull's vertices only
    (2, "cloud_tri"): [(0.0, 0.0), (2.0, 0.0), (0.0, 2.0), (0.5, 0.5), (1.0, 0.0), (1.0, 1.0), (0.25, 1.0)],
    (2, "cloud_penta"): [(0.0, 0.0), (2.0, 0.0), (3.0, 1.0), (1.0, 2.0), (-1.0, 1.0), (1.0, 1.0), (0.5, 0.25),
                         (2.0, 1.0), (1.0, 0.0)],
    (2, "cloud_quad"): [(0.0, 0.0), (4.0, 0.0), (4.0, 1.0), (0.0, 1.0), (1.0, 0.5), (3.0, 0.25), (2.0, 1.0)],
    (3, "cloud_tetra"): [(0.0, 0.0, 0.0), (2.0, 0.0, 0.0), (0.0, 2.0, 0.0), (0.0, 0.0, 2.0), (0.5, 0.5, 0.5),
                         (1.0, 0.0, 0.0), (0.5, 0.5, 0.0), (0.25, 0.25, 1.0)],
    (3, "cloud_octa"): [(1.0, 0.0, 0.0), (-1.0, 0.0, 0.0), (0.0, 1.0, 0.0), (0.0, -1.0, 0.0), (0.0, 0.0, 1.0),
                        (0.0, 0.0, -1.0), (0.0, 0.0, 0.0), (0.25, 0.25, 0.25), (0.5, 0.5, 0.0), (-0.25, 0.5, 0.25)],
}

_CORNERS = {}


def hull_corners(cloud):
    """the vertices of conv(cloud), from scratch and exact: a point is NO vertex iff it lies in a closed
    non-degenerate simplex spanned by d+1 other points of the cloud (Caratheodory; a point on an edge or a
    face lies on the boundary of such a simplex because the rest of the cloud is full-dimensional)"""
    key = tuple(map(tuple, cloud))
    if key not in _CORNERS:
        P = [X.fr_point(p) for p in cloud]
        d = len(P[0])
        out = []
        for i, p in enumerate(P):
            others = [q for j, q in enumerate(P) if j != i]
            inside = False
            for comb in itertools.combinations(others, d + 1):
                a = X.barycentric(p, list(comb))
                if a is not None and all(x >= 0 for x in a) and sum(a) <= 1:
                    inside = True
                    break
            if not inside:
                out.append(tuple(float(x) for x in cloud[i]))
        _CORNERS[key] = sorted(out)
    return _CORNERS[key]


RECTS = {
    2: [[(-1, 1), (-1, 1)], [(0, 1), (0, 1)], [(0, 4), (-1, 1)], [(-2.0, 0.5), (10, 12)]],
    3: [[(-1, 1), (-1, 1), (-1, 1)], [(0, 1), (0, 2), (0, 1)]],
}


def make_learner(cfg):
    import scipy.spatial
    from adaptive import LearnerND
    from adaptive.learner.learnerND import default_loss, uniform_loss
    f = funcs(cfg["func"], cfg["dim"], cfg["vdim"])
    if cfg["domain"] == "rect":
        bounds = [tuple(b) for b in cfg["bounds"]]
    else:
        bounds = scipy.spatial.ConvexHull(np.array(HULLS[(cfg["dim"], cfg["bounds"])], dtype=float))
    loss = {"default": default_loss, "uniform": uniform_loss}[cfg["loss"]]
    return LearnerND(f, bounds, loss_per_simplex=loss), f, loss


def gen_config(rng):
    dim = rng.choice([2, 2, 2, 3])
    domain = rng.choice(["rect", "rect", "hull"])
    bounds = rng.randrange(len(RECTS[dim])) if domain == "rect" else \
        rng.choice([k[1] for k in HULLS if k[0] == dim])
    return {"dim": dim, "domain": domain, "bounds": RECTS[dim][bounds] if domain == "rect" else bounds,
            "func": rng.choice(["smooth", "smooth", "steep", "const", "ramp", "slow"]), "vdim": rng.choice([1, 1, 2]),
            "loss": rng.choice(["default", "default", "uniform"])}


def gen_history(rng, maxlen, dim):
    """abstract history"""
    h = [("ask", rng.choice([1, 2, 2 ** dim, 2 ** dim + 1, 3]))]
    for _ in range(rng.randint(3, maxlen)):
        r = rng.random()
        if r < 0.38:
            h.append(("ask", rng.choice([1, 1, 2, 3])))
        elif r < 0.84:
            h.append(("tell", rng.random()))            # which outstanding point: fraction of the list
        elif r < 0.88:
            h.append(("tell_new", [rng.random() for _ in range(dim)]))
        elif r < 0.91:
            h.append(("tell_pending_new", [rng.random() for _ in range(dim)]))
        elif r < 0.95:
            h.append(("remove_unfinished",))
            if rng.random() < 0.5:
                h.append(("ask", 1))
        else:
            # everything outstanding is told: the next ask must refine the worst simplex
            h.append(("tell_all",))
            h.append(("ask", rng.choice([1, 1, 2])))
    return h


# ---------------------------------------------------------------------------
def tup(p):
    return tuple(float(x) for x in p)


def simp(s):
    return tuple(int(i) for i in s)


class Oracle:
    """Property C04 from its text."""

    def __init__(self, learner, cfg, lossfn):
        self.l, self.cfg, self.lossfn = learner, cfg, lossfn
        self.dim = cfg["dim"]
        self.errors = []              # (clause, message, step)
        self.f5_trigger = None        # step at which remove_unfinished dropped sub-triangulations
        self.f12_trigger = None       # step at which a pending point on a shared face was not registered
        self.multipliers = [1]
        self.last_loss = None         # loss() as read first thing after the latest operation
        self.born = {}                # simplex -> index into multipliers at creation
        self.extent = [float(b[1] - b[0]) for b in learner._bbox]
        # the corners of the domain, independently of the learner: the box corners / the hull's vertices
        if cfg["domain"] == "rect":
            self.corners = sorted(tuple(float(x) for x in c) for c in itertools.product(*[tuple(b) for b in cfg["bounds"]]))
        else:
            self.corners = hull_corners(HULLS[(cfg["dim"], cfg["bounds"])])
        if cfg["domain"] == "hull":
            import scipy.spatial
            self.hull_eq = scipy.spatial.ConvexHull(np.array(HULLS[(cfg["dim"], cfg["bounds"])], dtype=float)).equations
        self.stats = {"worst_checked": 0, "subtri_checked": 0, "losses_checked": 0, "asks": 0, "tri_first_built_by_loss": 0}

    # -- helpers -----------------------------------------------------------
    def err(self, clause, msg, step):
        self.errors.append((clause, msg, step))

    def in_domain(self, p):
        if self.cfg["domain"] == "rect":
            return all(mn - 1e-8 <= x <= mx + 1e-8 for x, (mn, mx) in zip(p, self.l._bbox))
        return bool(np.all(self.hull_eq[:, :-1] @ np.array(p, dtype=float) + self.hull_eq[:, -1] <= 1e-8))

    def contains(self, simplex_pts, p, tol=Fr(1, 10 ** 9)):
        pts = [X.fr_point(q) for q in simplex_pts]
        a = X.barycentric(X.fr_point(p), pts)
        return a is not None and all(x >= -tol for x in a) and sum(a) <= 1 + tol

    # -- state -------------------------------------------------------------
    def enough_points(self):
        """exact: do the evaluated in-domain points contain dim+1 affinely independent ones (with a clear margin)?"""
        P = [X.fr_point(p) for p in self.l.data if self.in_domain(p)]
        d = self.dim
        if len(P) <= d:
            return False
        unit = Fr(1)
        for e in self.extent:
            unit *= Fr(e)
        for comb in itertools.islice(itertools.combinations(P, d + 1), 3000):
            if abs(X.volume(list(comb))) > unit / 10 ** 6:
                return True
        return False

    def check_state(self, step):
        l = self.l
        # FIRST thing after every operation, before anything else is read from the learner: the reported loss, as a
        # runner's goal reads it.  (LearnerND.tri is built lazily; reading it here first would hide a loss() that
        # does not see the points told so far.)
        lazy = l._tri is None      # a plain attribute: reading it builds nothing
        got = l.loss()
        self.last_loss = got
        if lazy and l._tri is not None:
            self.stats["tri_first_built_by_loss"] += 1     # the operation made a triangulation possible but did not build it
        m = l._output_multiplier
        if m != self.multipliers[-1]:
            self.multipliers.append(m)
        tri = l.tri
        if tri is None:
            if got != float("inf"):
                self.err("loss_is_max", f"loss() = {got} without a triangulation", step)
            if self.enough_points():
                self.err("tri_when_enough_points", f"{len(l.data)} points are evaluated, {self.dim + 1} of them affinely independent "
                                                   f"and inside the domain, but the learner has no triangulation", step)
            return
        verts = [tup(v) for v in tri.vertices]
        known = [tup(p) for p in l.data if self.in_domain(p)]
        if sorted(verts) != sorted(known):
            extra = sorted(set(verts) - set(known))[:2]
            miss = sorted(set(known) - set(verts))[:2]
            self.err("vertices_are_data", f"triangulation vertices differ from the evaluated in-domain points "
                                          f"(only in tri: {extra}, only in data: {miss})", step)
        S = {simp(s) for s in tri.simplices}
        K = {simp(s) for s in l._losses}
        if S != K:
            self.err("one_loss_per_simplex", f"_losses keys differ from tri.simplices (only losses: {sorted(K - S)[:2]}, "
                                             f"only simplices: {sorted(S - K)[:2]})", step)
        for s in S:
            self.born.setdefault(s, len(self.multipliers) - 1)
        for s in list(self.born):
            if s not in S:
                del self.born[s]
        # each stored loss is the loss function on the simplex's data, at an output scale the learner had
        T = l._transform
        lossd = {simp(k): v for k, v in l._losses.items()}
        for s in S & K:
            vs = np.array([tri.vertices[i] for i in s], dtype=float) @ T
            vals = np.array([l.data[tuple(tri.vertices[i])] for i in s], dtype=float)
            ok = False
            for mm in self.multipliers[self.born[s]:][::-1]:
                ref = float(self.lossfn(vs, mm * vals, mm))
                if ref == lossd[s] or abs(ref - lossd[s]) <= 1e-12 * max(abs(ref), 1e-300):
                    ok = True
                    break
            self.stats["losses_checked"] += 1
            if not ok:
                self.err("loss_from_data", f"_losses[{s}] = {lossd[s]!r} is not loss_per_simplex of the simplex's data "
                                           f"(current scale gives {float(self.lossfn(vs, m * vals, m))!r})", step)
        expect = max(lossd.values()) if lossd else float("inf")
        if got != expect:
            self.err("loss_is_max", f"loss() = {got!r} read right after the operation, but enough points are known: the triangulation "
                                    f"of the data has {len(S)} simplices and the largest simplex loss is {expect!r}", step)
        again = l.loss()
        if again != expect:
            self.err("loss_is_max", f"loss() = {again!r}, largest simplex loss = {expect!r}", step)
        self.check_subtris(step, tri, lossd)

    def check_subtris(self, step, tri, lossd):
        l = self.l
        d = self.dim
        queue = {}
        for loss, s, sub in l._simplex_queue:
            if sub is not None:
                queue.setdefault((simp(s), simp(sub)), []).append(loss)
        for s, st in l._subtriangulations.items():
            s = simp(s)
            self.stats["subtri_checked"] += 1
            if s not in lossd:
                self.err("subtri_of_live_simplex", f"sub-triangulation kept for {s} which is no simplex", step)
                continue
            par = [tup(tri.vertices[i]) for i in s]
            if [tup(v) for v in st.vertices[:d + 1]] != par:
                self.err("subtri_vertices", f"sub-triangulation of {s} does not start with the simplex's vertices", step)
            for v in st.vertices[d + 1:]:
                if tup(v) not in {tup(p) for p in l.pending_points} and tup(v) not in {tup(p) for p in l.data}:
                    self.err("subtri_vertices", f"sub-triangulation of {s} has vertex {tup(v)} which is neither pending nor evaluated", step)
            P = [X.fr_point(v) for v in st.vertices]
            vol_s = X.volume(P[:d + 1])
            vols = {simp(u): X.volume([P[i] for i in u]) for u in st.simplices}
            tot = sum(vols.values())
            for e in X.structure_errors(st):
                self.err("subtri_" + e[0], f"sub-triangulation of {s}: {e[1]}", step)
            if abs(tot - vol_s) > vol_s * Fr(1, 10 ** 7):
                self.err("subtri_tiles_simplex", f"sub-simplices of {s} have total volume {float(tot)!r}, the simplex {float(vol_s)!r}", step)
            for u, vu in vols.items():
                want = float(vu / vol_s) * lossd[s]
                have = queue.get((s, u), [])
                if not any(abs(h - want) <= 1e-9 * max(abs(want), 1e-300) for h in have):
                    self.err("subloss_by_volume", f"sub-simplex {u} of {s}: queued losses {have[:3]} but volume share x loss = {want!r}", step)
        # every pending point inside a simplex must subdivide it (this is what goes wrong in F12)
        if self.f12_trigger is None:
            subs = {simp(s): {tup(v) for v in st.vertices} for s, st in l._subtriangulations.items()}
            for p in l.pending_points:
                p = tup(p)
                for s in tri.simplices:
                    pts = [tri.vertices[i] for i in s]
                    if self.strictly_inside_or_on(pts, p):
                        if p not in subs.get(simp(s), ()):
                            self.f12_trigger = (step, p, simp(s))

    def strictly_inside_or_on(self, pts, p):
        """p is in the closed simplex with a robust margin (barycentric >= -1e-12) and not a vertex"""
        a = X.barycentric(X.fr_point(p), [X.fr_point(q) for q in pts])
        if a is None:
            return False
        a = [1 - sum(a)] + list(a)
        return all(x >= 0 for x in a) and max(a) < 1

    # -- ask ---------------------------------------------------------------
    def before_ask(self):
        l = self.l
        self.pre = {"data": {tup(p) for p in l.data}, "pending": {tup(p) for p in l.pending_points},
                    "tri": l.tri, "losses": {simp(k): v for k, v in l._losses.items()},
                    "subtris": {simp(s) for s in l._subtriangulations}}

    def after_ask(self, n, ret, exc, step):
        self.stats["asks"] += 1
        pre = self.pre
        if exc is not None:
            name, msg = exc
            if name == "AssertionError" and "Could not find a simplex" in msg and self.f5_trigger is not None:
                self.err(F5, f"ask({n}) raised AssertionError: Could not find a simplex to subdivide "
                             f"(remove_unfinished at step {self.f5_trigger} dropped sub-triangulations)", step)
            elif name == "ValueError" and "Point already in triangulation" in msg:
                self.err(F12, f"ask({n}) raised ValueError: Point already in triangulation"
                              + (f" (pending point {self.f12_trigger[1]} lies in simplex {self.f12_trigger[2]} but does not "
                                 f"subdivide it since step {self.f12_trigger[0]})" if self.f12_trigger else ""), step)
            else:
                self.err("ask_raises", f"ask({n}) raised {name}: {msg}", step)
            return
        pts, imps = ret
        pts = [tup(p) for p in pts]
        if len(pts) != n or len(imps) != n:
            self.err("ask_count", f"ask({n}) returned {len(pts)} points", step)
        if len(set(pts)) != len(pts):
            self.err("ask_distinct", f"ask({n}) returned a point twice: {pts}", step)
        for p in pts:
            if not self.in_domain(p):
                self.err("ask_in_domain", f"ask returned {p} outside the domain", step)
            if p in pre["data"]:
                self.err("ask_not_known", f"ask returned the evaluated point {p}", step)
            if p in pre["pending"]:
                self.err(F12 if self.f12_trigger else "ask_not_pending", f"ask returned the already pending point {p}", step)
        free = [c for c in self.corners if c not in pre["data"] and c not in pre["pending"]]
        k = min(n, len(free))
        if pts[:k] != free[:k]:
            self.err("corners_first", f"ask({n}) returned {pts[:k]}, the unevaluated non-pending corners are {free[:k]}", step)
        if any(imp != float("inf") for imp in imps[:k]):
            self.err("corners_first", "a corner is returned with a finite improvement", step)
        tri = pre["tri"]
        if k == 0 and n >= 1 and not pre["pending"] and tri is not None and pre["losses"] and not pre["subtris"]:
            self.worst_simplex(pts[0], imps[0], tri, pre["losses"], step)

    def worst_simplex(self, p, imp, tri, lossd, step):
        self.stats["worst_checked"] += 1
        top = max(round(v, 8) for v in lossd.values())
        worst = [s for s, v in lossd.items() if round(v, 8) == top]
        hits = []
        for s in worst:
            pts = [tup(tri.vertices[i]) for i in s]
            cands = [tuple(sum(q[i] for q in pts) / len(pts) for i in range(self.dim))]
            el = {(a, b): math.sqrt(sum(((pts[a][i] - pts[b][i]) / self.extent[i]) ** 2 for i in range(self.dim)))
                  for a, b in itertools.combinations(range(len(pts)), 2)}
            mx = max(el.values())
            for (a, b), v in el.items():
                if v >= mx * (1 - 1e-12):
                    cands.append(tuple((pts[a][i] + pts[b][i]) / 2 for i in range(self.dim)))
            if any(all(abs(c[i] - p[i]) <= 1e-9 * self.extent[i] for i in range(self.dim)) for c in cands):
                hits.append(s)     # ties in the rounded loss: a shared longest edge has the same midpoint
        sig = F5 if self.f5_trigger is not None else "next_point_in_worst_simplex"
        if not hits:
            where = [s for s in lossd if self.contains([tri.vertices[i] for i in s], p)]
            self.err(sig, f"with nothing pending ask returned {p} which is neither the centroid nor a longest-edge midpoint of a "
                          f"simplex with the largest loss {top!r} (simplices {worst[:3]}); it lies in {where[:2]} with losses "
                          f"{[lossd[s] for s in where[:2]]}", step)
        elif all(imp != lossd[h] for h in hits):
            self.err(sig, f"improvement {imp!r} returned for a point of simplex {hits[0]} whose loss is {lossd[hits[0]]!r}", step)

    def after_remove_unfinished(self, step, had_subtris):
        if had_subtris and self.f5_trigger is None:
            self.f5_trigger = step


# ---------------------------------------------------------------------------
def drive(cfg, hist=None, rng=None, concrete=None, hooks=None):
    """Run the real learner.  Returns dict(ops=[concrete ops], oracle, learner, ...).
    concrete ops: ["ask", n] | ["tell", point] | ["tell_pending", point] | ["remove_unfinished"]"""
    l, f, lossfn = make_learner(cfg)
    orc = Oracle(l, cfg, lossfn)
    if hooks:
        hooks.corners = orc.corners
    out = []            # pending in hand-out order
    ops = []
    stop = False

    def lo(i):
        return l._bbox[i][0]

    def pt_from_unit(u):
        if cfg["domain"] == "rect":
            return tuple(lo(i) + u[i] * (l._bbox[i][1] - lo(i)) for i in range(cfg["dim"]))
        V = HULLS[(cfg["dim"], cfg["bounds"])]
        w = [u[i % len(u)] + 0.05 for i in range(len(V))]
        tot = sum(w)
        return tuple(sum(wi * v[i] for wi, v in zip(w, V)) / tot for i in range(cfg["dim"]))

    def do(op):
        nonlocal stop
        step = len(ops)
        ops.append(op)
        if hooks:
            hooks.begin(l, op)
        exc = None
        ret = None
        if op[0] == "ask":
            orc.before_ask()
            try:
                ret = l.ask(op[1])
                out.extend(tup(p) for p in ret[0])
            except Exception as e:  # noqa: BLE001
                exc = (type(e).__name__, str(e)[:120])
                stop = True
            if hooks:
                hooks.end(l, op, ret, exc)
            orc.after_ask(op[1], ret, exc, step)
        elif op[0] == "tell":
            p = tuple(op[1])
            if tup(p) in out:
                out.remove(tup(p))
            try:
                l.tell(p, f(p))
            except Exception as e:  # noqa: BLE001
                exc = (type(e).__name__, str(e)[:120])
                stop = True
                orc.err("tell_raises", f"tell({p}) raised {exc[0]}: {exc[1]}", step)
            if hooks:
                hooks.end(l, op, None, exc)
        elif op[0] == "tell_pending":
            try:
                l.tell_pending(tuple(op[1]))
                out.append(tup(op[1]))
            except Exception as e:  # noqa: BLE001
                exc = (type(e).__name__, str(e)[:120])
                stop = True
                orc.err(F12 if "already in triangulation" in exc[1] and orc.f12_trigger else "tell_pending_raises",
                        f"tell_pending({tuple(op[1])}) raised {exc[0]}: {exc[1]}", step)
            if hooks:
                hooks.end(l, op, None, exc)
        else:
            had = bool(l._subtriangulations)
            l.remove_unfinished()
            out.clear()
            if hooks:
                hooks.end(l, op, None, None)
            orc.after_remove_unfinished(step, had)
        if not stop:
            if hooks:
                hooks.begin(l, ("touch",))
            try:
                orc.check_state(step)
            except Exception as e:  # noqa: BLE001
                orc.err("state_raises", f"reading the state raised {type(e).__name__}: {str(e)[:100]}", step)
                stop = True
            if hooks:
                hooks.end(l, ("touch",), None, None if not stop else ("Exception", ""))
                if not stop:
                    hooks.observe(l, orc.last_loss)

    if concrete is not None:
        for op in concrete:
            if stop:
                break
            do(tuple(op) if op[0] != "tell" and op[0] != "tell_pending" else (op[0], tuple(op[1])))
    else:
        for a in hist:
            if stop:
                break
            if a[0] == "ask":
                do(("ask", a[1]))
            elif a[0] == "tell":
                if out:
                    do(("tell", out[int(a[1] * len(out)) % len(out)]))
            elif a[0] == "tell_all":
                for p in list(out):
                    if not stop:
                        do(("tell", p))
            elif a[0] == "tell_new":
                p = pt_from_unit(a[1])
                if tup(p) not in {tup(q) for q in l.data}:
                    do(("tell", p))
            elif a[0] == "tell_pending_new":
                p = pt_from_unit(a[1])
                if tup(p) not in {tup(q) for q in l.data} and tup(p) not in {tup(q) for q in l.pending_points}:
                    do(("tell_pending", p))
            else:
                do(("remove_unfinished",))
    return {"cfg": cfg, "ops": [[o[0]] + [list(x) if isinstance(x, tuple) else x for x in o[1:]] for o in ops],
            "oracle": orc, "learner": l}


# ---------------------------------------------------------------------------
# recording for the Coq model (Model/LND.v): every oracle answer of one operation
class LNDHooks:
    """begin/end bracket one operation on the real learner; `steps` collects
    (op, env record, expected output, observation) for the cases file."""

    def __init__(self):
        self.pid = {}
        self.corners = []
        self.steps = []
        self.rnd = {}
        self.cur = None
        self._active = False

    # -- ids ---------------------------------------------------------------
    def id_of(self, p):
        p = tup(p)
        if p not in self.pid:
            self.pid[p] = len(self.pid)
        return self.pid[p]

    def __enter__(self):
        import sortedcontainers
        import adaptive.learner.learnerND as LN
        self.LN = LN
        C = LN.LearnerND
        self.rec = X.Recorder().__enter__()
        self.saved = {n: C.__dict__[n] for n in ("tri", "_try_adding_pending_point_to_simplex", "_update_subsimplex_losses",
                                                   "_compute_loss", "_recompute_all_losses",
                                                   "_ask_point_without_known_simplices")}
        self.saved_choose = LN.choose_point_in_simplex
        self.saved_add = sortedcontainers.SortedKeyList.add
        self.SKL = sortedcontainers.SortedKeyList
        H = self
        sv = self.saved

        def tri_get(l):
            was_none = l._tri is None
            t = sv["tri"].fget(l)
            if was_none and H.cur is not None:
                H.cur["tris"].append(None if t is None else sorted(simp(x) for x in t.simplices))
            return t

        def try_adding(l, point, simplex):
            n0 = len(H.rec.adds)
            exc = None
            r = None
            try:
                r = sv["_try_adding_pending_point_to_simplex"](l, point, simplex)
            except Exception as e:  # noqa: BLE001
                exc = e
            if H.cur is not None:
                key = (H.id_of(point), simp(simplex))
                H.cur["pis"][key] = not (exc is None and r[1] is None and len(H.rec.adds) == n0)
                if H.id_of(point) not in H.cur["order"]:
                    H.cur["order"].append(H.id_of(point))
                if len(H.rec.adds) > n0:
                    H.cur["sub"][key] = H.rec.adds[n0]
            if exc is not None:
                raise exc
            return r

        def upd_sub(l, simplex, new_subsimplices):
            if H.cur is not None:
                H.cur["vol"][simp(simplex)] = float(l.tri.volume(simplex))
                st = l._subtriangulations[simplex]
                for u in new_subsimplices:
                    H.cur["svol"][(simp(simplex), simp(u))] = float(st.volume(u))
            return sv["_update_subsimplex_losses"](l, simplex, new_subsimplices)

        def compute_loss(l, simplex):
            v = sv["_compute_loss"](l, simplex)
            if H.cur is not None:
                H.cur["loss"][simp(simplex)] = float(v)
            return v

        def recompute(l):
            if H.cur is not None:
                H.cur["rescale"] = True
            return sv["_recompute_all_losses"](l)

        def random_point(l):
            r = sv["_ask_point_without_known_simplices"](l)
            if H.cur is not None:
                H.cur["choose"].append(H.id_of(r[0]))
            return r

        def choose(simplex, transform=None):
            p = H.saved_choose(simplex, transform)
            if H.cur is not None:
                H.cur["choose"].append(H.id_of(tuple(p)))
            return p

        def skl_add(q, value):
            if isinstance(value, tuple) and len(value) == 3 and isinstance(value[0], float):
                H.rnd[float(value[0])] = int(round(round(value[0], 8) * 1e8))
            return H.saved_add(q, value)

        C.tri = property(tri_get)
        C._try_adding_pending_point_to_simplex = try_adding
        C._update_subsimplex_losses = upd_sub
        C._compute_loss = compute_loss
        C._recompute_all_losses = recompute
        C._ask_point_without_known_simplices = random_point
        LN.choose_point_in_simplex = choose
        self.SKL.add = skl_add
        return self

    def __exit__(self, *a):
        C = self.LN.LearnerND
        for n, f in self.saved.items():
            setattr(C, n, f)
        self.LN.choose_point_in_simplex = self.saved_choose
        self.SKL.add = self.saved_add
        self.rec.__exit__(*a)
        return False

    # -- one operation -------------------------------------------------------
    def begin(self, l, op):
        if not self.pid:
            for c in self.corners:
                self.id_of(c)
        self.cur = {"tris": [], "pis": {}, "sub": {}, "vol": {}, "svol": {}, "loss": {}, "rescale": False,
                    "choose": [], "order": [], "op": op, "n_adds": len(self.rec.adds), "n_locs": len(self.rec.locs),
                    "pend_before": {tup(p) for p in l.pending_points}}

    def end(self, l, op, ret, exc):
        c = self.cur
        self.cur = None
        adds = self.rec.adds[c["n_adds"]:]
        main = [a for a in adds if a.tri is l._tri]
        c["main"] = main[0] if (main and op[0] == "tell") else None
        c["locate"] = {self.id_of(p): simp(r) for t, p, r in self.rec.locs[c["n_locs"]:] if t is l._tri}
        pts = set()
        if op[0] in ("tell", "tell_pending"):
            pts.add(self.id_of(op[1]))
        pts.update(c["choose"])
        pts.update(k[0] for k in c["pis"])
        inv = {v: k for k, v in self.pid.items()}
        c["inb"] = {}
        for i in sorted(pts | set(range(len(self.corners)))):
            try:
                c["inb"][i] = bool(l.inside_bounds(inv[i]))
            except Exception:  # noqa: BLE001
                c["inb"][i] = False
        if exc is not None:
            name, msg = exc
            out = ("err", "EAlready" if "already in triangulation" in msg else
                   "ENoSimplex" if name == "AssertionError" and "Could not find a simplex" in msg else "EOther")
        elif op[0] == "ask":
            out = ("ret", [(self.id_of(p), float(v)) for p, v in zip(ret[0], ret[1])])
        else:
            out = ("ret", [])
        self.steps.append({"op": op, "env": c, "out": out, "obs": None})

    def observe(self, l, first_loss=None):
        """`first_loss`: what loss() returned when it was the first thing read after the operation"""
        t = l._tri
        obs = {"data": [self.id_of(p) for p in l.data],
               "pend": sorted(self.id_of(p) for p in l.pending_points),
               "tri": None if t is None else ([self.id_of(v) for v in t.vertices], sorted(simp(s) for s in t.simplices)),
               "losses": sorted((simp(k), float(v)) for k, v in l._losses.items()),
               "subs": sorted((simp(k), ([self.id_of(v) for v in st.vertices], sorted(simp(u) for u in st.simplices)))
                              for k, st in l._subtriangulations.items()),
               "queue": [(float(a), simp(b), None if c_ is None else simp(c_)) for a, b, c_ in l._simplex_queue],
               "loss": float(l.loss() if first_loss is None else first_loss)}
        self.steps[-1]["obs"] = obs
