"""Controlled-scheduler driver for the REAL adaptive.runner.BlockingRunner and
AsyncRunner (properties C05, C06, C19).  No threads, no timing.

* BlockingRunner: a `FakeExecutor` whose futures stay pending, and a harness
  replacement of the name `concurrent` seen by adaptive.runner (a proxy of
  concurrent.futures whose `wait` completes the futures the schedule names,
  playing the worker's set_running_or_notify_cancel, and returns them).  The
  runner runs inside its constructor, so the fake `wait` drives everything.
* AsyncRunner: (a) `async_coro`: a coroutine function gated on asyncio futures
  the harness completes; (b) `async_exec`: the same FakeExecutor through
  run_in_executor.  The name `asyncio` seen by adaptive.runner is a proxy whose
  `wait` schedules the harness action with loop.call_soon -- so it runs when the
  runner task is suspended inside the real asyncio.wait -- and then awaits the
  real asyncio.wait.
* Every nondeterministic choice (which futures complete, in which order they
  are processed, whether a future was already running when cancel() reaches
  it, cancellation of the runner -- inside a wait, or, for BlockingRunner, an
  interrupt raised inside the k-th executor.submit call before the job is
  accepted, or an interrupt delivered when the k-th learner.tell of the main
  loop returns, i.e. inside _process_futures between two iterations) is taken
  from a `Sched`, random or enumerated exhaustively.
* Whether a wait belongs to the main loop or to the finally block is decided
  by context (learner.remove_unfinished() was called), not by its arguments;
  the fake waits honour return_when the way a real pool would.

A run yields a `Rec`: the configuration, the list of steps
(event, observable actions during the step, snapshot of the runner's
bookkeeping after it) and the raw trace for the oracles.
"""
from __future__ import annotations

import asyncio as real_asyncio
import concurrent.futures as real_cf
import inspect
import itertools
import types

import adaptive.runner as R


# --------------------------------------------------------------------------
# schedules
class Sched:
    def choose(self, k: int, label: str = "") -> int:
        raise NotImplementedError


class RandomSched(Sched):
    def __init__(self, rng, p_multi=0.45, p_cancel=0.04, p_running=0.4):
        self.rng, self.p_multi, self.p_cancel, self.p_running = rng, p_multi, p_cancel, p_running
        self.taken = []

    def choose(self, k, label=""):
        c = self.rng.randrange(k)
        self.taken.append((c, k))
        return c

    # structured choices: random schedules do not go through option lists
    def main_wait(self, fids, allow_cancel):
        r = self.rng
        if allow_cancel and r.random() < self.p_cancel:
            pre = []
            if r.random() < 0.3:
                pre = r.sample(fids, r.randint(1, len(fids)))
            return ("cancel", pre)
        n = 1
        while n < len(fids) and r.random() < self.p_multi:
            n += 1
        return ("done", r.sample(fids, n))

    def was_running(self, fid):
        return self.rng.random() < self.p_running

    def submit_interrupt(self, k):
        return self.rng.random() < self.p_cancel / 2

    def tell_interrupt(self, k):
        return self.rng.random() < self.p_cancel


class ListSched(Sched):
    """Replays a recorded list of structured choices (for --replay and corpus)."""

    def __init__(self, choices):
        self.choices = list(choices)
        self.i = 0

    def _next(self, kind):
        if self.i < len(self.choices) and self.choices[self.i][0] == kind:
            c = self.choices[self.i]
            self.i += 1
            return c
        return None

    def main_wait(self, fids, allow_cancel):
        c = self._next("w")
        if c is None:
            return ("done", [fids[0]])
        if c[1] == "cancel":
            return ("cancel", [f for f in c[2] if f in fids])
        sel = [f for f in c[2] if f in fids]
        return ("done", sel or [fids[0]])

    def was_running(self, fid):
        c = self._next("r")
        return bool(c[1]) if c else False

    def submit_interrupt(self, k):
        if self.i < len(self.choices) and self.choices[self.i][0] == "s" and self.choices[self.i][2] == k:
            self.i += 1
            return True
        return False

    def tell_interrupt(self, k):
        if self.i < len(self.choices) and self.choices[self.i][0] == "t" and self.choices[self.i][2] == k:
            self.i += 1
            return True
        return False


class EnumSched(Sched):
    """Odometer enumeration: follows `prefix`, then always takes option 0."""

    def __init__(self, prefix, orders="all", cancel=True):
        self.prefix, self.taken, self.orders, self.cancel = list(prefix), [], orders, cancel

    def choose(self, k, label=""):
        i = len(self.taken)
        c = self.prefix[i] if i < len(self.prefix) else 0
        assert c < k
        self.taken.append((c, k))
        return c

    def main_wait(self, fids, allow_cancel):
        opts = []
        for n in range(1, len(fids) + 1):
            if self.orders == "all":
                opts += [list(p) for p in itertools.permutations(fids, n)]
            else:
                opts += [list(reversed(p)) for p in itertools.combinations(fids, n)]
        ncan = 1 if (allow_cancel and self.cancel) else 0
        c = self.choose(len(opts) + ncan, "wait")
        if c == len(opts):
            return ("cancel", [])
        return ("done", opts[c])

    def was_running(self, fid):
        return bool(self.choose(2, "running"))

    def submit_interrupt(self, k):
        return self.cancel and bool(self.choose(2, "submit-interrupt"))

    def tell_interrupt(self, k):
        return self.cancel and bool(self.choose(2, "tell-interrupt"))

    def successor(self):
        t = list(self.taken)
        while t and t[-1][0] == t[-1][1] - 1:
            t.pop()
        if not t:
            return None
        return [c for c, _ in t[:-1]] + [t[-1][0] + 1]


def enumerate_scheds(run_fn, orders="all", cancel=True, limit=None):
    """Yield run_fn(sched) for every schedule (depth-first, odometer)."""
    prefix, n = [], 0
    while prefix is not None:
        s = EnumSched(prefix, orders, cancel)
        yield run_fn(s)
        n += 1
        if limit and n >= limit:
            return
        prefix = s.successor()


# --------------------------------------------------------------------------
class HarnessInterrupt(Exception):
    """Stands for an interrupt arriving while BlockingRunner sits in wait()."""


class EvalError(Exception):
    def __init__(self, x, attempt):
        super().__init__(f"evaluation of {x!r} failed (attempt {attempt})")
        self.x, self.attempt = x, attempt


class OrderedDone(set):
    """A set that iterates in a prescribed order (the order in which
    _process_futures sees the completed futures is part of the schedule)."""

    def __init__(self, items):
        items = list(items)
        super().__init__(items)
        self._order = items

    def __iter__(self):
        return iter(self._order)


class FakeFuture(real_cf.Future):
    def __init__(self, ctx, fid, fn, args):
        super().__init__()
        self.ctx, self.fid, self.fn, self.args = ctx, fid, fn, args

    def result(self, timeout=None):
        if self.ctx.spec["kind"] == "blocking":     # otherwise the runner sees the wrapping asyncio future
            self.ctx.result_calls.append(self.fid)
        return super().result(timeout)

    def cancel(self):
        ctx = self.ctx
        if ctx.spec["kind"] == "blocking":
            ctx.cancel_calls.append(self.fid)
        if ctx.spec["kind"] != "blocking":
            pass        # the asyncio future is cancelled whatever the worker does
        elif not self.done() and not self.running() and ctx.sched.was_running(self.fid):
            # a worker picked the task up just before cancel() arrived
            self.set_running_or_notify_cancel()
            ctx.choices.append(("r", 1, self.fid))
        elif not self.done() and not self.running():
            ctx.choices.append(("r", 0, self.fid))
        return super().cancel()


class FakeExecutor(real_cf.ThreadPoolExecutor):
    """No thread is ever started: submit only records."""

    def __init__(self, ctx, max_workers):
        super().__init__(max_workers=max(1, max_workers))
        self._max_workers = max_workers
        self.ctx = ctx
        self.shutdown_calls = 0

    def submit(self, fn, /, *args, **kwargs):
        ctx = self.ctx
        if ctx.spec["kind"] == "blocking" and ctx.spec.get("allow_cancel") and not ctx.removed \
                and ctx.open_ev is not None and ctx.open_ev[0] == "goal":
            k = len(ctx.futs)
            if ctx.sched.submit_interrupt(k):
                # Ctrl-C arrives inside this executor.submit, before the job is accepted
                j = sum(1 for a in ctx.acts[ctx.act_mark:] if a[0] == "submit")
                ctx.choices.append(("s", 1, k))
                ctx.open(("subcancel", j))
                raise HarnessInterrupt("interrupt inside executor.submit")
        f = FakeFuture(ctx, len(ctx.futs), fn, args)
        ctx.futs.append(f)
        ctx.act(("submit", f.fid, args[0]))
        return f

    def shutdown(self, wait=True, *, cancel_futures=False):
        self.shutdown_calls += 1


class Proxy(types.ModuleType):
    def __init__(self, real, **over):
        super().__init__(real.__name__)
        self.__dict__["_real"] = real
        self.__dict__.update(over)

    def __getattr__(self, name):
        return getattr(self.__dict__["_real"], name)


# --------------------------------------------------------------------------
# learners
class MockLearner:
    """Recording learner: hands out fresh integer points 0,1,2,..,total-1;
    ask(n) returns fewer than n near the end."""

    def __init__(self, total):
        self.total, self.next = total, 0
        self.data, self.pending_points = {}, set()
        self.function = None

    def ask(self, n, tell_pending=True):
        k = min(n, self.total - self.next)
        pts = list(range(self.next, self.next + k))
        self.next += k
        self.pending_points.update(pts)
        return pts, [1.0] * k

    def tell(self, x, y):
        self.data[x] = y
        self.pending_points.discard(x)

    def remove_unfinished(self):
        self.pending_points = set()

    @property
    def npoints(self):
        return len(self.data)

    def exhausted(self):
        return self.next >= self.total


def real_function(x):
    """deterministic learnt function for the real learners"""
    if isinstance(x, tuple):            # SequenceLearner point = (index, element)
        x = x[1]
    return float(x) * float(x) - 0.25 * float(x)


def make_learner(spec):
    import adaptive
    k = spec["learner"]
    if k == "mock":
        return MockLearner(spec["total"])
    if k == "Learner1D":
        return adaptive.Learner1D(None, bounds=(-1.0, 2.0))
    if k == "SequenceLearner":
        return adaptive.SequenceLearner(None, [0.5 * i - 1 for i in range(spec["total"])])
    if k == "AverageLearner":
        return adaptive.AverageLearner(None, atol=1e-9, rtol=None)
    if k == "IntegratorLearner":
        # goals stay below the 17 points of the first interval: no refinement (keeps clear of DESIGN F1)
        return adaptive.IntegratorLearner(real_function, bounds=(-1.0, 2.0), tol=1e-12)
    if k.startswith("BalancingLearner"):
        return adaptive.BalancingLearner([adaptive.Learner1D(real_function, bounds=(-1.0, 2.0)),
                                          adaptive.Learner1D(real_function, bounds=(0.0, 3.0))],
                                         strategy=k.split(":")[1])
    raise ValueError(k)


def learner_exhausted(spec, l):
    k = spec["learner"]
    if k == "mock":
        return l.exhausted()
    if k == "SequenceLearner":
        return len(l._to_do_indices) == 0
    return False


def npoints_of(l):
    return l.npoints


# --------------------------------------------------------------------------
def max_tasks_of(spec):
    if spec.get("workers") and not spec["ntasks"]:
        return max(spec["workers"])
    return spec["ntasks"] or spec.get("ncores", 1)


def elastic(spec):
    """ntasks=None and an executor whose reported worker count changes during the run."""
    w = spec.get("workers")
    return bool(w) and not spec["ntasks"] and len(set(w)) > 1


class Ctx:
    """State of one controlled run."""

    def __init__(self, spec, sched):
        self.spec, self.sched = spec, sched
        self.futs = []            # FakeFutures in submission order (blocking / async_exec)
        self.gates = []           # async_coro: (gate future, x, attempt) in submission order
        self.fid_of = {}          # future object seen by the runner -> fid
        self.futobj = []          # fid -> future object seen by the runner
        self.outcome = {}         # fid -> ("ok", y) | ("err", exc)
        self.acts = []            # chronological observable actions (learner calls, submissions)
        self.steps = []           # (event, acts during the step, snapshot after)
        self.open_ev = None
        self.act_mark = 0
        self.result_calls = []
        self.cancel_calls = []
        self.choices = []         # structured choices taken (for replay)
        self.attempts = {}        # point -> number of evaluations started
        self.evals = []           # (fid or None, x, attempt, "ok"/"err")
        self.goal_calls = 0
        self.ntells = 0
        self.runner = None
        self.learner = None
        self.ask_answers = []
        self.pt_ids, self.val_ids = {}, {}
        self.exhausted_stop = False
        self.machinery = []       # harness-side inconsistencies (fail closed)
        self.loop = None
        self.nsub = 0
        self.first_snap = None
        self.sub_point = {}       # fid -> point submitted
        self.removed = False      # learner.remove_unfinished() was called: the runner is in its finally block
        self.done_at_stop = set() # futures that had already finished when the runner began to stop
        self.executing = set()    # async_coro: evaluation coroutines that have started and not yet ended
        self.releases = {}        # async_coro + slow_cancel: fid -> second gate awaited during cancellation
        self.executing_at_done = None   # snapshot of `executing` at the moment the runner task is done
        self.aux_tasks = []
        self.all_result_calls = set()

    # ---- interning of points and values (real learners have float points)
    def P(self, x):
        key = x if not isinstance(x, float) else float(x)
        try:
            hash(key)
        except TypeError:
            key = repr(key)
        if key not in self.pt_ids:
            self.pt_ids[key] = len(self.pt_ids)
        return self.pt_ids[key]

    def Vv(self, y):
        key = repr(y)
        if key not in self.val_ids:
            self.val_ids[key] = len(self.val_ids)
        return self.val_ids[key]

    def act(self, a):
        if a[0] == "submit":
            self.sub_point[a[1]] = a[2]
        self.acts.append(a)

    def nfutures(self):
        return len(self.sub_point)

    # ---- the learnt function (called by the fake worker / the runner)
    def value(self, x, attempt):
        if self.spec["learner"] == "mock":
            return x * 100 + attempt
        return real_function(x)

    def evaluate(self, x):
        n = self.attempts[self._k(x)] = self.attempts.get(self._k(x), 0) + 1
        if self.fails(x, n):
            raise EvalError(x, n)
        return self.value(x, n)

    def _k(self, x):
        return self.P(x)

    def fails(self, x, attempt):
        plan = self.spec.get("faults") or {}
        return bool(plan.get(f"{self.P(x)}:{attempt}", False))

    # ---- learner instrumentation
    def wrap_learner(self, l):
        ctx = self
        ask0, tell0, rem0 = l.ask, l.tell, l.remove_unfinished

        # only calls made BY THE RUNNER are recorded: a learner may call its own tell/ask
        # re-entrantly (IntegratorLearner.add_ival re-tells known points through self.tell)
        depth = [0]

        def ask(n, *a, **k):
            depth[0] += 1
            try:
                pts, imps = ask0(n, *a, **k)
            finally:
                depth[0] -= 1
            if depth[0] == 0:
                ctx.act(("ask", n, list(pts)))
                ctx.ask_answers.append([ctx.P(p) for p in pts])
            return pts, imps

        def tell(x, y):
            if depth[0] == 0:
                ctx.act(("tell", x, y))
            depth[0] += 1
            try:
                r = tell0(x, y)
            finally:
                depth[0] -= 1
            if depth[0] == 0 and ctx.spec["kind"] == "blocking" and ctx.spec.get("allow_cancel") and not ctx.removed \
                    and ctx.open_ev is not None and ctx.open_ev[0] == "wait":
                ctx.ntells += 1
                if ctx.sched.tell_interrupt(ctx.ntells):
                    # Ctrl-C is delivered when this learner.tell returns: the learner has the value, the rest of
                    # _process_futures (later done futures of this wait) is not executed
                    ctx.choices.append(("t", 1, ctx.ntells))
                    ctx.open_ev = ("waitcancel", ctx.open_ev[1])
                    raise HarnessInterrupt("interrupt when learner.tell returned")
            return r

        def remove_unfinished():
            if not ctx.removed:
                vis = ctx.futs if ctx.spec["kind"] == "blocking" else ctx.futobj
                ctx.done_at_stop = {i for i, f in enumerate(vis) if f.done()}
            ctx.removed = True
            ctx.act(("remove",))
            return rem0()

        l.ask, l.tell, l.remove_unfinished = ask, tell, remove_unfinished
        return l

    # ---- snapshots
    def fid(self, fut):
        if fut not in self.fid_of:
            f = len(self.futobj)
            self.fid_of[fut] = f
            self.futobj.append(fut)
            self.instrument(fut, f)
        return self.fid_of[fut]

    def instrument(self, fut, fid):
        if isinstance(fut, FakeFuture):
            if fut.fid != fid:
                self.machinery.append(f"future numbering: {fut.fid} vs {fid}")
            return
        ctx = self
        r0, c0 = fut.result, fut.cancel

        def result():
            ctx.result_calls.append(fid)
            return r0()

        def cancel(*a, **k):
            ctx.cancel_calls.append(fid)
            return c0(*a, **k)

        fut.result, fut.cancel = result, cancel

    def snap(self, phase):
        r = self.runner
        pend = [(self.fid(f), pid) for f, pid in r._pending_tasks.items()]
        return {
            "phase": phase,
            "pend": pend,
            "retry": [(int(p), int(n)) for p, n in r._to_retry.items()],
            "tbs": [int(p) for p in r._tracebacks],
            "idp": [(int(p), self.P(x)) for p, x in r._id_to_point.items()],
            "log": None if r.log is None else [self.logent(e) for e in r.log],
            "cancelled": sorted(set(self.cancel_calls)),
            "maxw": (self.spec["ntasks"] or getattr(getattr(self, "executor", None), "_max_workers", None)),
        }

    def logent(self, e):
        if e[0] == "ask":
            return ("ask", int(e[1]))
        return ("tell", self.P(e[1]), self.Vv(e[2]))

    # ---- step bookkeeping
    def close(self, phase, why=None, cleaned=None, nwait=None):
        snap = self.snap(phase)
        snap["why"], snap["cleaned"], snap["nwait"] = why, cleaned, nwait
        self.all_result_calls.update(self.result_calls)
        if self.open_ev is None:
            self.first_snap = snap
        else:
            ev = self.open_ev
            if ev[0] in ("wait", "shutdown", "waitcancel"):
                planned = ev[1]
                seen = []
                for f in self.result_calls:
                    if f in planned and f not in seen:
                        seen.append(f)
                # an interrupted _process_futures: only the futures whose result was taken were processed
                order = seen + [f for f in planned if f not in seen and ev[0] != "waitcancel"]
                ev = (ev[0], [(f, self.outcome[f]) for f in order])
            self.steps.append({"ev": ev, "acts": self.acts[self.act_mark:], "snap": snap})
        self.open_ev = None
        self.act_mark = len(self.acts)
        self.result_calls = []

    def open(self, ev):
        self.open_ev = ev

    # ---- goal
    def goal(self, learner):
        self.close("AtGoal")
        self.goal_calls += 1
        workers = self.spec.get("workers")
        if workers:
            # a resized pool: the executor reports a different worker count on this visit
            self.executor._max_workers = workers[min(self.goal_calls, len(workers) - 1)]
        met = npoints_of(learner) >= self.spec["goal"]
        if not met and self.nothing_left():
            # keep away from the documented oddity (spin / asyncio.wait([]))
            met = True
            self.exhausted_stop = True
        nfp = len({k.split(":")[0] for k in (self.spec.get("faults") or {})})
        limit = 30 + (self.spec["retries"] + 2) * (self.spec["goal"] + max_tasks_of(self.spec) + nfp)
        if not met and self.goal_calls > limit:
            met = True
            self.machinery.append(f"run did not reach its goal within {limit} iterations")
        self.open(("goal", met))
        return met

    def nothing_left(self):
        r = self.runner
        if r._pending_tasks:
            return False
        if any(pid not in r._pending_tasks.values() for pid in r._to_retry):
            return False
        return learner_exhausted(self.spec, self.learner)

    # ---- completion of one evaluation (the worker's part)
    def complete_fake(self, f: FakeFuture):
        if not f.running():
            if not f.set_running_or_notify_cancel():
                return False
        x = f.args[0]
        try:
            y = f.fn(*f.args)
        except Exception as e:       # noqa: BLE001
            self.outcome[f.fid] = ("err", e)
            self.evals.append((f.fid, x, self.attempts[self._k(x)], "err"))
            f.set_exception(e)
        else:
            self.outcome[f.fid] = ("ok", y)
            self.evals.append((f.fid, x, self.attempts[self._k(x)], "ok"))
            f.set_result(y)
        return True

    # ---- BlockingRunner: replacement of concurrent.futures.wait
    def cf_wait(self, fs, timeout=None, return_when=real_cf.ALL_COMPLETED):
        fs = list(fs)
        if not self.removed:
            # a wait of the main loop
            self.close("InWait", nwait=len(fs))
            if not fs:
                self.machinery.append("wait([]) reached (scenario should avoid it)")
                raise HarnessInterrupt("empty wait")
            already = [f for f in fs if f.done()]
            cand = [f.fid for f in fs if not f.done()]
            if already:
                self.machinery.append("done future still pending at wait")
            if not cand:
                self.open(("wait", [f.fid for f in already]))
                return real_cf._base.DoneAndNotDoneFutures(OrderedDone(already), set())
            kind, sel = self.sched.main_wait(cand, self.spec.get("allow_cancel", False))
            self.choices.append(("w", kind, list(sel)))
            if kind == "cancel":
                for fid in sel:
                    self.complete_fake(self.futs[fid])
                self.open(("cancel",))
                raise HarnessInterrupt("interrupt")
            if return_when == real_cf.ALL_COMPLETED:
                sel = list(sel) + [f for f in cand if f not in sel]
            for fid in sel:
                self.complete_fake(self.futs[fid])
            self.open(("wait", list(sel)))
            done = [self.futs[fid] for fid in sel]
            return real_cf._base.DoneAndNotDoneFutures(OrderedDone(done), {f for f in fs if f not in done})
        # the finally block: wait(remaining).  What a real pool does: cancelled jobs are dropped (and
        # count as done), running ones finish; with ALL_COMPLETED the wait returns when all are done,
        # with FIRST_COMPLETED as soon as one is.
        self.close("Stopping")
        got = []
        for f in fs:
            if f.cancelled():
                f.set_running_or_notify_cancel()      # the worker notices the cancellation
            elif f.done():
                got.append(f.fid)
        for f in fs:
            if not f.done():
                if return_when != real_cf.ALL_COMPLETED and any(g.done() for g in fs):
                    continue                          # the wait has already returned: still running
                self.complete_fake(f)                 # was running: delivers its result
                got.append(f.fid)
        self.open(("shutdown", got))
        done = {f for f in fs if f.done()}
        return real_cf._base.DoneAndNotDoneFutures(done, {f for f in fs if f not in done})

    # ---- AsyncRunner: replacement of asyncio.wait
    async def aio_wait(self, fs, *, timeout=None, return_when=real_asyncio.ALL_COMPLETED):
        fs = list(fs)
        if not self.removed:
            self.close("InWait", nwait=len(fs))
            if not fs:
                self.machinery.append("asyncio.wait([]) reached (scenario should avoid it)")
            already = [self.fid(f) for f in fs if f.done()]
            cand = [self.fid(f) for f in fs if not f.done()]
            if cand:
                kind, sel = self.sched.main_wait(cand, self.spec.get("allow_cancel", False))
            else:
                kind, sel = "done", []
            self.choices.append(("w", kind, list(sel)))
            if kind == "done" and return_when == real_asyncio.ALL_COMPLETED:
                sel = list(sel) + [f for f in cand if f not in sel]
            self.open(("wait", already + list(sel)) if kind == "done" else ("cancel",))
            self.loop.call_soon(self.apply_async, kind, list(sel))
            done, pending = await real_asyncio.wait(fs, return_when=return_when)
            planned = already + list(sel)
            got = sorted((self.fid(f) for f in done), key=lambda i: planned.index(i) if i in planned else 10 ** 6 + i)
            if set(got) != set(planned):
                self.machinery.append(f"asyncio.wait returned {got}, planned {planned}")
            self.open(("wait", got))
            return OrderedDone([self.futobj[i] for i in got]), pending
        self.close("Stopping")
        self.open(("shutdown", []))
        # a future nobody asked to cancel would keep the runner waiting for ever: its worker finishes it
        stray = [self.fid(f) for f in fs if not f.done() and self.fid(f) not in self.cancel_calls]
        if stray and return_when != real_asyncio.ALL_COMPLETED and len(stray) < len(fs):
            stray = []                                # the wait returns on the first cancelled one
        if stray:
            self.loop.call_soon(self.apply_async, "done", stray)
        if self.spec.get("slow_cancel"):
            self.aux_tasks.append(self.loop.create_task(self.releaser(fs)))
        done, pending = await real_asyncio.wait(fs, return_when=return_when)
        return done, pending

    async def releaser(self, fs=()):
        """Lets the asynchronous clean-up of cancelled evaluation coroutines finish -- a few loop
        iterations later, i.e. while a runner that waits for them is suspended in asyncio.wait."""
        for _ in range(60):
            await real_asyncio.sleep(0)
            await real_asyncio.sleep(0)
            for r in list(self.releases.values()):
                if not r.done():
                    r.set_result(None)
            if not self.executing or (fs and all(f.done() for f in fs)):
                break

    def apply_async(self, kind, sel):
        # runs from the event loop while the runner task is suspended in asyncio.wait
        for fid in sel:
            self.complete_async(fid)
        if kind == "cancel":
            self.runner.cancel()

    def complete_async(self, fid):
        if self.spec["kind"] == "async_exec":
            self.complete_fake(self.futs[fid])
            return
        gate, x, attempt = self.gates[fid]
        if self.fails(x, attempt):
            e = EvalError(x, attempt)
            self.outcome[fid] = ("err", e)
            self.evals.append((fid, x, attempt, "err"))
            gate.set_result(("err", e))
        else:
            y = self.value(x, attempt)
            self.outcome[fid] = ("ok", y)
            self.evals.append((fid, x, attempt, "ok"))
            gate.set_result(("ok", y))

    def coro_function(self):
        ctx = self

        async def gated(fid, gate):
            ctx.executing.add(fid)
            try:
                try:
                    tag, v = await gate
                except real_asyncio.CancelledError:
                    if ctx.spec.get("slow_cancel"):
                        # asynchronous clean-up on cancellation (legal for an async def function): the
                        # evaluation is over only when the scheduler has released this second gate
                        rel = ctx.loop.create_future()
                        ctx.releases[fid] = rel
                        await rel
                    raise
                if tag == "err":
                    raise v
                return v
            finally:
                ctx.executing.discard(fid)

        def function(x):
            n = ctx.attempts[ctx._k(x)] = ctx.attempts.get(ctx._k(x), 0) + 1
            gate = ctx.loop.create_future()
            fid = len(ctx.gates)
            ctx.gates.append((gate, x, n))
            ctx.act(("submit", fid, x))
            return gated(fid, gate)

        inspect.markcoroutinefunction(function)
        return function


# --------------------------------------------------------------------------
class Rec:
    """Result of one controlled run."""

    def __init__(self, ctx, exc, status):
        self.spec = ctx.spec
        self.steps = ctx.steps
        self.acts = ctx.acts
        self.ask_answers = ctx.ask_answers
        self.choices = ctx.choices
        self.exc, self.status = exc, status
        self.machinery = ctx.machinery
        self.ctx = ctx
        self.runner, self.learner = ctx.runner, ctx.learner
        self.first_snap = ctx.first_snap
        self.exhausted_stop = ctx.exhausted_stop


def classify_exc(ctx, exc):
    """-> (why, point id or None) for the final observation"""
    if exc is None:
        return "GoalMet", None
    if isinstance(exc, (HarnessInterrupt, real_asyncio.CancelledError)):
        return "Cancelled", None
    if isinstance(exc, RuntimeError) and str(exc) == "Executor has no workers":
        return "NoWorkers", None
    if isinstance(exc, RuntimeError) and "An error occured while evaluating" in str(exc):
        msg = str(exc).split("See the traceback")[0]
        for key, i in ctx.pt_ids.items():
            if f'"learner.function({key})"' in msg:
                return "Failed", i
        return "Failed", None
    return "Other:" + type(exc).__name__, None


def safe_run(col, spec, sched, origin):
    """run_case that survives a harness-side exception: the case is reported (fail closed) and the
    check goes on with the remaining cases."""
    import traceback
    try:
        return run_case(spec, sched)
    except Exception:       # noqa: BLE001
        tb = traceback.format_exc()
        if col._cap("driver"):
            col.chk.broke("machinery", f"controlled scheduler could not drive the runner ({origin})",
                          {"what": tb[-1200:], "spec": spec, "choices": [list(c) for c in getattr(sched, "taken_choices", [])]})
        return None


def run_case(spec, sched) -> Rec:
    """spec keys: kind (blocking|async_coro|async_exec), learner, total, goal,
    ntasks (0 = None), ncores, retries, raise, log, faults {"pt:attempt": True},
    allow_cancel, shutdown_executor."""
    ctx = Ctx(spec, sched)
    learner = make_learner(spec)
    ctx.learner = learner
    kind = spec["kind"]
    workers = spec.get("workers")
    ex = FakeExecutor(ctx, workers[0] if workers else spec.get("ncores", 1))
    ctx.executor = ex
    kw = dict(ntasks=spec["ntasks"] or None, log=spec["log"], retries=spec["retries"],
              raise_if_retries_exceeded=spec["raise"], shutdown_executor=spec.get("shutdown_executor", False))
    saved = (R.concurrent, R.asyncio, R._default_executor)
    exc = None
    status = None
    try:
        if kind == "blocking":
            learner.function = ctx.evaluate
            ctx.wrap_learner(learner)
            R.concurrent = Proxy(real_cf, wait=ctx.cf_wait)

            class Probe(R.BlockingRunner):
                def __init__(self, *a, **k):
                    ctx.runner = self
                    super().__init__(*a, **k)

            try:
                Probe(learner, goal=ctx.goal, executor=ex, **kw)
            except Exception as e:      # noqa: BLE001
                exc = e
        else:
            loop = real_asyncio.new_event_loop()
            ctx.loop = loop
            try:
                R.asyncio = Proxy(real_asyncio, wait=ctx.aio_wait)
                if kind == "async_coro":
                    learner.function = ctx.coro_function()
                    R._default_executor = lambda: ex
                    ctx.wrap_learner(learner)
                    runner = R.AsyncRunner(learner, goal=ctx.goal, ioloop=loop, **kw)
                else:
                    learner.function = ctx.evaluate
                    ctx.wrap_learner(learner)
                    runner = R.AsyncRunner(learner, goal=ctx.goal, executor=ex, ioloop=loop, **kw)
                ctx.runner = runner

                def at_done(_t):
                    ctx.executing_at_done = set(ctx.executing)

                runner.task.add_done_callback(at_done)

                async def main():
                    await real_asyncio.wait([runner.task])
                    for _ in range(3):
                        await real_asyncio.sleep(0)
                    if ctx.executing:            # left behind by the runner: let them end before the loop closes
                        for fid in list(ctx.executing):
                            if ctx.futobj and fid < len(ctx.futobj) and not ctx.futobj[fid].done() and fid not in ctx.releases:
                                ctx.futobj[fid].cancel()
                        await ctx.releaser()
                    if ctx.aux_tasks:
                        await real_asyncio.gather(*ctx.aux_tasks, return_exceptions=True)
                    for _ in range(3):
                        await real_asyncio.sleep(0)

                loop.run_until_complete(main())
                status = runner.status()
                if runner.task.cancelled():
                    exc = real_asyncio.CancelledError()
                else:
                    exc = runner.task.exception()
            finally:
                try:
                    left = [t for t in real_asyncio.all_tasks(loop) if not t.done()]
                    if left:
                        ctx.machinery.append(f"{len(left)} asyncio tasks still pending at loop close")
                        for t in left:
                            t.cancel()
                        loop.run_until_complete(real_asyncio.gather(*left, return_exceptions=True))
                finally:
                    loop.close()
    finally:
        R.concurrent, R.asyncio, R._default_executor = saved
    why, pt = classify_exc(ctx, exc)
    r = ctx.runner
    cleaned = r.end_time is not None
    ctx.close("Stopped", why=(why, pt), cleaned=cleaned)
    ctx.executor = ex
    return Rec(ctx, exc, status)


# --------------------------------------------------------------------------
# Gallina printers for Run/RunnerRun.v
from . import coqio as C  # noqa: E402

PREAMBLE = """From Coq Require Import ZArith List. Import ListNotations.
From AV Require Import Base.Prelude Model.Runner Run.RunnerRun.
Open Scope nat_scope."""


def cfg_term(spec):
    return C.app("mkcfg", "Blocking" if spec["kind"] == "blocking" else "Async", C.nat(spec["ntasks"] or 0),
                 C.nat(spec.get("ncores", 1)), C.nat(spec["retries"]), C.bool_(spec["raise"]), C.bool_(spec["log"]))


def _outcome(ctx, o):
    return f"(Ok {C.Z(ctx.Vv(o[1]))})" if o[0] == "ok" else "Err"


def ev_term(ctx, ev):
    if ev[0] == "goal":
        return f"(Goal {C.bool_(ev[1])})"
    if ev[0] == "cancel":
        return "Cancel"
    if ev[0] == "subcancel":
        return f"(SubmitCancel {C.nat(ev[1])})"
    body = C.lst(C.pair(C.nat(f), _outcome(ctx, o)) for f, o in ev[1])
    return f"({ {'wait': 'Wait', 'shutdown': 'Shutdown', 'waitcancel': 'WaitCancel'}[ev[0]] } {body})"


def act_term(ctx, a):
    if a[0] == "ask":
        return C.app("OAsk", C.nat(a[1]), C.lst(C.nat(ctx.P(p)) for p in a[2]))
    if a[0] == "submit":
        return C.app("OSubmit", C.nat(a[1]), C.nat(ctx.P(a[2])))
    if a[0] == "tell":
        return C.app("OTell", C.nat(ctx.P(a[1])), C.Z(ctx.Vv(a[2])))
    return "ORemove"


def phase_term(snap):
    ph = snap["phase"]
    if ph != "Stopped":
        return {"AtGoal": "PAtGoal", "InWait": "PInWait", "Stopping": "PStopping"}[ph]
    why, pt = snap["why"]
    w = {"GoalMet": "WGoal", "Cancelled": "WCancelled", "NoWorkers": "WNoWorkers"}.get(why)
    if why == "Failed":
        w = f"(WFailed {C.opt(pt, C.nat)})"
    if w is None:
        w = "WNoWorkers"      # an unexpected exception: never equal to what the model says unless NoWorkers
    return f"(PStopped {w} {C.bool_(snap['cleaned'])})"


def _pairs(l):
    return C.lst(C.pair(C.nat(a), C.nat(b)) for a, b in l)


def logent_term(e):
    if e[0] == "ask":
        return f"(LAsk {C.nat(e[1])})"
    return f"(LTell {C.nat(e[1])} {C.Z(e[2])})"


def obs_term(snap):
    return C.app("mkobs", phase_term(snap), _pairs(snap["pend"]), _pairs(snap["retry"]),
                 C.lst(C.nat(p) for p in snap["tbs"]), _pairs(snap["idp"]),
                 C.lst(logent_term(e) for e in (snap["log"] or [])),
                 C.lst(C.nat(f) for f in snap["cancelled"]))


def case_term(rec: Rec):
    ctx = rec.ctx
    steps = C.lst((C.tup(ev_term(ctx, s["ev"]), C.lst(act_term(ctx, a) for a in s["acts"]),
                         C.opt(s["snap"], obs_term)) for s in rec.steps), sep=";\n   ")
    answers = C.lst(C.lst(C.nat(p) for p in a) for a in rec.ask_answers)
    return C.tup(cfg_term(rec.spec), answers, obs_term(rec.first_snap), steps)


def spec_summary(spec):
    return {k: spec[k] for k in ("kind", "learner", "total", "goal", "ntasks", "ncores", "retries", "raise", "log")
            if k in spec} | {"faults": sorted(k for k, v in (spec.get("faults") or {}).items() if v),
                             "allow_cancel": spec.get("allow_cancel", False),
                             "slow_cancel": spec.get("slow_cancel", False), "workers": spec.get("workers")}


def replay_doc(rec: Rec):
    """Everything needed to re-run the case deterministically."""
    return {"spec": rec.spec, "choices": [list(c) for c in rec.choices]}


def rerun(doc) -> Rec:
    return run_case(doc["spec"], ListSched([tuple(c) for c in doc["choices"]]))


# --------------------------------------------------------------------------
# scenario generators
KINDS = ["blocking", "async_coro", "async_exec"]


def random_spec(rng, faults=True, cancel=True, learner=None, log=None, big=False, elastic_p=0.0):
    kind = rng.choice(KINDS)
    lk = learner or rng.choice(["mock"] * 6 + ["Learner1D", "SequenceLearner", "AverageLearner"])
    ntasks = rng.choice([1, 2, 2, 3, 3, 4, 5] + ([8, 13] if big else []))
    use_ncores = rng.random() < 0.15          # ntasks=None -> _get_ncores(executor)
    total = rng.randint(1, 30 if big else 12)
    goal = rng.randint(1, total) if rng.random() < 0.7 else total
    retries = rng.choice([0, 0, 1, 1, 2, 3])
    spec = {"kind": kind, "learner": lk, "total": total, "goal": goal,
            "ntasks": 0 if use_ncores else ntasks, "ncores": ntasks if use_ncores else rng.choice([1, 2, 4]),
            "retries": retries, "raise": rng.random() < 0.5,
            "log": (rng.random() < 0.6) if log is None else log,
            "allow_cancel": cancel and rng.random() < 0.5,
            "shutdown_executor": rng.random() < 0.5, "faults": {}}
    if kind == "async_coro":
        spec["slow_cancel"] = rng.random() < 0.5      # coroutine function with asynchronous clean-up on cancellation
    if elastic_p and kind != "async_coro" and rng.random() < elastic_p:
        # ntasks=None with a pool that is resized during the run (grows and shrinks, also below the
        # number of evaluations in flight)
        spec["ntasks"] = 0
        w = rng.choice([1, 2, 3, 4])
        ws = []
        for _ in range(rng.randint(3, 12)):
            w = max(1, min(6, w + rng.choice([-3, -2, -1, -1, 0, 1, 1, 2])))
            ws += [w] * rng.choice([1, 1, 2])
        spec["workers"] = ws
        spec["ncores"] = ws[0]
    if faults and rng.random() < 0.6:
        p = rng.choice([0.08, 0.2, 0.45])
        npts = total if lk in ("mock", "SequenceLearner") else 3 * total
        for pt in range(npts + 2):
            for att in range(1, retries + 3):
                if rng.random() < p:
                    spec["faults"][f"{pt}:{att}"] = True
    return spec


# --------------------------------------------------------------------------
# shared check driver for C05 / C06 / C19
import json  # noqa: E402


def features(rec: Rec):
    """Facts about a run used for the non-triviality rules and histograms."""
    multi = ooo = False
    nfail = nretry = 0
    submitted, done = [], set()
    for st in rec.steps:
        ev = st["ev"]
        if ev[0] in ("wait", "shutdown", "waitcancel"):
            nfail += sum(1 for _, o in ev[1] if o[0] == "err")
        if ev[0] in ("wait", "waitcancel"):
            multi = multi or len(ev[1]) > 1
            for f, _ in ev[1]:
                # out of order: an earlier-submitted evaluation is still running when this one completes
                if any(g < f and g not in done for g in submitted):
                    ooo = True
                done.add(f)
        for a in st["acts"]:
            if a[0] == "submit":
                if any(rec.ctx.sub_point[g] == a[2] for g in submitted):
                    nretry += 1
                submitted.append(a[1])
    last = rec.steps[-1]["snap"] if rec.steps else rec.first_snap
    return {"multi": multi, "ooo": ooo, "nfail": nfail, "nretry": nretry,
            "outstanding": any(st["snap"]["phase"] == "Stopping" for st in rec.steps),
            "late_result": any(st["ev"][0] == "shutdown" and st["ev"][1] for st in rec.steps),
            "cancelled": any(st["ev"][0] in ("cancel", "subcancel", "waitcancel") for st in rec.steps),
            "submit_interrupt": any(st["ev"][0] == "subcancel" for st in rec.steps),
            "tell_interrupt": any(st["ev"][0] == "waitcancel" for st in rec.steps),
            "why": (last["why"] or ("?",))[0],
            "exhausted": any(n > rec.spec["retries"] for n in _fail_counts(rec).values())}


def _fail_counts(rec):
    cnt = {}
    for st in rec.steps:
        if st["ev"][0] in ("wait", "shutdown", "waitcancel"):
            for f, o in st["ev"][1]:
                if o[0] == "err":
                    k = rec.ctx.P(rec.ctx.sub_point[f])
                    cnt[k] = cnt.get(k, 0) + 1
    return cnt


class Collector:
    """Feeds runs to the oracles and, in batches, to the Coq comparison."""

    def __init__(self, chk, prop, oracles, nontrivial, batch=6000, coq_every=1):
        self.chk, self.prop, self.oracles, self.nontrivial = chk, prop, oracles, nontrivial
        self.batch, self.coq_every = batch, coq_every
        self.cases, self.metas = [], []
        self.nbatch = 0
        self.stats = {"runs": 0, "compared_in_coq": 0, "mismatches": 0, "stopped_per_coq": 0,
                      "steps": 0, "kind": {}, "learner": {}, "why": {}, "ntasks": {},
                      "multi_completion_runs": 0, "out_of_order_runs": 0, "runs_with_failures": 0,
                      "runs_with_retries": 0, "runs_with_exhausted_point": 0, "cancelled_runs": 0,
                      "interrupted_inside_submit_runs": 0, "coroutine_with_async_cleanup_on_cancel_runs": 0,
                      "coroutine_with_async_cleanup_runs_stopped_with_outstanding": 0,
                      "stopped_with_outstanding_futures": 0, "late_results_at_shutdown": 0,
                      "oracle_failures": 0}
        self.n = 0
        self.sig_count = {}
        self.bad = 0

    def enough(self):
        """The verdict is settled: stop generating (keeps a broken tree from costing hours)."""
        return self.bad >= 150

    def _cap(self, sig):
        self.bad += 1
        self.sig_count[sig] = self.sig_count.get(sig, 0) + 1
        return self.sig_count[sig] <= 3

    def add(self, rec: Rec, origin: str, coq=True):
        if rec is None:
            return
        chk, st = self.chk, self.stats
        st["runs"] += 1
        st["steps"] += len(rec.steps)
        ft = features(rec)
        for key, val in (("kind", rec.spec["kind"]), ("learner", rec.spec["learner"]), ("why", ft["why"]),
                         ("ntasks", str(rec.spec["ntasks"] or f"ncores={rec.spec.get('ncores')}"))):
            st[key][val] = st[key].get(val, 0) + 1
        st["multi_completion_runs"] += ft["multi"]
        st["out_of_order_runs"] += ft["ooo"]
        st["runs_with_failures"] += ft["nfail"] > 0
        st["runs_with_retries"] += ft["nretry"] > 0
        st["runs_with_exhausted_point"] += ft["exhausted"]
        st["cancelled_runs"] += ft["cancelled"]
        st["interrupted_inside_submit_runs"] += ft["submit_interrupt"]
        st["interrupted_when_tell_returned_runs"] = st.get("interrupted_when_tell_returned_runs", 0) + ft["tell_interrupt"]
        slow = bool(rec.spec.get("slow_cancel")) and rec.spec["kind"] == "async_coro"
        st["coroutine_with_async_cleanup_on_cancel_runs"] += slow
        st["coroutine_with_async_cleanup_runs_stopped_with_outstanding"] += slow and bool(rec.ctx.releases)
        st["stopped_with_outstanding_futures"] += ft["outstanding"]
        st["late_results_at_shutdown"] += ft["late_result"]
        chk.note_case((json.dumps(rec.spec, sort_keys=True), rec.choices), self.nontrivial(rec, ft))
        if len(rec.steps) > 5 and self.nontrivial(rec, ft):
            chk.sample({"spec": spec_summary(rec.spec), "events": [_ev_summary(s["ev"]) for s in rec.steps][:14]})
        for m in rec.machinery[:1]:
            if self._cap("machinery"):
                chk.broke("machinery", f"controlled scheduler inconsistent ({origin}): {m}", {"what": m, **replay_doc(rec)})
        for fn in self.oracles:
            errs = fn(rec)
            for clause, msg in errs[:1]:
                st["oracle_failures"] += 1
                if not self._cap(clause):
                    continue
                chk.fail(f"{self.prop}:{clause}",
                         f"{rec.spec['kind']} runner, learner={rec.spec['learner']}, ntasks={rec.spec['ntasks'] or None}, "
                         f"retries={rec.spec['retries']}, raise={rec.spec['raise']}: {msg}",
                         replay_doc(rec))
        self.n += 1
        if elastic(rec.spec):
            # Model/Runner.v has a fixed _get_max_tasks(): runs with a resized pool are decided by the oracle alone
            st["elastic_pool_runs_oracle_only"] = st.get("elastic_pool_runs_oracle_only", 0) + 1
            coq = False
        if coq and (self.n % self.coq_every == 0):
            self.cases.append(case_term(rec))
            self.metas.append({"origin": origin, **replay_doc(rec)})
            if len(self.cases) >= self.batch:
                self.flush()

    def flush(self):
        if not self.cases:
            return
        chk = self.chk
        mism, legal, errors = chk.coq_cases(f"cases{self.nbatch}", PREAMBLE, "case", self.cases, "check", "ends_stopped",
                                            shard=max(50, min(400, len(self.cases) // 16 + 1)))
        self.nbatch += 1
        for e in errors:
            chk.broke("correspondence", "Model/Runner.v cases could not be evaluated", e)
        self.bad += len(mism)
        for ci, si in mism[:5]:
            m = self.metas[ci]
            chk.broke("correspondence", f"Model/Runner.v vs adaptive.runner: case {m['origin']} step {si}",
                      {"spec": m["spec"], "choices": m["choices"], "step": si})
        self.stats["compared_in_coq"] += len(self.cases)
        self.stats["mismatches"] += len(mism)
        self.stats["stopped_per_coq"] += legal
        self.cases, self.metas = [], []


def _ev_summary(ev):
    if ev[0] in ("wait", "shutdown", "waitcancel"):
        return [ev[0], [(f, o[0]) for f, o in ev[1]]]
    return list(ev)


def replay_failures(doc, oracles):
    """--replay: re-run the recorded cases on the real runner (current $ADAPTIVE_REPO), print what the
    oracles say and whether the model (inside Coq) still accepts the trace."""
    from .core import WORK, coqc_file, split_evals
    bad = 0
    items = doc.get("failing_inputs", []) + [b for b in doc.get("no_longer_checks", []) if isinstance(b.get("detail"), dict)]
    d = WORK / "replay_runner"
    d.mkdir(parents=True, exist_ok=True)
    for i, f in enumerate(items):
        r = f.get("replay") or f.get("detail")
        if not r or "spec" not in r:
            continue
        rec = rerun(r)
        errs = [e for fn in oracles for e in fn(rec)]
        vf = d / f"replay_{i}.v"
        vf.write_text(PREAMBLE + "\nDefinition c : case :=\n" + case_term(rec) + ".\nEval vm_compute in (check c).\n")
        rc, out, _ = coqc_file(vf, 300)
        parts = split_evals(out) if rc == 0 else []
        model = "model agrees" if (parts and "None" in parts[0]) else \
            ("model DISAGREES at " + " ".join(parts[0].split()) if parts else f"coqc failed: {out[-200:]}")
        print("replayed", spec_summary(rec.spec), "->", errs[:3] or "oracle silent", ";", model, "; ended with", repr(rec.exc)[:80])
        bad += bool(errs) or "agrees" not in model
    return 1 if bad else 0


def corpus_docs(prop):
    from .core import VERIF
    out = []
    for f in sorted((VERIF / "corpus" / prop).glob("*.json")):
        out.append((f.name, json.loads(f.read_text())))
    return out
