from __future__ import annotations

import argparse
import importlib
import json
import os
import sys
import traceback

from .core import Check


def main(argv=None):
    ap = argparse.ArgumentParser()
    ap.add_argument("prop")
    ap.add_argument("--tier", default=os.environ.get("VERIF_TIER", "quick"), choices=["quick", "thorough"])
    ap.add_argument("--seed", type=int, default=int(os.environ.get("VERIF_SEED", "0") or 0))
    ap.add_argument("--replay")
    a = ap.parse_args(argv)
    mod = importlib.import_module(f"avh.props.{a.prop.lower()}")
    if a.replay:
        doc = json.load(open(a.replay))
        return mod.replay(doc)
    chk = Check(a.prop, a.tier, a.seed)
    try:
        return mod.run(chk)
    except Exception:
        # the machinery itself failed: fail closed, say so
        tb = traceback.format_exc()
        print(tb)
        chk.broke("machinery", "check driver raised", tb[-1500:])
        return chk.finish(level="proof", rule="driver error")


if __name__ == "__main__":
    sys.exit(main())
