"""Export the quadrature constants of $ADAPTIVE_REPO/adaptive/learner/integrator_coeffs.py
into coq/gen/Consts.v (DESIGN.md section 5, last paragraph; properties C08/C20).

Every float is exported EXACTLY as a dyadic pair (m, e) meaning m * 2^e with m
odd (or m = e = 0); `legendre(34)` is exported as exact rationals.  The file is
data only (no computation), so an unchanged source costs no Coq rebuild
(write-if-changed).  Fail closed: anything unexpected raises TraceConstsError.

    regenerate(out_dir=None) -> [Path]   write Consts.v (default coq/gen)
    export() -> dict                     same values as Fractions (for the oracle)
"""
from __future__ import annotations

import importlib
import math
import os
from fractions import Fraction
from pathlib import Path

VERIF = Path(__file__).resolve().parents[2]
GEN = VERIF / "coq" / "gen"

NS = (5, 9, 17, 33)
NLEG = 34


class TraceConstsError(Exception):
    pass


# ---------------------------------------------------------------------------
def load_module():
    try:
        m = importlib.import_module("adaptive.learner.integrator_coeffs")
    except Exception as e:  # noqa: BLE001 - fail closed on anything
        raise TraceConstsError(f"cannot import adaptive.learner.integrator_coeffs: {e!r}") from e
    repo = os.environ.get("ADAPTIVE_REPO", "/repo")
    f = getattr(m, "__file__", None)
    if not f or not os.path.realpath(f).startswith(os.path.realpath(repo) + os.sep):
        raise TraceConstsError(f"{m.__name__} was imported from {f}, not from {repo}")
    return m


def _get(m, name):
    try:
        return getattr(m, name)
    except Exception as e:  # noqa: BLE001
        raise TraceConstsError(f"integrator_coeffs.{name} is not available: {e!r}") from e


def _flt(x, where) -> float:
    """A python float out of a float / numpy floating scalar; nothing else."""
    import numpy as np
    if isinstance(x, bool) or not isinstance(x, (float, np.floating)):
        raise TraceConstsError(f"{where}: expected a float, got {type(x).__name__} {x!r}")
    v = float(x)
    if not math.isfinite(v):
        raise TraceConstsError(f"{where}: non-finite value {v!r}")
    return v


def _vec(a, n, where) -> list[float]:
    import numpy as np
    if not isinstance(a, np.ndarray) or a.dtype != np.float64 or a.shape != (n,):
        raise TraceConstsError(
            f"{where}: expected float64 array of shape ({n},), got "
            f"{type(a).__name__} {getattr(a, 'dtype', None)} {getattr(a, 'shape', None)}")
    return [_flt(x, f"{where}[{i}]") for i, x in enumerate(a)]


def _mat(a, n, where) -> list[list[float]]:
    import numpy as np
    if not isinstance(a, np.ndarray) or a.dtype != np.float64 or a.shape != (n, n):
        raise TraceConstsError(
            f"{where}: expected float64 array of shape ({n},{n}), got "
            f"{type(a).__name__} {getattr(a, 'dtype', None)} {getattr(a, 'shape', None)}")
    return [[_flt(x, f"{where}[{i}][{j}]") for j, x in enumerate(row)] for i, row in enumerate(a)]


def _seq4(a, where):
    if not isinstance(a, (list, tuple)) or len(a) != 4:
        raise TraceConstsError(f"{where}: expected a sequence of 4 items, got {type(a).__name__} of length "
                               f"{len(a) if hasattr(a, '__len__') else '?'}")
    return list(a)


def collect() -> dict:
    """The raw values (python floats / ints / Fractions), shape-checked."""
    m = load_module()
    ns = _get(m, "ns")
    if not isinstance(ns, (tuple, list)) or tuple(ns) != NS or any(type(n) is not int for n in ns):
        raise TraceConstsError(f"ns: expected {NS}, got {ns!r}")
    r: dict = {"ns": list(NS)}
    r["xi"] = [_vec(a, n, f"xi[{d}]") for d, (a, n) in enumerate(zip(_seq4(_get(m, "xi"), "xi"), NS))]
    r["V"] = [_mat(a, n, f"V[{d}]") for d, (a, n) in enumerate(zip(_seq4(_get(m, "V"), "V"), NS))]
    r["V_inv"] = [_mat(a, n, f"V_inv[{d}]") for d, (a, n) in enumerate(zip(_seq4(_get(m, "V_inv"), "V_inv"), NS))]
    r["T_left"] = _mat(_get(m, "T_left"), 33, "T_left")
    r["T_right"] = _mat(_get(m, "T_right"), 33, "T_right")
    newton = _get(m, "newton")
    if not callable(newton):
        raise TraceConstsError("newton is not callable")
    nc = []
    for n in NS:
        try:
            c = newton(n)
        except Exception as e:  # noqa: BLE001
            raise TraceConstsError(f"newton({n}) raised {e!r}") from e
        nc.append(_vec(c, n + 1, f"newton({n})"))
    r["newton_c"] = nc
    r["b_def"] = [_vec(a, n + 1, f"b_def[{d}]") for d, (a, n) in enumerate(zip(_seq4(_get(m, "b_def"), "b_def"), NS))]
    r["alpha"] = _vec(_get(m, "alpha"), 33, "alpha")
    r["gamma"] = _vec(_get(m, "gamma"), 33, "gamma")
    for s in ("eps", "hint", "min_sep"):
        r[s] = _flt(_get(m, s), s)
    nd = _get(m, "ndiv_max")
    if type(nd) is not int or nd < 0:
        raise TraceConstsError(f"ndiv_max: expected a non-negative int, got {nd!r}")
    r["ndiv_max"] = nd
    r["Vcond"] = [_flt(x, f"Vcond[{d}]") for d, x in enumerate(_seq4(_get(m, "Vcond"), "Vcond"))]
    legendre = _get(m, "legendre")
    if not callable(legendre):
        raise TraceConstsError("legendre is not callable")
    try:
        L = legendre(NLEG)
    except Exception as e:  # noqa: BLE001
        raise TraceConstsError(f"legendre({NLEG}) raised {e!r}") from e
    if not isinstance(L, list) or len(L) != NLEG:
        raise TraceConstsError(f"legendre({NLEG}): expected a list of {NLEG} polynomials")
    for i, p in enumerate(L):
        if not isinstance(p, list) or len(p) != i + 1 or any(type(c) is not Fraction for c in p):
            raise TraceConstsError(f"legendre({NLEG})[{i}]: expected a list of {i + 1} Fractions")
    r["legendre34"] = [list(p) for p in L]
    return r


# ---------------------------------------------------------------------------
def dyadic(x: float) -> tuple[int, int]:
    """x == m * 2**e exactly, m odd or (m, e) == (0, 0)."""
    if not math.isfinite(x):
        raise TraceConstsError(f"non-finite float {x!r}")
    num, den = x.as_integer_ratio()
    if num == 0:
        return (0, 0)
    e = -(den.bit_length() - 1)
    if den != 1 << (-e):
        raise TraceConstsError(f"denominator of {x!r} is not a power of two")
    while num % 2 == 0:
        num //= 2
        e += 1
    assert Fraction(num) * Fraction(2) ** e == Fraction(x)
    return (num, e)


def _map_floats(v, f):
    if isinstance(v, list):
        return [_map_floats(x, f) for x in v]
    if isinstance(v, float):
        return f(v)
    return v


FLOAT_KEYS = ("xi", "V", "V_inv", "T_left", "T_right", "newton_c", "b_def", "alpha", "gamma",
              "eps", "hint", "min_sep", "Vcond")


def export() -> dict:
    """All exported values as exact python objects: Fractions (ns: ints)."""
    r = collect()
    out = {"ns": r["ns"], "ndiv_max": Fraction(r["ndiv_max"]), "legendre34": r["legendre34"]}
    for k in FLOAT_KEYS:
        out[k] = _map_floats(r[k], Fraction)
    return out


# ---------------------------------------------------------------------------
def _z(n: int) -> str:
    return str(n) if n >= 0 else f"({n})"


def _dy(x: float) -> str:
    m, e = dyadic(x)
    return f"({_z(m)}, {_z(e)})"


def _q(fr: Fraction) -> str:
    if fr.denominator <= 0:
        raise TraceConstsError("non-positive denominator")
    return f"{_z(fr.numerator)} # {fr.denominator}"


def _lst(items, sep="; "):
    return "[" + sep.join(items) + "]"


def _vec_s(v):
    return _lst([_dy(x) for x in v])


def _mat_s(mx, ind="   "):
    return "[\n" + ";\n".join(ind + _vec_s(row) for row in mx) + "]"


HEADER = """(* GENERATED on every check by harness/avh/trace_consts.py from the working tree
   of $ADAPTIVE_REPO (adaptive/learner/integrator_coeffs.py).  Do not edit.
   Floats are exact dyadic pairs (m, e) meaning m * 2^e, m odd or (0, 0);
   legendre34 are the exact rationals returned by legendre(34).  Data only. *)
From Coq Require Import ZArith QArith List.
Import ListNotations.
Local Open Scope Z_scope.

"""


def consts_text(r: dict | None = None) -> str:
    r = r or collect()
    o = [HEADER]
    o.append("Definition ns : list nat := " + _lst([str(n) for n in r["ns"]]) + "%nat.\n")
    o.append("Definition xi : list (list (Z * Z)) := [\n" + ";\n".join("  " + _vec_s(v) for v in r["xi"]) + "].\n")
    for k in ("V", "V_inv"):
        o.append(f"Definition {k} : list (list (list (Z * Z))) := [\n"
                 + ";\n".join("  " + _mat_s(mx, "    ") for mx in r[k]) + "].\n")
    for k in ("T_left", "T_right"):
        o.append(f"Definition {k} : list (list (Z * Z)) := " + _mat_s(r[k], "  ") + ".\n")
    for k in ("newton_c", "b_def"):
        o.append(f"Definition {k} : list (list (Z * Z)) := [\n" + ";\n".join("  " + _vec_s(v) for v in r[k]) + "].\n")
    for k in ("alpha", "gamma", "Vcond"):
        o.append(f"Definition {k} : list (Z * Z) := " + _vec_s(r[k]) + ".\n")
    for k in ("eps", "hint", "min_sep"):
        o.append(f"Definition {k} : Z * Z := " + _dy(r[k]) + ".\n")
    o.append(f"Definition ndiv_max : Z := {_z(r['ndiv_max'])}.\n")
    o.append("\nLocal Open Scope Q_scope.\n")
    o.append("Definition legendre34 : list (list Q) := [\n"
             + ";\n".join("  " + _lst([_q(c) for c in p]) for p in r["legendre34"]) + "].\n")
    return "\n".join(o)


def write_if_changed(path: Path, text: str) -> bool:
    path.parent.mkdir(parents=True, exist_ok=True)
    if path.exists() and path.read_text() == text:
        return False
    tmp = path.with_name(path.name + ".tmp%d" % os.getpid())
    tmp.write_text(text)
    os.replace(tmp, path)
    return True


def regenerate(out_dir=None) -> list[Path]:
    """Rewrite <out_dir>/Consts.v (default coq/gen) when its text changed."""
    path = Path(out_dir) / "Consts.v" if out_dir else GEN / "Consts.v"
    try:
        text = consts_text()
    except TraceConstsError:
        raise
    except Exception as e:  # noqa: BLE001 - fail closed
        raise TraceConstsError(f"export failed: {e!r}") from e
    write_if_changed(path, text)
    return [path]


if __name__ == "__main__":
    import sys
    for p in regenerate(sys.argv[1] if len(sys.argv) > 1 else None):
        print(p)
    sys.exit(0)
