"""C01 -- Learner1D: reported loss is the true worst-interval loss of the current data.

proof          : coq/theories/Props/C01.v about Model/L1D.v (generic number structure, abstract loss function)
correspondence : Model/L1D.v executed with IEEE doubles vs the real Learner1D, bit for bit, after every op
search         : from-scratch recomputation of every loss from learner.data (oracle_l1d.C01Oracle) + interpolation rule
"""
from __future__ import annotations

import json
import math

from .. import impl_l1d as I
from ..core import Check
from ..oracle_l1d import C01Oracle, check_combined, check_reported_loss

THEOREMS = {n: "Props.C01" for n in [
    "C01_structure_inv", "C01_values_inv", "C01_reported_loss", "C01_combined_interp", "C01_loss_is_max", "C01_sweep_resets_all", "C01_discard_resets", "C01_example",
    "C01_scale_bracket", "C01_factor1_exact", "C01_scale_bracket_vec", "C01_factor1_exact_vec", "C01_bracket_example", "C01_bracket_example_vec"]}


# very wide domains: _dx_eps (2 * max|bound| * machine eps) is then comparable to widths of ordinary intervals,
# so the "below float resolution -> loss 0" cut-off of _get_loss_in_interval becomes visible
WIDE_BOUNDS = [(0.0, 2e14), (-3e13, 1e13), (1e12, 5e15)]


def gen_cfg(rng, quick=True):
    cfg = {"func": rng.choice(list(I.FUNCS)), "bounds": list(rng.choice(I.BOUNDS + WIDE_BOUNDS if rng.random() < 0.25 else I.BOUNDS)),
           "loss": rng.choice(I.LOSSES + ["resolution_max"]), "factor": rng.choice([1, 2, 2])}
    if cfg["loss"] == "abs_min_log" and cfg["func"] in ("step", "neg", "vec_step"):
        cfg["loss"] = "curvature"       # log of 0 / negative values: nan losses, outside the property
    return cfg


def features(steps):
    """What makes a history non-trivial for C01."""
    cut = rescale = batch = False
    for op, out, o in steps:
        if o is None:
            continue
        real = {iv for iv, _ in o["los"]}
        comb = {iv for iv, _ in o["losc"]}
        if any(iv not in real and not math.isinf(v) for iv, v in o["losc"]):
            cut = True          # a pending point cuts an evaluated interval
        if op[0] == "tell_many" and (op[2] or len(op[1]) > 2):
            batch = True
    ys = [o["loss_real"] for _, _, o in steps if o]
    return cut, batch


def run_case(chk, cfg, rng, nops, ops=None, origin=""):
    l, rec = I.make_learner(cfg)
    orc = C01Oracle(l, rec.f)
    steps = []
    nres = 0
    it = ops if ops is not None else range(nops)
    for item in it:
        op = I.norm_op(item) if ops is not None else I.gen_next_op(rng, l, cfg)
        sy0 = l._oldscale[1]
        try:
            out = I.apply_op(l, op)
        except OverflowError:
            raise
        except Exception as e:      # the implementation failed on a legal history
            orc.errors.append(("internal_error", f"{op[0]} raised {type(e).__name__}: {e}"))
            steps.append((op, ([], []), None))
            break
        if l._oldscale[1] != sy0:
            nres += 1
        o = I.obs_of(l)
        orc.check()
        check_combined(l, orc.errors)
        check_reported_loss(l, o, orc.errors)
        steps.append((op, out, o))
        if any(not e[0].startswith("F14") for e in orc.errors):
            break
        if len(orc.errors) > 3:
            del orc.errors[3:]
    return l, rec, steps, orc, nres


def run(chk: Check) -> int:
    chk.prove(["theories/Props/C01.vo", "theories/Run/L1DRun.vo", "theories/Run/L1DLegal.vo"], THEOREMS)
    ncases = 250 if chk.quick else 4000
    maxlen = 28 if chk.quick else 100
    cases, metas = [], []
    hist = {}
    stats = {"rescales": 0, "cut_interval": 0, "batch": 0, "vector": 0, "nn1": 0}

    def add(cfg, l, rec, steps, orc, nres, origin):
        cases.append(I.case_term(l, rec, steps))
        ops = [I.op_json(s[0]) for s in steps]
        metas.append({"cfg": cfg, "ops": ops, "origin": origin})
        cut, batch = features(steps)
        stats["rescales"] += nres
        stats["cut_interval"] += cut
        stats["batch"] += batch
        stats["vector"] += cfg["func"].startswith("vec")
        stats["nn1"] += l.nth_neighbors
        chk.note_case((cfg, ops), cut and nres > 0)
        for s in steps:
            hist[s[0][0]] = hist.get(s[0][0], 0) + 1
        if len(steps) > 5:
            chk.sample({"cfg": cfg, "ops": ops[:8]})
        errs = [e for e in orc.errors if not e[0].startswith("F14")][:1] or orc.errors[:1]
        for clause, msg in errs:
            sig = f"C01:{clause}"
            chk.fail(sig, f"Learner1D({cfg}): {msg}", {"cfg": cfg, "ops": ops})

    for f in sorted((chk.work.parents[1] / "corpus" / "C01").glob("*.json")):
        d = json.loads(f.read_text())
        l, rec, steps, orc, nres = run_case(chk, d["cfg"], None, 0, ops=d["ops"])
        add(d["cfg"], l, rec, steps, orc, nres, f.name)
    for k in range(ncases):
        rng = chk.rng("case", k)
        cfg = gen_cfg(rng)
        try:
            l, rec, steps, orc, nres = run_case(chk, cfg, rng, rng.randint(3, maxlen))
        except OverflowError:
            continue        # loss * 1e12 overflows int(): outside the property (DESIGN C01 N)
        add(cfg, l, rec, steps, orc, nres, f"seed{chk.seed}/{k}")
    mism, legal, errors = chk.coq_cases("cases", I.PREAMBLE + "\nFrom AV Require Import Run.L1DLegal.", "case", cases, "check", "is_legal", shard=12)
    for e in errors:
        chk.broke("correspondence", "Model/L1D.v cases could not be evaluated", e[-600:])
    for c, s in mism[:5]:
        m = metas[c]
        chk.broke("correspondence", f"Model/L1D.v vs Learner1D: case {m['origin']} step {s}",
                  {"cfg": m["cfg"], "ops": m["ops"][:s + 1]})
    chk.extra.update({"op_histogram": hist, "feature_counts": stats, "cases_compared_in_coq": len(cases),
                      "mismatches": len(mism), "legal_histories_per_coq": legal, "exhaustive": False})
    chk.log(f"correspondence: {len(cases)} cases, {len(mism)} mismatches; oracle failures {len(chk.failures)}; {stats}")
    return chk.finish(
        rule="histories generated by driving the real Learner1D (8 function shapes incl. discontinuous, 10^12 range growth, vector "
             "outputs, constant; 5 bounds; 7 shipped losses with 0/1 neighbours; factor 1 or 2; ask/tell/tell_many(batch and "
             "incremental)/tell_pending/remove_unfinished, unsolicited and repeated points); non-trivial = a pending point cut an "
             "evaluated interval and at least one rescale sweep happened; distinct by (config, op list)",
        assumptions=["hand-written model Model/L1D.v tied to learner1D.py by the sampled bit-exact correspondence",
                     "loss_per_interval is an oracle: the model looks up the recorded answers by exact arguments",
                     "theorems are generic in the number structure (order laws); IEEE doubles satisfy them only without NaN"])


def replay(doc) -> int:
    bad = 0
    items = [f.get("replay") for f in doc.get("failing_inputs", [])] + \
            [b.get("detail") for b in doc.get("no_longer_checks", []) if isinstance(b.get("detail"), dict)]
    for r in items:
        if not r or "cfg" not in r:
            continue
        l, rec, steps, orc, _ = run_case(None, r["cfg"], None, 0, ops=r["ops"])
        print("replayed", r["cfg"], len(steps), "ops ->", orc.errors[:2] or "oracle silent")
        bad += bool(orc.errors)
    return 1 if bad else 0
