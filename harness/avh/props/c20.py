"""C20 -- geometric and loss primitives compute what their names say
(+ the constants part of C08).

Deciding method (DESIGN 5, 7): the translator harness/avh/trace.py executes the
REAL function bodies on symbolic operands and rewrites coq/gen/Prims.v on every
run; the theorems of Props/C20.v are about those regenerated definitions and are
re-checked by Coq whenever the generated text changed.  The quadrature constants
are exported into coq/gen/Consts.v and checked by computation inside Coq
(Props/C08consts.v).

This module adds
 * the translator self-check (correspondence): every traced expression tree is
   evaluated on random doubles and compared with the real function called on the
   same doubles (real numpy / LAPACK / scipy, nothing substituted);
 * the search: the real functions on float inputs (dims 1..5) and the real
   function bodies on exact Fraction inputs (numpy's float coercions replaced by
   the translator's stand-ins) against from-scratch exact oracles (Leibniz
   determinant, linear-solve circumcentre and barycentric coordinates, Gram
   determinant volumes, explicit area formulas), plus invariances;
 * reproduction of the platform defects F7, F7b, F8.
"""
from __future__ import annotations

import itertools
import json
import math
import re
import time
import types
from fractions import Fraction as F

import numpy as np

from .. import c20_consts_oracle, trace, trace_consts
from ..core import COQ, STD_AXIOMS_OK, Check

PROPS_FILE = COQ / "theories" / "Props" / "C20.v"
REALS_OK = frozenset(STD_AXIOMS_OK)

SIG_F7 = "C20:F7 learner2D.choose_point_in_triangle raises on numpy>=2.x (np.cross of 2-vectors)"
SIG_F7B = "C20:F7b learner2D.default_loss imports removed scipy.interpolate.interpnd"
SIG_F8 = "C20:F8 learnerND.std_loss float() of 1-element array raises"


def theorem_names():
    return re.findall(r"(?m)^Theorem (C20_\w+)", PROPS_FILE.read_text())


# --------------------------------------------------------------------------
# exact linear algebra over Fractions (the oracles), written from scratch
# --------------------------------------------------------------------------
def perm_sign(p):
    s, p = 1, list(p)
    for i in range(len(p)):
        while p[i] != i:
            j = p[i]
            p[i], p[j] = p[j], p[i]
            s = -s
    return s


def det_leibniz(M):
    n = len(M)
    tot = F(0)
    for p in itertools.permutations(range(n)):
        t = F(perm_sign(p))
        for i in range(n):
            t *= M[i][p[i]]
        tot += t
    return tot


def solve_exact(A, b):
    """Gauss-Jordan over Fractions; None when singular."""
    n = len(A)
    M = [list(map(F, A[i])) + [F(b[i])] for i in range(n)]
    for c in range(n):
        piv = next((r for r in range(c, n) if M[r][c] != 0), None)
        if piv is None:
            return None
        M[c], M[piv] = M[piv], M[c]
        pv = M[c][c]
        M[c] = [x / pv for x in M[c]]
        for r in range(n):
            if r != c and M[r][c] != 0:
                f = M[r][c]
                M[r] = [x - f * y for x, y in zip(M[r], M[c])]
    return [M[i][n] for i in range(n)]


def vsub(a, b):
    return [x - y for x, y in zip(a, b)]


def vdot(a, b):
    return sum((x * y for x, y in zip(a, b)), F(0))


def circumcentre(P):
    """Point equidistant from all P[i]: 2 (p_i - p_0).c = |p_i|^2 - |p_0|^2."""
    A = [[2 * x for x in vsub(p, P[0])] for p in P[1:]]
    b = [vdot(p, p) - vdot(P[0], P[0]) for p in P[1:]]
    return solve_exact(A, b)


def barycentric(P, q):
    """alpha with q - p0 = sum alpha_i (p_i - p_0)."""
    d = len(P) - 1
    cols = [vsub(p, P[0]) for p in P[1:]]
    A = [[cols[j][i] for j in range(d)] for i in range(d)]
    return solve_exact(A, vsub(q, P[0]))


def gram_vol2(P):
    """Squared k-volume of the simplex with vertices P (any embedding dimension)."""
    E = [vsub(p, P[0]) for p in P[1:]]
    k = len(E)
    G = [[vdot(E[i], E[j]) for j in range(k)] for i in range(k)]
    return det_leibniz(G) / F(math.factorial(k)) ** 2


def simplex_det(P, rel_last=True):
    if rel_last:
        return det_leibniz([vsub(p, P[-1]) for p in P[:-1]])
    return det_leibniz([vsub(p, P[0]) for p in P[1:]])


def tri_area_exact(a, b, c):
    return abs((b[0] - a[0]) * (c[1] - a[1]) - (b[1] - a[1]) * (c[0] - a[0])) / 2


# --------------------------------------------------------------------------
# input generators
# --------------------------------------------------------------------------
def rq(rng, kind):
    if kind == "lattice":
        return F(rng.randint(-4, 4))
    if kind == "dyadic":
        return F(rng.randint(-200, 200), 2 ** rng.randint(0, 6))
    return F(rng.randint(-60, 60), rng.randint(1, 12))


def rpoints(rng, n, d, kind):
    return [[rq(rng, kind) for _ in range(d)] for _ in range(n)]


def nondeg_simplex(rng, d, kind, emb=None, tries=200, near_degenerate=False):
    """d+1 points in dimension emb (default d) spanning a d-simplex that is not
    badly conditioned; near_degenerate squeezes the last vertex towards the
    opposite face by 2^-k."""
    emb = emb or d
    for _ in range(tries):
        P = rpoints(rng, d + 1, emb, kind)
        if near_degenerate and d >= 1:
            # move the last vertex to (centroid of the others) + tiny * offset
            cen = [sum(p[j] for p in P[:-1]) / d for j in range(emb)]
            eps = F(1, 2 ** rng.randint(8, 16))
            P[-1] = [cen[j] + eps * (P[-1][j] - cen[j]) for j in range(emb)]
        v2 = gram_vol2(P)
        scale = max(max(abs(x) for p in P for x in p), F(1))
        lim = F(1, 10 ** 4) if not near_degenerate else F(1, 10 ** 14)
        if v2 > lim * scale ** (2 * d):
            return P
    return None


def fl(P):
    if isinstance(P, F):
        return float(P)
    if isinstance(P, (list, tuple)):
        return [fl(x) for x in P]
    return P


def ser(x):
    if isinstance(x, dict):
        return {k: ser(v) for k, v in x.items()}
    if isinstance(x, F):
        return f"{x.numerator}/{x.denominator}"
    if isinstance(x, (list, tuple)):
        return [ser(y) for y in x]
    if isinstance(x, (np.floating, float)):
        return float(x)
    if isinstance(x, (np.integer, int)):
        return int(x)
    return x if x is None or isinstance(x, (str, bool)) else repr(x)


def unser(x):
    if isinstance(x, str) and re.fullmatch(r"-?\d+/\d+", x):
        return F(x)
    if isinstance(x, list):
        return [unser(y) for y in x]
    if isinstance(x, dict):
        return {k: unser(v) for k, v in x.items()}
    return x


def close(got, want, rel=1e-9, floor=0.0):
    """|got - want| <= rel*|want| + floor ; want exact (Fraction) or float."""
    g, w = float(got), float(want)
    if math.isnan(g) or math.isinf(g):
        return math.isinf(w) and g == w
    return abs(g - w) <= rel * abs(w) + floor


def same(got, want, rel=1e-12, floor=0.0):
    """Exact-mode comparison: equality when the function stayed exact, else
    (it went through a float constant or a sqrt) a tight tolerance."""
    if isinstance(got, (F, int)) and not isinstance(got, bool):
        return got == want
    return close(got, want, rel, floor)


def sq_close(got, want2, rel=1e-9, floor=0.0):
    """got >= 0 and got^2 ~ want2 (avoids an inexact sqrt on the oracle side)."""
    g = float(got)
    return g >= 0 and abs(g * g - float(want2)) <= 2 * rel * float(want2) + floor


# --------------------------------------------------------------------------
# the tests.  Each: name -> (gen(rng, k) -> args | None, check(mods, args) -> error string | None | "skip")
# args are JSON-serialisable after ser(); check gets them after unser().
# --------------------------------------------------------------------------
KINDS = ("rational", "lattice", "dyadic")
TESTS: dict = {}


def test(name):
    def deco(cls):
        TESTS[name] = cls
        return cls
    return deco


def both(mods, fn_call, exact_check, float_check):
    """Run fn_call on exact Fractions (real body under stand-ins) and on floats
    (real function, nothing substituted)."""
    with trace.exact_mode(mods):
        e = exact_check(fn_call(True))
    if e:
        return "exact run: " + e
    e = float_check(fn_call(False))
    if e:
        return "float run: " + e
    return None


@test("triangulation.fast_det")
class T_fast_det:
    @staticmethod
    def gen(rng, k):
        n = [2, 3, 4, 5][k % 4]
        return {"M": rpoints(rng, n, n, KINDS[(k // 4) % 3])}

    @staticmethod
    def check(mods, a):
        M = a["M"]
        want = det_leibniz(M)
        scale = float(max(max(abs(x) for r in M for x in r), 1)) ** len(M)
        f = mods["triangulation"].fast_det
        return both(mods, lambda ex: f(M if ex else fl(M)),
                    lambda g: None if same(g, want) else f"fast_det = {g}, Leibniz determinant = {want}",
                    lambda g: None if close(g, want, 1e-9, 1e-11 * scale) else f"fast_det = {g!r}, Leibniz determinant = {float(want)!r}")


@test("triangulation.fast_norm")
class T_fast_norm:
    @staticmethod
    def gen(rng, k):
        return {"v": [rq(rng, KINDS[k % 3]) for _ in range(1 + k % 6)]}

    @staticmethod
    def check(mods, a):
        v = a["v"]
        want2 = vdot(v, v)
        f = mods["triangulation"].fast_norm
        return both(mods, lambda ex: f(v if ex else fl(v)),
                    lambda g: None if sq_close(g, want2, 1e-12) else f"fast_norm^2 = {float(g) ** 2}, sum of squares = {want2}",
                    lambda g: None if sq_close(g, want2, 1e-12) else f"fast_norm^2 = {float(g) ** 2}, sum of squares = {float(want2)}")


def _circum_check(P, got, exact):
    c, r = got
    want = circumcentre(P)
    if want is None:
        return "skip"
    r2 = vdot(vsub(want, P[0]), vsub(want, P[0]))
    scale = float(max(max(abs(x) for p in P for x in p), 1))
    if exact:
        if not all(same(x, w) for x, w in zip(c, want)):
            return f"centre {[str(x) for x in c]} but the point equidistant from the vertices is {[str(x) for x in want]}"
    else:
        for x, w in zip(c, want):
            if not close(x, w, 1e-8, 1e-8 * scale):
                return f"centre {[float(x) for x in c]} but the point equidistant from the vertices is {[float(x) for x in want]}"
    if not sq_close(r, r2, 1e-8, 1e-12):
        return f"radius^2 {float(r) ** 2} but squared distance centre-vertex is {float(r2)}"
    return None


@test("triangulation.circumsphere")
class T_circumsphere:
    @staticmethod
    def gen(rng, k):
        d = 1 + k % 5
        P = nondeg_simplex(rng, d, KINDS[(k // 5) % 3])
        return P and {"P": P}

    @staticmethod
    def check(mods, a):
        P = a["P"]
        f = mods["triangulation"].circumsphere
        return both(mods, lambda ex: f(P if ex else fl(P)),
                    lambda g: _circum_check(P, g, True), lambda g: _circum_check(P, g, False))


@test("triangulation.fast_2d_circumcircle")
class T_fast2dcc:
    @staticmethod
    def gen(rng, k):
        P = nondeg_simplex(rng, 2, KINDS[k % 3])
        return P and {"P": P}

    @staticmethod
    def check(mods, a):
        P = a["P"]
        f = mods["triangulation"].fast_2d_circumcircle
        e = _circum_check(P, f(P), True)          # the unmodified function is exact on Fractions
        return e and "Fraction run: " + e or (lambda e2: e2 and "float run: " + e2)(_circum_check(P, f(fl(P)), False))


@test("triangulation.fast_3d_circumcircle")
class T_fast3dcc:
    @staticmethod
    def gen(rng, k):
        P = nondeg_simplex(rng, 3, KINDS[k % 3])
        return P and {"P": P}

    @staticmethod
    def check(mods, a):
        P = a["P"]
        f = mods["triangulation"].fast_3d_circumcircle
        e = _circum_check(P, f(P), True)
        return e and "Fraction run: " + e or (lambda e2: e2 and "float run: " + e2)(_circum_check(P, f(fl(P)), False))


EPS8 = F(1e-8)


def _pis_expected(alpha, eps, dim2):
    """Barycentric characterisation; None when a coordinate is too close to a threshold
    to be decided robustly in floating point."""
    s = sum(alpha, F(0))
    margins = [abs(x + eps) for x in alpha] + [abs(s - 1 - eps)]
    if dim2:
        margins.append(abs(alpha[0] - 1 - eps))
        res = (alpha[0] >= -eps and alpha[0] <= 1 + eps and alpha[1] >= -eps and s <= 1 + eps)
    else:
        res = all(x > -eps for x in alpha) and s < 1 + eps
    return res, min(margins)


@test("triangulation.point_in_simplex")
class T_pis:
    @staticmethod
    def gen(rng, k):
        d = 2 + k % 4
        P = nondeg_simplex(rng, d, KINDS[(k // 4) % 3])
        if P is None:
            return None
        mode = (k // 12) % 4
        if mode == 0:      # random barycentric coordinates, inside or outside
            al = [F(rng.randint(-6, 12), 10) for _ in range(d)]
        elif mode == 1:    # on / just around a face: coordinate = -eps +- delta or 0
            al = [F(rng.randint(1, 9), 10 * d) for _ in range(d)]
            j = rng.randrange(d)
            al[j] = rng.choice([F(0), -EPS8 + F(1, 10 ** 10), -EPS8 - F(1, 10 ** 10), -EPS8 / 2, -2 * EPS8])
        elif mode == 2:    # around the face opposite p0: sum = 1 + eps +- delta
            al = [F(rng.randint(1, 9), 10) for _ in range(d)]
            s = sum(al)
            tgt = 1 + rng.choice([F(0), EPS8 + F(1, 10 ** 10), EPS8 - F(1, 10 ** 10), EPS8 / 2, 2 * EPS8])
            al = [x * tgt / s for x in al]
        else:              # a vertex or the centroid
            al = rng.choice([[F(0)] * d, [F(1, d + 1)] * d, [F(1)] + [F(0)] * (d - 1)])
        q = [P[0][j] + sum(al[i] * (P[i + 1][j] - P[0][j]) for i in range(d)) for j in range(len(P[0]))]
        return {"P": P, "q": q}

    @staticmethod
    def check(mods, a):
        P, q = a["P"], a["q"]
        d = len(P) - 1
        al = barycentric(P, q)
        if al is None:
            return "skip"
        want, margin = _pis_expected(al, EPS8, d == 2)
        Tm = mods["triangulation"]
        with trace.exact_mode(mods):
            got = Tm.point_in_simplex(trace.s_array(q), P, EPS8)
        if bool(got) != want:
            return (f"exact run: point_in_simplex = {bool(got)} but barycentric coordinates {[str(x) for x in al]} "
                    f"(eps = 1e-8) say {want}")
        if margin > F(1, 10 ** 9):   # doubles decide robustly only away from the thresholds
            got = Tm.point_in_simplex(np.array(fl(q)), fl(P))
            if bool(got) != want:
                return f"float run: point_in_simplex = {bool(got)} but barycentric coordinates {[float(x) for x in al]} say {want}"
            if d == 2:
                got = Tm.fast_2d_point_in_simplex(tuple(fl(q)), [tuple(p) for p in fl(P)])
                if bool(got) != want:
                    return f"float run: fast_2d_point_in_simplex = {bool(got)} but barycentric coordinates say {want}"
        return None


@test("triangulation.orientation")
class T_orientation:
    @staticmethod
    def gen(rng, k):
        d = 2 + k % 3
        kind = KINDS[(k // 3) % 3]
        face = rpoints(rng, d, d, kind)
        if k % 7 == 0:    # origin in the hyperplane of the face
            w = [F(rng.randint(0, 5), 5) for _ in range(d)]
            s = sum(w) or F(1)
            o = [sum(w[i] / s * face[i][j] for i in range(d)) for j in range(d)] if sum(w) else list(face[0])
        else:
            o = [rq(rng, kind) for _ in range(d)]
        return {"face": face, "o": o}

    @staticmethod
    def check(mods, a):
        face, o = a["face"], a["o"]
        dt = det_leibniz([vsub(f, o) for f in face])
        want = (dt > 0) - (dt < 0)
        f = mods["triangulation"].orientation
        with trace.exact_mode(mods):
            got = f(face, trace.s_array(o))
        if got != want:
            return f"exact run: orientation = {got}, sign of the exact determinant = {want}"
        scale = float(max(max(abs(x) for p in face + [o] for x in p), 1)) ** len(face)
        if dt == 0 or abs(dt) > F(1, 10 ** 9) * F(scale):
            got = f(np.array(fl(face)), np.array(fl(o)))
            if dt != 0 and got != want:
                return f"float run: orientation = {got}, sign of the exact determinant = {want}"
            if dt == 0 and abs(got) not in (0, 1):
                return f"float run: orientation = {got} is not a sign"
        return None


def _vol_args(rng, k, dims=5):
    d = 1 + k % dims
    nd = (k // (3 * dims)) % 4 == 3
    P = nondeg_simplex(rng, d, KINDS[(k // dims) % 3], near_degenerate=nd)
    return P and {"P": P, "t": [rq(rng, "rational") for _ in range(d)], "s": F(rng.choice([-3, -1, 2, 5]), rng.choice([1, 2, 7])),
                  "perm": rng.sample(range(d + 1), d + 1)}


@test("learnerND.volume")
class T_volume:
    gen = staticmethod(_vol_args)

    @staticmethod
    def check(mods, a):
        P, t, s, perm = a["P"], a["t"], a["s"], a["perm"]
        d = len(P) - 1
        want = abs(simplex_det(P)) / math.factorial(d)
        f = mods["learnerND"].volume
        variants = {
            "": (P, want),
            " relabelled": ([P[i] for i in perm], want),
            " translated": ([[x + y for x, y in zip(p, t)] for p in P], want),
            f" scaled by {s}": ([[s * x for x in p] for p in P], abs(s) ** d * want),
        }
        if d == 2:
            c, sn = F(3, 5), F(4, 5)
            variants[" rotated"] = ([[c * p[0] - sn * p[1], sn * p[0] + c * p[1]] for p in P], want)
            variants[" reflected"] = ([[p[0], -p[1]] for p in P], want)
        scale = float(max(max(abs(x) for p in P for x in p), 1)) ** d
        for tag, (Q, w) in variants.items():
            with trace.exact_mode(mods):
                g = f(Q)
            if not same(g, w):
                return f"exact run: volume{tag} = {g}, |det|/{d}! = {w}"
            g = f(fl(Q))
            if not close(g, w, 1e-9, 1e-11 * scale * max(1.0, float(abs(s)) ** d)):
                return f"float run: volume{tag} = {float(g)!r}, |det|/{d}! = {float(w)!r}"
        return None


class FakeTri:
    def __init__(self, dim, P):
        self.dim, self.P = dim, P

    def get_vertices(self, idx):
        return [self.P[i] for i in idx]


@test("triangulation.Triangulation.volume")
class T_trivolume:
    @staticmethod
    def gen(rng, k):
        d = 2 + k % 4
        P = nondeg_simplex(rng, d, KINDS[(k // 4) % 3])
        return P and {"P": P}

    @staticmethod
    def check(mods, a):
        P = a["P"]
        d = len(P) - 1
        want = abs(simplex_det(P, rel_last=False)) / math.factorial(d)
        vol = mods["triangulation"].Triangulation.volume
        with trace.exact_mode(mods):
            g = vol(FakeTri(d, [tuple(p) for p in P]), tuple(range(d + 1)))
        if not same(g, want):
            return f"exact run: Triangulation.volume = {g}, |det|/{d}! = {want}"
        # the real class on a real triangulation of these vertices
        try:
            tri = mods["triangulation"].Triangulation([tuple(p) for p in fl(P)])
        except Exception as e:  # noqa: BLE001
            return f"Triangulation({fl(P)}) raised {type(e).__name__}: {e}"
        if len(tri.simplices) != 1:
            return f"Triangulation of {d + 1} vertices has {len(tri.simplices)} simplices"
        g = tri.volume(next(iter(tri.simplices)))
        scale = float(max(max(abs(x) for p in P for x in p), 1)) ** d
        if not close(g, want, 1e-9, 1e-11 * scale) or not isinstance(g, float):
            return f"float run: Triangulation.volume = {g!r}, |det|/{d}! = {float(want)!r}"
        return None


@test("triangulation.simplex_volume_in_embedding")
class T_sve:
    @staticmethod
    def gen(rng, k):
        combos = [(2, 2)] + [(n, kk) for n in (3, 4, 5) for kk in range(1, n + 1)]
        n, kk = combos[k % len(combos)]
        P = nondeg_simplex(rng, kk, KINDS[(k // len(combos)) % 3], emb=n)
        return P and {"P": P}

    @staticmethod
    def check(mods, a):
        P = a["P"]
        want2 = gram_vol2(P)
        f = mods["triangulation"].simplex_volume_in_embedding
        scale = float(max(max(abs(x) for p in P for x in p), 1)) ** (2 * (len(P) - 1))
        with trace.exact_mode(mods):
            g = f(P)
        if not sq_close(g, want2, 1e-10, 1e-13 * scale):
            return f"exact run: volume^2 = {float(g) ** 2}, Gram determinant/(k!)^2 = {want2}"
        g = f(fl(P))
        if not sq_close(g, want2, 1e-8, 1e-11 * scale):
            return f"float run: volume^2 = {float(g) ** 2!r}, Gram determinant/(k!)^2 = {float(want2)!r}"
        return None


SMALL_SCALES = [F(1), F(1, 10), F(1, 100), F(1, 1000), F(1, 10 ** 4), F(3, 10 ** 5)]


@test("triangulation.simplex_volume_in_embedding[small scales]")
class T_sve_scales:
    """The same shapes at length scales 1 .. 3e-5 (k-volumes down to ~1e-20): the
    exact Gram oracle with a purely RELATIVE tolerance, and homogeneity
    vol(sV) = s^k vol(V).  Near-zero decisions are made in exact mode (the code's
    absolute 1e-15 tolerance may only zero NEGATIVE squared volumes)."""

    @staticmethod
    def gen(rng, k):
        combos = [(n, kk) for n in (3, 4, 5) for kk in range(1, n + 1)]
        n, kk = combos[k % len(combos)]
        P = nondeg_simplex(rng, kk, KINDS[(k // len(combos)) % 3], emb=n)
        return P and {"P": P, "perm": rng.sample(range(kk + 1), kk + 1)}

    @staticmethod
    def check(mods, a):
        P, perm = a["P"], a["perm"]
        k = len(P) - 1
        f = mods["triangulation"].simplex_volume_in_embedding
        base = None
        for s in SMALL_SCALES:
            Q = [[s * x for x in p] for p in P]
            want2 = gram_vol2(Q)                 # > 0: the shape is non-degenerate
            for tag, V in (("", Q), (" relabelled", [Q[i] for i in perm])):
                with trace.exact_mode(mods):
                    g = f(V)
                if not sq_close(g, want2, 1e-10, 0.0) or g == 0:
                    return (f"exact run: scale {float(s):g}{tag}: volume = {float(g)!r} but sqrt(Gram determinant)/{k}! = "
                            f"{math.sqrt(want2)!r} (exact squared volume {want2} > 0)")
                g = f(fl(V))
                if not sq_close(g, want2, 1e-8, 0.0) or g == 0:
                    return (f"float run: scale {float(s):g}{tag}: volume = {float(g)!r} but sqrt(Gram determinant)/{k}! = "
                            f"{math.sqrt(want2)!r}")
            if base is None:
                base = float(g)
            elif not close(g, float(s) ** k * base, 1e-7, 0.0):
                return (f"float run: not homogeneous of degree {k}: vol({float(s):g} V) = {float(g)!r}, "
                        f"{float(s):g}^{k} vol(V) = {float(s) ** k * base!r}")
        return None


# ---- learner1D ------------------------------------------------------------
def _xs(rng, n, kind):
    xs = sorted({rq(rng, kind) for _ in range(n + 3)})
    return xs[:n] if len(xs) >= n else None


@test("learner1D.uniform_loss/default_loss")
class T_l1_default:
    @staticmethod
    def gen(rng, k):
        kind = KINDS[k % 3]
        xs = _xs(rng, 2, kind)
        nv = [0, 0, 1, 2, 3][k % 5]
        ys = [[rq(rng, kind) for _ in range(nv)] if nv else rq(rng, kind) for _ in range(2)]
        return xs and {"xs": xs, "ys": ys}

    @staticmethod
    def check(mods, a):
        xs, ys = a["xs"], a["ys"]
        L1 = mods["learner1D"]
        dx = xs[1] - xs[0]
        g = L1.uniform_loss(tuple(xs), tuple(ys) if not isinstance(ys[0], list) else tuple(map(tuple, ys)))
        if not same(g, dx):
            return f"uniform_loss = {g}, dx = {dx}"
        if isinstance(ys[0], list):
            want2 = max(dx * dx + (p - q) ** 2 for p, q in zip(*ys))
            yt = lambda conv: tuple(tuple(conv(v) for v in y) for y in ys)  # noqa: E731
        else:
            want2 = dx * dx + (ys[1] - ys[0]) ** 2
            yt = lambda conv: tuple(conv(v) for v in ys)  # noqa: E731
        with trace.exact_mode(mods):
            g = L1.default_loss(tuple(xs), yt(lambda v: v))
        if not sq_close(g, want2, 1e-12):
            return f"exact run: default_loss^2 = {float(g) ** 2}, max(dx^2+dy^2) = {want2}"
        g = L1.default_loss(tuple(fl(xs)), yt(float))
        if not sq_close(g, want2, 1e-12):
            return f"float run: default_loss^2 = {float(g) ** 2!r}, max(dx^2+dy^2) = {float(want2)!r}"
        return None


@test("learner1D.triangle_loss/curvature_loss")
class T_l1_triangle:
    @staticmethod
    def gen(rng, k):
        kind = KINDS[k % 3]
        xs = _xs(rng, 4, kind)
        if xs is None:
            return None
        nv = [0, 0, 2, 3][(k // 3) % 4]
        ys = [[rq(rng, kind) for _ in range(nv)] if nv else rq(rng, kind) for _ in range(4)]
        mask = [(1, 1, 1, 1), (0, 1, 1, 1), (1, 1, 1, 0), (0, 1, 1, 0)][(k // 12) % 4]
        if nv:   # collinear lifted triangles: simplex_volume_in_embedding documents a ValueError there
            pts = [[x, *y] for x, y, m in zip(xs, ys, mask) if m]
            for i in range(len(pts) - 2):
                sc = max(max(abs(v) for q in pts[i:i + 3] for v in q), F(1))
                if gram_vol2(pts[i:i + 3]) <= F(1, 10 ** 6) * sc ** 4:
                    return None
        xs = [x if m else None for x, m in zip(xs, mask)]
        ys = [y if m else None for y, m in zip(ys, mask)]
        fac = [F(rng.randint(0, 20), 10), F(rng.randint(0, 10), 100), F(rng.randint(0, 10), 100)] if k % 2 else None
        return {"xs": xs, "ys": ys, "factors": fac}

    @staticmethod
    def check(mods, a):
        xs, ys, fac = a["xs"], a["ys"], a["factors"]
        L1 = mods["learner1D"]
        pts = [(x, y) for x, y in zip(xs, ys) if x is not None]
        vec = isinstance(pts[0][1], list)
        if len(pts) == 2:
            want, want_sq = pts[1][0] - pts[0][0], None
        else:
            tris = [pts[i:i + 3] for i in range(len(pts) - 2)]
            if vec:
                # areas are irrational in general: compare with float sqrt of exact squares
                want_sq = [gram_vol2([[x, *y] for x, y in t]) for t in tris]
                want = None
            else:
                want = sum(tri_area_exact(*[(x, y) for x, y in t]) for t in tris) / len(tris)
                want_sq = None

        def wantf():
            return float(want) if want is not None else sum(math.sqrt(v) for v in want_sq) / len(want_sq)

        def conv(c):
            return ([None if x is None else c(x) for x in xs],
                    [None if y is None else (tuple(c(v) for v in y) if isinstance(y, list) else c(y)) for y in ys])
        with trace.exact_mode(mods):
            g = L1.triangle_loss(*conv(lambda v: v))
        if want is not None and not same(g, want):
            return f"exact run: triangle_loss = {g}, mean triangle area = {want}"
        if want is None and not close(g, wantf(), 1e-10, 1e-13):
            return f"exact run: triangle_loss = {float(g)}, mean triangle area = {wantf()}"
        g = L1.triangle_loss(*conv(float))
        if not close(g, wantf(), 1e-9, 1e-11):
            return f"float run: triangle_loss = {float(g)!r}, mean triangle area = {wantf()!r}"
        # curvature loss = area_factor*sqrt(triangle_loss) + euclid_factor*default_loss(middle) + horizontal_factor*dx
        af, ef, hf = fac or [F(1), F(0.02), F(0.02)]
        f = L1.curvature_loss_function(*map(float, fac)) if fac else L1.curvature_loss_function()
        xm, ym = xs[1:3], ys[1:3]
        dx = xm[1] - xm[0]
        d2 = max(dx * dx + (p - q) ** 2 for p, q in zip(*ym)) if vec else dx * dx + (ym[1] - ym[0]) ** 2
        wantc = float(af) * math.sqrt(wantf()) + float(ef) * math.sqrt(d2) + float(hf) * float(dx)
        g = f(*conv(float))
        if not close(g, wantc, 1e-9, 1e-11):
            return (f"float run: curvature_loss = {float(g)!r}, area_factor*sqrt(triangle_loss) + euclid_factor*hypot "
                    f"+ horizontal_factor*dx = {wantc!r}")
        return None


@test("learner1D.resolution_loss/linspace")
class T_l1_resolution:
    @staticmethod
    def gen(rng, k):
        kind = KINDS[k % 3]
        xs = _xs(rng, 2, kind)
        if xs is None:
            return None
        dx = xs[1] - xs[0]
        mn, mx = [(dx / 2, 2 * dx), (dx, dx), (2 * dx, 3 * dx), (dx / 4, dx / 2), (dx + F(1, 10 ** 9), 2 * dx),
                  (dx / 2, dx - F(1, 10 ** 9))][k % 6]
        return {"xs": xs, "ys": [rq(rng, kind), rq(rng, kind)], "mn": mn, "mx": mx, "n": 1 + k % 12}

    @staticmethod
    def check(mods, a):
        xs, ys, mn, mx, n = a["xs"], a["ys"], a["mn"], a["mx"], a["n"]
        L1 = mods["learner1D"]
        dx = xs[1] - xs[0]
        f = L1.resolution_loss_function(mn, mx)
        with trace.exact_mode(mods):
            g = f(tuple(xs), tuple(ys))
        if dx < mn:
            ok = g == 0
            w = "0 (below min_length)"
        elif dx > mx:
            ok = g == math.inf
            w = "inf (above max_length)"
        else:
            ok = sq_close(g, dx * dx + (ys[1] - ys[0]) ** 2, 1e-12)
            w = f"default_loss = sqrt({dx * dx + (ys[1] - ys[0]) ** 2})"
        if not ok:
            return f"resolution_loss(min={mn}, max={mx}) on dx={dx} = {g}, expected {w}"
        g = L1.linspace(xs[0], xs[1], n)
        want = [xs[0] + k * dx / n for k in range(1, n)]
        if len(g) != len(want) or not all(same(u, v) for u, v in zip(g, want)):
            return f"linspace({xs[0]}, {xs[1]}, {n}) = {[str(v) for v in g]}, equally spaced interior points = {[str(v) for v in want]}"
        g = L1.linspace(float(xs[0]), float(xs[1]), n)
        if len(g) != n - 1 or any(not close(u, v, 1e-12, 1e-13) for u, v in zip(g, want)):
            return f"float run: linspace = {g}, expected {[float(v) for v in want]}"
        return None


# ---- learnerND ------------------------------------------------------------
@test("learnerND.uniform_loss/default_loss/triangle_loss/curvature_loss")
class T_nd_losses:
    @staticmethod
    def gen(rng, k):
        d = 2 + k % 3
        kind = KINDS[(k // 3) % 3]
        P = nondeg_simplex(rng, d, kind)
        if P is None:
            return None
        nv = [0, 1, 2][(k // 9) % 3]
        vals = [[rq(rng, kind) for _ in range(nv)] if nv else rq(rng, kind) for _ in range(d + 1)]
        nb = []
        for i in range(d + 1):
            if rng.random() < 0.3:
                nb.append(None)
            else:
                cand = ([rq(rng, kind) for _ in range(d)], [rq(rng, kind) for _ in range(nv)] if nv else rq(rng, kind))
                # simplex_volume_in_embedding documents a ValueError for coplanar vertices: keep the lifted
                # simplex+neighbour non-degenerate (a flat one is outside the property's domain)
                tl = lambda v: list(v) if isinstance(v, list) else [v]  # noqa: E731
                lifted = [list(p) + tl(v) for p, v in zip(P, vals)] + [list(cand[0]) + tl(cand[1])]
                scale = max(max(abs(x) for q in lifted for x in q), F(1))
                nb.append(cand if gram_vol2(lifted) > F(1, 10 ** 6) * scale ** (2 * (d + 1)) else None)
        return {"P": P, "vals": vals, "nb": nb}

    @staticmethod
    def check(mods, a):
        P, vals, nb = a["P"], a["vals"], a["nb"]
        ND = mods["learnerND"]
        d = len(P) - 1
        vol = abs(simplex_det(P)) / math.factorial(d)

        def tl(v):
            return list(v) if isinstance(v, list) else [v]
        emb = [list(p) + tl(v) for p, v in zip(P, vals)]
        want2 = gram_vol2(emb)

        def conv(c, pts, vs):
            return ([tuple(c(x) for x in p) for p in pts],
                    [tuple(c(x) for x in v) if isinstance(v, list) else c(v) for v in vs])
        for exact in (True, False):
            c = (lambda v: v) if exact else float
            tag = "exact run" if exact else "float run"
            ctx = trace.exact_mode(mods) if exact else _null()
            with ctx:
                S, V = conv(c, P, vals)
                g = ND.uniform_loss(S, V, 1.0)
                if (exact and not same(g, vol)) or not close(g, vol, 1e-9, 1e-12):
                    return f"{tag}: uniform_loss = {g}, |det|/{d}! = {vol}"
                g = ND.default_loss(S, V, 1.0)
                if not sq_close(g, want2, 1e-8, 1e-12):
                    return f"{tag}: default_loss^2 = {float(g) ** 2}, squared volume of the lifted simplex = {float(want2)}"
                present = [x for x in nb if x is not None]
                NS = [None if x is None else tuple(c(y) for y in x[0]) for x in nb]
                NV = [None if x is None else (tuple(c(y) for y in x[1]) if isinstance(x[1], list) else c(x[1])) for x in nb]
                g = ND.triangle_loss(S, V, 1.0, NS, NV)
                if not present:
                    wt = 0.0
                else:
                    wt = sum(math.sqrt(gram_vol2(emb + [list(x[0]) + tl(x[1])])) for x in present) / len(present)
                if not close(g, wt, 1e-7, 1e-9):
                    return f"{tag}: triangle_loss = {float(g)}, mean volume of simplex+neighbour = {wt}"
                if not exact:
                    expl = 0.05
                    g = ND.curvature_loss_function(expl)(S, V, 1.0, NS, NV)
                    wc = (wt + expl * float(vol) ** ((2 + d) / d)) ** (1 / (2 + d))
                    if not close(g, wc, 1e-7, 1e-9):
                        return f"{tag}: curvature_loss = {float(g)}, (triangle_loss + exploration*volume^((2+d)/d))^(1/(2+d)) = {wc}"
        return None


class _null:
    def __enter__(self):
        return self

    def __exit__(self, *a):
        return False


@test("learnerND.choose_point_in_simplex")
class T_nd_choose:
    @staticmethod
    def gen(rng, k):
        d = 2 + k % 3
        kind = KINDS[(k // 3) % 3]
        P = nondeg_simplex(rng, d, kind)
        if P is None:
            return None
        if (k // 9) % 3 == 2:   # an obtuse / flat simplex: circumcentre outside
            P = nondeg_simplex(rng, d, kind, near_degenerate=True) or P
        tr = None
        if (k // 27) % 2:
            while True:
                tr = [[F(rng.randint(-3, 3)) + (F(2) if i == j else 0) for j in range(d)] for i in range(d)]
                if det_leibniz(tr) != 0:
                    break
        return {"P": P, "transform": tr}

    @staticmethod
    def check(mods, a):
        P, tr = a["P"], a["transform"]
        d = len(P) - 1
        Q = P if tr is None else [[sum(p[i] * tr[i][j] for i in range(d)) for j in range(d)] for p in P]
        c = circumcentre(Q)
        if c is None:
            return "skip"
        al = barycentric(Q, c)
        inside, margin = _pis_expected(al, EPS8, d == 2)
        if margin < F(1, 10 ** 6):
            return "skip"
        if inside:
            pt = [sum(q[j] for q in Q) / (d + 1) for j in range(d)]
            cands = [pt]
            what = "centroid (circumcentre inside)"
        else:
            dist = {(i, j): vdot(vsub(Q[i], Q[j]), vsub(Q[i], Q[j])) for i in range(d + 1) for j in range(i + 1, d + 1)}
            mx = max(dist.values())
            cands = [[(Q[i][t] + Q[j][t]) / 2 for t in range(d)] for (i, j), v in dist.items() if v >= mx * (1 - F(1, 10 ** 9))]
            what = "mid-point of a longest edge (circumcentre outside)"
        if tr is not None:
            trT = [[tr[i][j] for j in range(d)] for i in range(d)]
            cands = [solve_exact(trT, x) for x in cands]
        f = mods["learnerND"].choose_point_in_simplex
        g = f(np.array(fl(P)), None if tr is None else np.array(fl(tr)))
        scale = float(max(max(abs(x) for p in P for x in p), 1))
        if not any(all(close(u, v, 1e-7, 1e-8 * scale) for u, v in zip(g, cand)) for cand in cands):
            return f"choose_point_in_simplex = {[float(x) for x in g]}, expected the {what} = {[[float(x) for x in cd] for cd in cands]}"
        return None


# ---- learner2D ------------------------------------------------------------
@test("learner2D.areas/uniform_loss/minimize_triangle_surface_loss")
class T_l2:
    @staticmethod
    def gen(rng, k):
        n = 4 + k % 6
        kind = ["dyadic", "lattice"][k % 2]
        pts = []
        while len(pts) < n:
            p = [rq(rng, kind), rq(rng, kind)]
            if p not in pts:
                pts.append(p)
        nv = [0, 1][(k // 2) % 2]     # minimize_triangle_surface_loss is defined for one output component only
        vals = [[rq(rng, kind) for _ in range(nv)] if nv else rq(rng, kind) for _ in range(n)]
        return {"pts": pts, "vals": vals}

    @staticmethod
    def check(mods, a):
        from scipy.interpolate import LinearNDInterpolator
        pts, vals = a["pts"], a["vals"]
        try:
            ip = LinearNDInterpolator(np.array(fl(pts)), np.array(fl(vals)))
        except Exception:  # noqa: BLE001  (collinear input: qhull refuses)
            return "skip"
        L2 = mods["learner2D"]
        simp = ip.tri.simplices
        ar = L2.areas(ip)
        ul = L2.uniform_loss(ip)
        if len(ar) != len(simp) or len(ul) != len(simp):
            return "areas/uniform_loss: wrong length"
        vv = ip.values
        ptp = max((max(F(float(v)) for v in vv[:, j]) - min(F(float(v)) for v in vv[:, j])) for j in range(vv.shape[1])) or F(1)
        try:
            ms = L2.minimize_triangle_surface_loss(ip)
        except Exception as e:  # noqa: BLE001
            return f"minimize_triangle_surface_loss raised {type(e).__name__}: {e}"
        for t, s in enumerate(simp):
            A = tri_area_exact(*[pts[i] for i in s])
            if not close(ar[t], A, 1e-9, 1e-12):
                return f"areas[{t}] = {ar[t]!r}, triangle area = {float(A)!r} (triangle {[fl(pts[i]) for i in s]})"
            if not sq_close(ul[t], A, 1e-9, 1e-12):
                return f"uniform_loss[{t}]^2 = {ul[t] ** 2!r}, triangle area = {float(A)!r}"
            lifted = [list(pts[i]) + [F(float(v)) / ptp for v in vv[i]] for i in s]
            if not sq_close(ms[t], gram_vol2(lifted), 1e-8, 1e-12):
                return (f"minimize_triangle_surface_loss[{t}]^2 = {ms[t] ** 2!r}, squared area of the lifted triangle = "
                        f"{float(gram_vol2(lifted))!r}")
        return None


@test("learner2D.choose_point_in_triangle/default_loss")
class T_l2_choose:
    @staticmethod
    def gen(rng, k):
        kind = KINDS[k % 3]
        P = nondeg_simplex(rng, 2, kind, near_degenerate=(k // 3) % 3 == 2)
        if P is None:
            return None
        # the function uses the SIGNED area (a clockwise triangle has negative badness and always gets its
        # centroid); Learner2D feeds it scipy Delaunay simplices, which are counter-clockwise: test those
        if simplex_det(P, rel_last=False) < 0:
            P = [P[0], P[2], P[1]]
        return {"P": P, "max_badness": [1, 2, 5, 10, 50][(k // 9) % 5]}

    @staticmethod
    def check(mods, a):
        P, mb = a["P"], a["max_badness"]
        L2 = mods["learner2D"]
        area = tri_area_exact(*P)
        e2 = {(i, j): vdot(vsub(P[i], P[j]), vsub(P[i], P[j])) for i, j in ((0, 1), (0, 2), (1, 2))}
        mx = max(e2.values())
        badness = float(mx) / float(area) * (math.sqrt(3) / 4)
        if abs(badness - mb) < 1e-6 * mb:
            return "skip"
        if badness > mb:
            cands = [[(P[i][t] + P[j][t]) / 2 for t in range(2)] for (i, j), v in e2.items() if v >= mx * (1 - F(1, 10 ** 9))]
            what = f"mid-point of a longest edge (badness {badness:.4g} > {mb})"
        else:
            cands = [[sum(p[t] for p in P) / 3 for t in range(2)]]
            what = f"centroid (badness {badness:.4g} <= {mb})"
        g = L2.choose_point_in_triangle(np.array(fl(P)), mb)
        scale = float(max(max(abs(x) for p in P for x in p), 1))
        if not any(all(close(u, v, 1e-9, 1e-10 * scale) for u, v in zip(g, c)) for c in cands):
            return f"choose_point_in_triangle = {[float(x) for x in g]}, expected the {what} = {[[float(x) for x in c] for c in cands]}"
        # default_loss = sum of deviations * sqrt(area) + 0.3 * area, per triangle (deviations taken from the module)
        from scipy.interpolate import LinearNDInterpolator
        pts = fl(P) + [[float(sum(p[0] for p in P) / 3), float(sum(p[1] for p in P) / 3)]]
        vals = [math.sin(x) + y * y / (1 + scale) for x, y in pts]
        try:
            ip = LinearNDInterpolator(np.array(pts), np.array(vals))
        except Exception:  # noqa: BLE001
            return None
        ls = L2.default_loss(ip)
        A = [tri_area_exact(*[[F(c) for c in pts[i]] for i in sx]) for sx in ip.tri.simplices]
        dev = np.sum(L2.deviations(ip), axis=0)
        for t in range(len(A)):
            w = dev[t] * math.sqrt(A[t]) + 0.3 * float(A[t])
            if not close(ls[t], w, 1e-9, 1e-12):
                return f"default_loss[{t}] = {ls[t]!r}, deviation*sqrt(area) + 0.3*area = {w!r}"
        return None


# --------------------------------------------------------------------------
# translator self-check: traced tree evaluated on doubles vs the real function
# --------------------------------------------------------------------------
def _flatten(v, out):
    if isinstance(v, trace.Raised):
        out.append(("raise", v.name))
    elif isinstance(v, (list, tuple, np.ndarray)):
        for x in v:
            _flatten(x, out)
    elif isinstance(v, (bool, np.bool_)):
        out.append(("b", bool(v)))
    else:
        out.append(("r", float(v)))
    return out


def self_check(chk: Check, ks, mods, n):
    bad = 0
    total = 0
    for k in ks:
        fn = k.resolve(mods)
        for j in range(n):
            rng = chk.rng("selfcheck", k.name, j)
            env = {}

            def S(nm):
                if nm in ("eps",):
                    env[nm] = 1e-8
                elif nm in ("min_length", "max_length"):
                    env[nm] = rng.choice([0.25, 0.5, 1.0, 2.0, 4.0])
                else:
                    env[nm] = rng.randint(-300, 300) / 64.0 if j % 2 else float(rng.randint(-5, 5))
                return env[nm]
            try:
                thunk = k.build(fn, S, mods)
            except Exception as e:  # noqa: BLE001
                chk.broke("translator", f"self-check could not build arguments for {k.name}", str(e))
                bad += 1
                break
            try:
                got = _flatten(thunk(), [])
            except k.raises as e:
                got = [("raise", type(e).__name__)]
            except (ZeroDivisionError, FloatingPointError, np.linalg.LinAlgError):
                continue               # degenerate random input
            try:
                with np.errstate(all="ignore"):
                    want = _flatten(trace.evaluate(k.tree, env, float), [])
            except (ZeroDivisionError, ValueError, OverflowError):
                continue
            if any(t == "r" and (math.isnan(v) or math.isinf(v)) for t, v in want if t == "r") and k.name != "l1_resolution_loss":
                continue
            total += 1
            ok = len(got) == len(want)
            if ok:
                for (t1, v1), (t2, v2) in zip(got, want):
                    if t1 != t2:
                        ok = False
                    elif t1 == "r":
                        ok = ok and (v1 == v2 or abs(v1 - v2) <= 1e-7 * max(abs(v1), abs(v2)) + 1e-9)
                    else:
                        ok = ok and v1 == v2
            if not ok and not _near_branch(k, env):
                bad += 1
                chk.broke("translator", f"traced model of {k.module}.{k.path} ({k.name}) disagrees with the real function",
                          {"inputs": env, "real": got[:8], "model": want[:8]})
                break
    return total, bad


def _near_branch(k, env):
    """True when some decision of the traced tree is within rounding noise at env
    (the double computation may then legitimately take the other branch)."""
    near = [False]

    def walk(t):
        if t[0] != "if":
            return
        _, op, x, y = t[1]
        try:
            a = trace.evaluate(("leaf", ("R", x)), env, float)
            b = trace.evaluate(("leaf", ("R", y)), env, float)
        except Exception:  # noqa: BLE001
            near[0] = True
            return
        if abs(a - b) <= 1e-9 * max(abs(a), abs(b), 1e-300):
            near[0] = True
        walk(t[2])
        walk(t[3])
    walk(k.tree)
    return near[0]


# --------------------------------------------------------------------------
# platform defects F7, F7b, F8 (DESIGN 9)
# --------------------------------------------------------------------------
def findings(chk: Check, mods):
    L2, ND = mods["learner2D"], mods["learnerND"]
    out = {}
    tri = np.array([[0.0, 0.0], [1.0, 0.0], [0.0, 1.0]])
    try:
        p = L2.choose_point_in_triangle(tri, 10)
        ok = np.allclose(p, [1 / 3, 1 / 3])
        p2 = L2.choose_point_in_triangle(np.array([[0.0, 0.0], [10.0, 0.0], [5.0, 0.1]]), 5)
        ok = ok and np.allclose(p2, [5.0, 0.0])
        out["F7"] = "repaired" if ok else "wrong value"
        if not ok:
            chk.fail("C20:learner2D.choose_point_in_triangle", f"choose_point_in_triangle gives {p}, {p2}; expected the centroid "
                     "(1/3,1/3) for the right triangle and the mid-point (5,0) of the longest edge for the flat one", {"triangle": tri.tolist()})
    except Exception as e:  # noqa: BLE001
        out["F7"] = f"{type(e).__name__}: {e}"
        chk.fail(SIG_F7, f"learner2D.choose_point_in_triangle([[0,0],[1,0],[0,1]], 10) raises {type(e).__name__}: {str(e)[:120]}",
                 {"test": "F7", "triangle": tri.tolist(), "max_badness": 10})
    from scipy.interpolate import LinearNDInterpolator
    pts = np.array([[0.0, 0.0], [1.0, 0.0], [0.0, 1.0], [1.0, 1.0], [0.25, 0.5]])
    ip = LinearNDInterpolator(pts, pts[:, 0] ** 2 + pts[:, 1])
    try:
        ls = L2.default_loss(ip)
        A = L2.areas(ip)
        ok = len(ls) == len(A) and np.all(ls >= 0.3 * A - 1e-12)
        out["F7b"] = "repaired" if ok else "wrong value"
        if not ok:
            chk.fail("C20:learner2D.default_loss", f"default_loss = {ls} is not deviation*sqrt(area) + 0.3*area >= 0.3*area = {0.3 * A}",
                     {"points": pts.tolist()})
    except Exception as e:  # noqa: BLE001
        out["F7b"] = f"{type(e).__name__}: {str(e)[:100]}"
        chk.fail(SIG_F7B, f"learner2D.default_loss(ip) raises {type(e).__name__}: {str(e)[:160]}",
                 {"test": "F7b", "points": pts.tolist()})
    simplex, values = [(0.0, 0.0), (1.0, 0.0), (0.0, 1.0)], [1.0, 2.0, 4.0]
    want = float(np.std(values)) * 0.5 ** 0.5 + 0.5
    try:
        r = ND.std_loss(simplex, values, 1.0)
        v = float(r)
        out["F8"] = "repaired" if abs(v - want) < 1e-12 else "wrong value"
        if abs(v - want) >= 1e-12:
            chk.fail("C20:learnerND.std_loss", f"std_loss = {v}, std*vol^(1/d)+vol = {want}", {"simplex": simplex, "values": values})
    except TypeError as e:
        out["F8"] = f"TypeError: {e}"
        rv = np.asarray(ND.std_loss(simplex, values, 1.0)).ravel()
        extra = "" if (len(rv) == 1 and abs(rv[0] - want) < 1e-12) else f" (and its value {rv} differs from {want})"
        chk.fail(SIG_F8, f"float(learnerND.std_loss(unit triangle, [1,2,4], 1.0)) raises TypeError: {str(e)[:100]}{extra}",
                 {"test": "F8", "simplex": simplex, "values": values})
    return out


# --------------------------------------------------------------------------
def locate_failed_lemmas(log: str):
    """Names of the lemmas at which the build stopped (from coqc's File/line)."""
    names = []
    for m in re.finditer(r'File "\./?(theories/[\w/]+\.v)", line (\d+), characters [\d-]+:\s*\n\s*Error', log):
        path, line = COQ / m.group(1), int(m.group(2))
        try:
            lines = path.read_text().splitlines()[:line]
        except OSError:
            continue
        for l in reversed(lines):
            mm = re.match(r"\s*(?:Lemma|Theorem|Example)\s+(\w+)", l)
            if mm:
                names.append(f"{path.name}:{mm.group(1)}")
                break
    return sorted(set(names))


def run_corpus(chk: Check, mods):
    """corpus/C20/*.json: {"test": name, "args": ...} -- inputs that exposed a
    mutation once; replayed first on every run."""
    n = bad = 0
    for f in sorted((chk.work.parents[1] / "corpus" / "C20").glob("*.json")):
        d = json.loads(f.read_text())
        T = TESTS.get(d.get("test"))
        if T is None:
            chk.broke("machinery", f"corpus file {f.name} names an unknown test", d.get("test"))
            continue
        try:
            e = T.check(mods, unser(d["args"]))
        except Exception as ex:  # noqa: BLE001
            e = f"raised {type(ex).__name__}: {str(ex)[:200]}"
        if e == "skip":
            continue
        n += 1
        chk.note_case((d["test"], d["args"]), True)
        if e:
            bad += 1
            chk.fail(f"C20:{d['test']}", f"{d['test']} (corpus {f.name}): {e}", {"test": d["test"], "args": d["args"]})
    return {"replayed": n, "failed": bad}


def run_search(chk: Check, mods, n_per_test, only=None):
    stats = {}
    for name, T in TESTS.items():
        if only and name not in only:
            continue
        ran = fails = skipped = 0
        for k in range(n_per_test):
            rng = chk.rng("search", name, k)
            a = T.gen(rng, k)
            if a is None:
                skipped += 1
                continue
            a_ser = json.loads(json.dumps(ser(a)))
            try:
                e = T.check(mods, unser(a_ser))
            except Exception as ex:  # noqa: BLE001 -- the real function raised on a legal input
                e = f"raised {type(ex).__name__}: {str(ex)[:200]}"
            if e == "skip":
                skipped += 1
                continue
            ran += 1
            chk.note_case((name, a_ser), True)
            if ran <= 1 and len(chk.cov["samples"]) < 4:
                chk.sample({"test": name, "args": a_ser})
            if e:
                fails += 1
                if fails <= 2:
                    chk.fail(f"C20:{name}", f"{name}: {e}", {"test": name, "args": a_ser})
        stats[name] = {"ran": ran, "skipped_degenerate": skipped, "failed": fails}
    return stats


def run(chk: Check) -> int:
    t0 = time.time()
    ks = None
    mods = None
    # 1. translator: regenerate gen/Prims.v and gen/Consts.v from the tree under test
    try:
        mods = trace.load_modules()
        ks = [k.trace(mods) for k in trace.kernels()]
        changed = trace.write_if_changed(trace.GEN / "Prims.v", trace.prims_text(ks))
        chk.log(f"translator: {len(ks)} kernels traced, gen/Prims.v {'rewritten' if changed else 'unchanged'}")
    except trace.TraceError as e:
        chk.broke("translator", "harness/avh/trace.py can no longer translate a kernel (gen/Prims.v is stale)", str(e))
        chk.log("TRANSLATOR FAILED: " + str(e))
    try:
        trace_consts.regenerate()
    except Exception as e:  # noqa: BLE001
        chk.broke("translator", "harness/avh/trace_consts.py can no longer export the quadrature constants", f"{type(e).__name__}: {e}")
        chk.log("CONSTANT EXPORT FAILED: " + str(e))
    # 2. proofs (rebuilt only when a generated file changed; thorough: from clean)
    if not chk.quick:
        for pat in ("gen/Prims", "gen/Consts", "theories/Proofs/Prims*", "theories/Proofs/QuadConstsProofs",
                    "theories/Props/C20", "theories/Props/C08consts"):
            for f in COQ.glob(pat + ".vo"):
                f.unlink()
    names = theorem_names()
    thm = {n: "Props.C20" for n in names}
    ok1 = chk.prove(["theories/Props/C20.vo", "theories/Props/C08consts.vo"], thm, allowed_axioms=REALS_OK)
    log = (chk.work / "make.log").read_text() if (chk.work / "make.log").exists() else ""
    for nm in ([] if ok1 else locate_failed_lemmas(log)):
        chk.broke("proof", f"no longer holds of the regenerated model: {nm}", "see work/C20/make.log")
    if ok1:
        # the constant theorems are decided by vm_compute; coqchk has no VM and does not finish re-checking
        # them within its 40 min limit (measured), so this cone is checked by coqc (kernel + VM) only
        cth = dict(c20_consts_oracle.THEOREMS_REALS)
        cth.update(c20_consts_oracle.THEOREMS)      # over Q/Z: must be axiom-free (checked below)
        was_quick, chk.quick = chk.quick, True
        try:
            chk.prove(["theories/Props/C08consts.vo"], cth, allowed_axioms=REALS_OK)
        finally:
            chk.quick = was_quick
        alog = chk.work / "assumptions.log"
        blocks = [b for b in re.split(r"(?m)^(?=Closed under the global context|Axioms:)", alog.read_text())
                  if b.startswith(("Closed", "Axioms:"))] if alog.exists() else []
        if len(blocks) == len(cth):
            for n, b in zip(cth, blocks):
                if n in c20_consts_oracle.THEOREMS and not b.startswith("Closed"):
                    chk.broke("proof", f"{n} (a statement over Q/Z) is no longer axiom-free", b[:400])
    chk.log(f"proofs done at {time.time() - t0:.0f}s")
    if mods is None:
        try:
            mods = trace.load_modules()
        except Exception as e:  # noqa: BLE001
            chk.broke("machinery", "cannot import the modules under test", str(e))
            return chk.finish(rule="import failed")
    # 3. translator self-check
    if ks is not None:
        total, bad = self_check(chk, ks, mods, 12 if chk.quick else 60)
        chk.extra["translator_self_check"] = {"kernels": len(ks), "evaluations": total, "disagreements": bad,
                                              "paths": {k.name: k.npaths for k in ks if k.npaths > 1}}
        chk.log(f"translator self-check: {total} evaluations of {len(ks)} traced kernels against the real functions, {bad} disagreements")
    # 4. search (corpus first)
    chk.extra["corpus"] = run_corpus(chk, mods)
    stats = run_search(chk, mods, 72 if chk.quick else 720)
    chk.extra["search"] = stats
    # 5. platform defects
    chk.extra["platform_defects"] = findings(chk, mods)
    # 6. constants
    try:
        c20_consts_oracle.search(chk)
    except Exception as e:  # noqa: BLE001
        chk.broke("machinery", "constants oracle raised", f"{type(e).__name__}: {e}")
    chk.log(f"search: {sum(s['ran'] for s in stats.values())} cases, {sum(s['failed'] for s in stats.values())} failed; "
            f"defects: {chk.extra['platform_defects']}")
    return chk.finish(
        rule="per primitive: seeded rational / lattice / dyadic / near-degenerate inputs in dims 1..5, each run (a) on the real "
             "function with doubles and (b) on the real function body with exact Fractions (numpy float coercions replaced by "
             "the translator's stand-ins), compared with from-scratch exact oracles and under relabelling, translation, scaling, "
             "rotation; non-trivial = non-degenerate input actually evaluated (degenerate draws are skipped and counted); "
             "distinct by argument tuple",
        assumptions=["translator (trace.py): operator dispatch of Sym, numpy object arrays, and the namespace stand-ins "
                     "(array/asarray/subtract dtype=float = identity on reals, det/solve/slogdet = Laplace/Cramer, "
                     "pdist/squareform, sqrt/hypot = real sqrt, float() = identity) -- validated numerically by the self-check",
                     "np.hypot and ** 0.5 are read as the real sqrt; float rounding is outside the theorems (search tolerance 1e-9)",
                     "dimensions 4-5 of LAPACK paths (det/solve/slogdet) are covered by the search only",
                     "theorem C20_nd_choose_point2_spec uses the traced float constants -1e-8 and fl(1+1e-8)"])


def replay(doc) -> int:
    mods = trace.load_modules()
    bad = 0
    seen: dict = {}
    for f in doc.get("failing_inputs", []):
        r = f.get("replay", {})
        name = r.get("test")
        if name in TESTS:
            try:
                e = TESTS[name].check(mods, unser(r["args"]))
            except Exception as ex:  # noqa: BLE001
                e = f"raised {type(ex).__name__}: {ex}"
            print("replayed", name, "->", e or "oracle silent")
            bad += bool(e and e != "skip")
        elif name in ("F7", "F7b", "F8"):
            chk = types.SimpleNamespace(fail=lambda s, w, r: print("replayed", s, "->", w))
            out = findings(chk, mods)
            bad += out.get(name) != "repaired"
        elif "group" in r and "entry" in r:      # a quadrature-constant entry
            if "consts" not in seen:
                rec = types.SimpleNamespace(failures=[], extra={}, note_case=lambda *a, **k: None,
                                            broke=lambda *a: print("broke", a))
                rec.fail = lambda s, w, rp: rec.failures.append((s, w))
                c20_consts_oracle.search(rec)
                seen["consts"] = rec.failures
            hit = [w for s, w in seen["consts"] if s == f.get("signature")]
            print("replayed", f.get("signature"), "->", hit[0] if hit else "oracle silent")
            bad += bool(hit)
        else:
            print("cannot replay", f.get("signature"))
    for b in doc.get("no_longer_checks", []):
        print("no longer checks:", b.get("kind"), b.get("name"))
    return 1 if bad else 0
