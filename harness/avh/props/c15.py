"""C15 -- BalancingLearner routes, aggregates and balances correctly.

proof          : coq/theories/Props/C15.v (model Model/Balancing.v over Model/GenericLearner.v)
correspondence : seeded histories on the real BalancingLearner over real children; every call the
                 wrapper makes on a child is recorded and becomes the child of the model run
                 (Run/OracleChild.v), so exactly the wrapper's own logic is compared (vm_compute in Coq)
search         : from-scratch oracle of the property text on the real classes
"""
from __future__ import annotations

import json
import math
import random

import numpy as np

from .. import coqio as C
from .. import impl_wrappers as W
from ..core import Check

THEOREMS = {n: "Props.C15" for n in [
    "C15_routing", "C15_aggregates", "C15_npoints_strategy", "C15_ask_is_trace", "C15_cycle_strategy",
    "C15_cache_coherent", "C15_loss_is_max_of_children", "C15_improvement_strategy", "C15_loss_strategy",
    "C15_cache_coherent_refuted_unfixed",
    "C15_tentative_ask_no_trace", "C15_routing_all", "C15_cycle_strategy_all", "C15_cache_coherent_all",
    "C15_loss_is_max_of_children_all", "C15_improvement_strategy_all", "C15_loss_strategy_all"]}

PREAMBLE = """From Coq Require Import ZArith PrimFloat List. Import ListNotations.
From AV Require Import Base.Prelude Base.FloatUtil Model.GenericLearner Model.Balancing Run.OracleChild Run.BalancingRun.
Open Scope nat_scope."""

STRATS = ["loss_improvements", "loss", "npoints", "cycle"]
STRAT_TERM = {"loss_improvements": "SImp", "loss": "SLoss", "npoints": "SNpoints", "cycle": "SCycle"}

SIG_F2A = "C15:F2a BalancingLearner.loss(real=False) stale after tell_pending (_pending_loss not invalidated)"
SIG_F2B = "C15:F2b BalancingLearner caches stale after remove_unfinished"


# ----------------------------------------------------------------------
def probe_f2():
    """Minimal F2 witnesses on the real class: (F2a repaired?, F2b repaired?)."""
    from adaptive import BalancingLearner, Learner1D

    def mk():
        ls = [Learner1D(lambda x: x, (-1.0, 1.0))]
        b = BalancingLearner(ls, strategy="npoints")
        b.tell((0, -1.0), 0.0)
        b.tell((0, 1.0), 0.0)
        return ls, b
    ls, b = mk()
    b.loss(real=False)
    b.tell_pending((0, 0.0))
    a_ok = b.loss(real=False) == ls[0].loss(real=False)
    ls, b = mk()
    b.tell_pending((0, 0.0))
    b.loss(real=False)
    b.remove_unfinished()
    b_ok = b.loss(real=False) == ls[0].loss(real=False)
    return bool(a_ok), bool(b_ok)


def feq(a, b):
    return (a == b) or (math.isnan(a) and math.isnan(b))


# ----------------------------------------------------------------------
class Oracle:
    """The property text, from scratch, on what the real classes do."""

    f2a_present = f2b_present = True      # set from probe_f2() by run()

    def __init__(self, kind, children, recs, b, strategy):
        self.kind, self.children, self.recs, self.b = kind, children, recs, b
        n = len(children)
        self.n = n
        self.told = [dict() for _ in range(n)]
        self.pend = [set() for _ in range(n)]
        self.proposed = [set() for _ in range(n)]
        self.prop_time = [dict() for _ in range(n)]
        self.tell_time = [dict() for _ in range(n)]
        self.tick = 0
        self.child_reproposed = 0
        self.tainted = [False] * n
        self.stale_a = [False] * n        # tell_pending since the last tell          (F2a trigger)
        self.stale_b = [False] * n        # remove_unfinished since the last tell     (F2b trigger, losses)
        self.stale_b_ask = [False] * n    # ... since the last tell / tell_pending    (F2b trigger, ask cache)
        self.strategy = strategy
        self.cycle_next = 0
        self.errors: list[tuple[str, str]] = []
        self.scans: list[dict] = []
        self.in_ask = False
        self.active = True
        self.checked = {"npoints": 0, "cycle": 0, "loss_improvements": 0, "loss": 0, "loss_calls": 0,
                        "own_proposal": 0, "own_proposal_after_caller_tell_pending": 0}
        self.caller_tp = [False] * n      # the caller reserved a point of its own in child i since child i was last served / told
        for r in recs:
            r.on_call = self.on_child_call

    def err(self, sig, msg):
        self.errors.append((sig, msg))

    # -- what the children say right now (bypassing the recorder) --------
    def scan(self):
        counts, eloss, offers = [], [], []
        for r in self.recs:
            c = r.child
            counts.append(int(c.npoints) + len(c.pending_points))
            eloss.append(W.child_loss(c, False))
            off = None
            if self.kind != "lnd":
                # what the child itself proposes right now (point, improvement): under 'loss_improvements' for the
                # arg-max clause, under every strategy for the clause "each point handed out is the child's own
                # current proposal"
                r.depth += 1
                try:
                    pts, imps = r.base.ask(c, 1, tell_pending=False)
                    if pts:
                        off = (W.hashable(self.kind, pts[0]), float(imps[0]))
                except Exception:
                    off = None
                finally:
                    r.depth -= 1
            offers.append(off)
        return {"counts": counts, "eloss": eloss, "offers": offers}

    def on_child_call(self, rec, e):
        self.tick += 1
        if e["name"] == "ask":
            for p in e["raw_pts"]:
                self.proposed[rec.index].add(W.hashable(self.kind, p))
                self.prop_time[rec.index][W.hashable(self.kind, p)] = self.tick
        elif e["name"] == "tell_pending" and self.in_ask:
            self.scans.append(self.scan())         # boundary between two iterations of ask

    # -- wrapper-level events -------------------------------------------
    def before_ask(self):
        self.scans = [self.scan()]
        self.in_ask = True

    def classify_loss(self, real):
        # attributed to F2 only while the probe says F2 is present in this tree
        if self.f2b_present and any(self.stale_b):
            return SIG_F2B
        if self.f2a_present and (not real) and any(self.stale_a):
            return SIG_F2A
        return None

    def after_ask(self, n, commit, ret):
        self.in_ask = False
        pts, imps = ret
        saved_cycle, saved_a, saved_ask = self.cycle_next, list(self.stale_a), list(self.stale_b_ask)
        if len(pts) != n or len(imps) != n:
            self.err("C15:ask_length", f"ask({n}) returned {len(pts)} points / {len(imps)} improvements")
        for k, ((i, p), imp) in enumerate(zip(pts, imps)):
            i = int(i)
            hp = W.hashable(self.kind, p)
            if not (0 <= i < self.n) or hp not in self.proposed[i]:
                self.err("C15:routing_ask", f"ask returned ({i},{p!r}) which child {i} never proposed")
                continue
            if hp in self.told[i]:
                if self.prop_time[i].get(hp, -1) < self.tell_time[i].get(hp, -1):
                    self.err("C15:evaluated_point_handed_out",
                             f"ask returned ({i},{p!r}) which child {i} evaluated after last proposing it")
                else:
                    self.child_reproposed += 1      # the child's own ask proposed a point it already has (LearnerND)
                    self.tainted[i] = True          # its pending set is no longer predictable from the history
            if k >= len(self.scans):
                continue
            pre = self.scans[k]
            st = self.strategy
            reported = False
            if st == "npoints":
                self.checked[st] += 1
                if pre["counts"][i] != min(pre["counts"]):
                    self.err("C15:npoints_strategy", f"'npoints' served child {i} with {pre['counts'][i]} known+pending "
                                                     f"while the minimum is {min(pre['counts'])} ({pre['counts']})")
            elif st == "cycle":
                self.checked[st] += 1
                if i != self.cycle_next:
                    self.err("C15:cycle_strategy", f"'cycle' served child {i}, rotation expects {self.cycle_next}")
                self.cycle_next = (i + 1) % self.n
            elif st == "loss":
                el = pre["eloss"]
                if not any(math.isnan(x) for x in el):
                    self.checked[st] += 1
                    if el[i] != max(el):
                        sig = self.classify_loss(False) or "C15:loss_strategy"
                        self.err(sig, f"'loss' served child {i} with expected loss {el[i]} while the largest is {max(el)} ({el})")
            elif st == "loss_improvements":
                offs = pre["offers"]
                if all(o is not None for o in offs) and not any(math.isnan(o[1]) for o in offs):
                    self.checked[st] += 1
                    best = max(o[1] for o in offs)
                    bad = None
                    if offs[i][1] != best:
                        bad = f"served child {i} offering {offs[i][1]} while the largest offer is {best}"
                    elif offs[i][0] != hp or not feq(float(imp), offs[i][1]):
                        bad = f"returned ({i},{p!r},{imp}) but child {i} currently offers {offs[i]}"
                    if bad:
                        sig = SIG_F2B if (self.f2b_present and any(self.stale_b_ask)) else "C15:improvement_strategy"
                        self.err(sig, "'loss_improvements' " + bad)
                        reported = True
            # every strategy: the point handed out for child i is what child i itself proposes at this moment, with
            # the improvement it quotes at this moment (whatever the caller did to the child since the last ask)
            own = pre["offers"][i]
            if own is not None:
                self.checked["own_proposal"] += 1
                self.checked["own_proposal_after_caller_tell_pending"] += bool(self.caller_tp[i])
                if not reported and (own[0] != hp or not feq(float(imp), own[1])):
                    sig = SIG_F2B if (self.f2b_present and any(self.stale_b_ask)) else "C15:handed_out_not_current_proposal"
                    self.err(sig, f"'{st}' returned ({i},{p!r},{imp}) but child {i} itself currently proposes {own}"
                                  + (" (the caller reserved a point of its own in that child before)" if self.caller_tp[i] else ""))
            if commit:
                self.caller_tp[i] = False
            # the served child got a tell_pending
            if commit:
                self.pend[i].add(hp)
            self.stale_a[i] = True
            self.stale_b_ask[i] = False
        if not commit:
            # a tentative ask leaves no trace: not in the children, not in the rotation, not in the caches
            self.cycle_next, self.stale_a, self.stale_b_ask = saved_cycle, saved_a, saved_ask

    def on_tell(self, i, p, y):
        hp = W.hashable(self.kind, p)
        if self.kind in ("avg", "lnd", "l1d") and hp in self.told[i]:
            pass                                  # AverageLearner, LearnerND, Learner1D ignore a second result
        else:
            self.told[i][hp] = y
        self.pend[i].discard(hp)
        self.tick += 1
        self.tell_time[i][hp] = self.tick
        self.stale_a[i] = self.stale_b[i] = self.stale_b_ask[i] = False
        self.caller_tp[i] = False

    def on_tell_pending(self, i, p):
        self.pend[i].add(W.hashable(self.kind, p))
        self.caller_tp[i] = True
        self.stale_a[i] = True
        self.stale_b_ask[i] = False

    def on_remove(self):
        self.pend = [set() for _ in range(self.n)]
        self.tainted = [False] * self.n
        self.stale_b = [True] * self.n
        self.stale_b_ask = [True] * self.n
        self.caller_tp = [False] * self.n

    def on_strategy(self, st):
        self.strategy = st
        if st == "cycle":
            self.cycle_next = 0

    def on_loss(self, real, v):
        cl = [W.child_loss(c, real) for c in self.children]
        if any(math.isnan(x) for x in cl):
            return
        self.checked["loss_calls"] += 1
        if float(v) != max(cl):
            sig = self.classify_loss(real) or f"C15:loss_is_max(real={real})"
            self.err(sig, f"loss(real={real}) = {float(v)} but the children say {cl} (max {max(cl)})")

    def check_state(self):
        b, kind = self.b, self.kind
        for i, c in enumerate(self.children):
            d = {W.hashable(kind, p): float(v) for p, v in c.data.items()}
            if d != self.told[i]:
                self.err("C15:routing_tell", f"child {i} data {sorted(d.items())[:6]} != what was told for it {sorted(self.told[i].items())[:6]}")
            pe = {W.hashable(kind, p) for p in c.pending_points}
            want = self.pend[i] - set(self.told[i])
            if pe != want and not self.tainted[i]:
                self.err("C15:routing_tell_pending", f"child {i} pending {sorted(pe)[:6]} != expected {sorted(want)[:6]}")
        union = {(i, p): v for i, c in enumerate(self.children) for p, v in c.data.items()}
        if dict(b.data) != union:
            self.err("C15:aggregates", "data is not the labelled union of the children's data")
        pu = {(i, p) for i, c in enumerate(self.children) for p in c.pending_points}
        if set(b.pending_points) != pu:
            self.err("C15:aggregates", "pending_points is not the labelled union of the children's pending points")
        if b.npoints != sum(c.npoints for c in self.children):
            self.err("C15:aggregates", f"npoints {b.npoints} != sum {sum(c.npoints for c in self.children)}")


# ----------------------------------------------------------------------
def dec_point(kind, child, enc):
    if kind == "l1d":
        return float(enc[0])
    if kind == "avg":
        return int(enc[0])
    if kind == "seq":
        i = int(enc[0])
        return (i, child.sequence[i])
    return tuple(float(c) for c in enc)


def obs_of(kind, b, children, full):
    pend = sorted((int(i), W.enc_point(kind, p)) for i, p in b.pending_points)
    data = None
    if full:
        data = sorted((int(i), W.enc_point(kind, p), float(v)) for (i, p), v in b.data.items())
    return {"npoints": int(b.npoints), "pend": pend, "data": data}


def drive(spec, hist=None, rng=None, concrete=None):
    """Run the real BalancingLearner.  Returns dict(steps, recs, oracle, stop).
    steps: list of (op, out, obs); ops are concrete and replayable."""
    from adaptive import BalancingLearner
    kind, n = spec["kind"], spec["nchild"]
    np.random.seed(spec.get("npseed", 1))
    random.seed(spec.get("npseed", 1))
    children = [W.make_child(kind, k + spec.get("koff", 0), spec.get("size", 60)) for k in range(n)]
    recs = [W.Recorder(kind, c, i) for i, c in enumerate(children)]
    b = BalancingLearner(children, strategy=spec["strategy"])
    orc = Oracle(kind, children, recs, b, spec["strategy"])
    steps, outstanding = [], []
    stop = None

    def finish_step(op, out, full):
        if full:
            for r in recs:
                r.mark_full()
        o = obs_of(kind, b, children, full)
        orc.check_state()
        steps.append((op, out, o))

    def do(op, full=False):
        nonlocal stop
        k = op[0]
        try:
            if k == "ask":
                saved = [r.current for r in recs]
                before = [W.public_state(kind, c) for c in children] if not op[2] else None
                orc.before_ask()
                try:
                    ret = b.ask(op[1], tell_pending=op[2])
                finally:
                    orc.in_ask = False
                    if not op[2]:
                        for r, sn in zip(recs, saved):      # utils.restore put the children back
                            r.restored_to(sn)
                orc.after_ask(op[1], op[2], ret)
                pts = [(int(i), W.enc_point(kind, p)) for i, p in ret[0]]
                if op[2]:
                    outstanding.extend((int(i), p) for i, p in ret[0])
                else:
                    after = [W.public_state(kind, c) for c in children]
                    for i, (x, y) in enumerate(zip(before, after)):
                        if not W.same_state(x, y):
                            orc.err("C15:tentative_ask_left_trace",
                                    f"ask({op[1]}, tell_pending=False) changed child {i}: {W.state_diff(x, y)}")
                finish_step(op, ("ask", pts, [float(v) for v in ret[1]]), full)
            elif k == "tell":
                p = dec_point(kind, children[op[1]], op[2])
                b.tell((op[1], p), op[3])
                orc.on_tell(op[1], p, op[3])
                finish_step(op, ("none",), full)
            elif k == "tell_pending":
                p = dec_point(kind, children[op[1]], op[2])
                b.tell_pending((op[1], p))
                orc.on_tell_pending(op[1], p)
                finish_step(op, ("none",), full)
            elif k == "loss":
                v = b.loss(real=op[1])
                orc.on_loss(op[1], v)
                finish_step(op, ("loss", float(v)), full)
            elif k == "remove_unfinished":
                b.remove_unfinished()
                orc.on_remove()
                outstanding.clear()
                finish_step(op, ("none",), full)
            elif k == "strategy":
                b.strategy = op[1]
                orc.on_strategy(op[1])
                finish_step(op, ("none",), full)
        except IndexError:
            # a child had nothing left to propose (points[0] on an empty answer)
            if k == "ask" and kind == "seq":
                for r in recs:
                    r.mark_full()
                steps.append((op, ("err",), obs_of(kind, b, children, True)))
                stop = "child-exhausted"
            else:
                raise
        except (ValueError, AssertionError, ZeroDivisionError) as e:
            if kind == "lnd" or isinstance(e, ZeroDivisionError):
                stop = f"child-defect:{type(e).__name__}"     # F5/F11/F12: defects of the children, not of C15
            else:
                raise

    if concrete is not None:
        for j, op in enumerate(concrete):
            do(tuple(op), full=True)
            if stop:
                break
    else:
        if kind == "avg":                       # F11: AverageLearner.loss(real=False) divides by npoints = 0
            for i, c in enumerate(children):
                do(("tell", i, [0.0], W.evaluate(kind, c, 0)))
        for j, a in enumerate(hist):
            full = rng.random() < 0.25 or j == len(hist) - 1
            k = a[0]
            if k == "ask":
                do(("ask", a[1], a[2]), full)
            elif k == "tell":
                if a[1] == "outstanding" and outstanding:
                    idx = rng.randrange(len(outstanding)) if a[2] else 0
                    i, p = outstanding.pop(idx)
                    do(("tell", i, W.enc_point(kind, p), W.evaluate(kind, children[i], p)), full)
                elif a[1] == "unsolicited" and kind in ("l1d", "seq"):
                    i = rng.randrange(n)
                    c = children[i]
                    if kind == "l1d":
                        p = round(rng.uniform(*c.bounds), 3)
                    else:
                        p = (rng.randrange(len(c.sequence)), None)
                        p = (p[0], c.sequence[p[0]])
                    outstanding[:] = [(ii, pp) for ii, pp in outstanding if not (ii == i and W.hashable(kind, pp) == W.hashable(kind, p))]
                    do(("tell", i, W.enc_point(kind, p), W.evaluate(kind, c, p)), full)
            elif k == "tell_pending" and kind in ("l1d", "seq", "avg"):
                i = rng.randrange(n)
                c = children[i]
                if kind == "l1d":
                    p = round(rng.uniform(*c.bounds), 3)
                elif kind == "avg":
                    p = int(c.npoints + len(c.pending_points) + rng.randrange(3))
                else:
                    j2 = rng.randrange(len(c.sequence))
                    p = (j2, c.sequence[j2])
                hp = W.hashable(kind, p)
                known = {W.hashable(kind, q) for q in c.data} | {W.hashable(kind, q) for q in c.pending_points}
                if hp not in known:
                    do(("tell_pending", i, W.enc_point(kind, p)), full)
            elif k == "loss":
                do(("loss", a[1]), full)
            elif k == "remove_unfinished" and kind != "lnd":     # F5: LearnerND cannot ask after a discard
                do(("remove_unfinished",), full)
            elif k == "strategy":
                do(("strategy", a[1]), full)
            if stop:
                break
    for r in recs:
        r.unwrap()
    return {"steps": steps, "recs": recs, "oracle": orc, "stop": stop}


def gen_history(rng, maxlen, nc_tail=False):
    h = []
    L = rng.randint(3, maxlen)
    for _ in range(L):
        r = rng.random()
        if r < 0.07:
            # a tentative batch ask, mostly followed by something that shows whether it left a trace
            h.append(("ask", rng.choice([1, 2, 2, 3, 3, 4, 0]), False))
            f = rng.random()
            if f < 0.45:
                h.append(("loss", rng.random() < 0.3))
            elif f < 0.8:
                h.append(("ask", rng.choice([1, 1, 2]), True))
        elif r < 0.27:
            h.append(("ask", rng.choice([1, 1, 1, 2, 2, 3, 4, 0]), True))
        elif r < 0.52:
            h.append(("tell", "outstanding", rng.random() < 0.7))
        elif r < 0.57:
            h.append(("tell", "unsolicited", True))
        elif r < 0.66:
            h.append(("tell_pending",))
        elif r < 0.84:
            h.append(("loss", rng.random() < 0.4))
        elif r < 0.90:
            h.append(("remove_unfinished",))
        else:
            h.append(("strategy", rng.choice(STRATS)))
    if nc_tail:
        h.append(("ask", rng.choice([1, 2]), False))
    return h


def gen_reserve_history(rng, nchild, strategy):
    """Histories around points the CALLER reserves: a warm-up that gives every child results (finite losses and
    improvements), then rounds of  ask -> [a few results] -> tell_pending((i, x)) with caller-chosen x for one or more
    children (no result for those children in between) -> ask, under every strategy, 'loss_improvements' most often
    (the strategy whose asks leave proposals of the children that were not served behind)."""
    h = []
    if strategy != "npoints":
        h.append(("strategy", "npoints"))          # the warm-up spreads its points evenly
    k = nchild * rng.choice([2, 2, 3])
    h.append(("ask", k, True))
    h += [("tell", "outstanding", False)] * k
    st = strategy if rng.random() < 0.5 else rng.choice(["loss_improvements", "loss_improvements"] + STRATS)
    if st != "npoints":
        h.append(("strategy", st))
    for _ in range(rng.randint(1, 4)):
        f = rng.random()
        if f < 0.75:
            h.append(("ask", rng.choice([1, 1, 2, 3]), True))
        elif f < 0.85:
            h.append(("ask", rng.choice([1, 2]), False))
        for _ in range(rng.choice([0, 0, 1, 2])):
            h.append(("tell", "outstanding", True))
        for _ in range(rng.randint(1, nchild)):
            h.append(("tell_pending",))
        g = rng.random()
        if g < 0.12:
            h.append(("loss", rng.random() < 0.4))
        elif g < 0.24:
            h.append(("strategy", rng.choice(STRATS)))
        h.append(("ask", rng.choice([1, 2, nchild, nchild + 1]), rng.random() < 0.8))
    return h


# ----------------------------------------------------------------------
def ipt(i, p):
    return C.pair(C.nat(i), W.pt_term(p))


def op_term(op):
    k = op[0]
    if k == "ask":
        return C.app("@Ask OL", C.nat(op[1]), C.bool_(op[2]))
    if k == "tell":
        return C.app("@Tell OL", C.nat(op[1]), W.pt_term(op[2]), C.flt(op[3]))
    if k == "tell_pending":
        return C.app("@TellPending OL", C.nat(op[1]), W.pt_term(op[2]))
    if k == "loss":
        return C.app("@Loss OL", C.bool_(op[1]))
    if k == "remove_unfinished":
        return "(@RemoveUnfinished OL)"
    return C.app("@SetStrategy OL", STRAT_TERM[op[1]])


def out_term(o):
    if o[0] == "ask":
        return C.app("@OAsk OL", C.lst(ipt(i, p) for i, p in o[1]), C.lst(C.flt(v) for v in o[2]))
    if o[0] == "loss":
        return C.app("@OLoss OL", C.flt(o[1]))
    if o[0] == "err":
        return "(@OErr OL)"
    return "(@ONone OL)"


def obs_term(o):
    return C.app("mkobs", C.nat(o["npoints"]), C.lst(ipt(i, p) for i, p in o["pend"]),
                 C.opt(o["data"], lambda d: C.lst(C.pair(C.nat(i), C.pair(W.pt_term(p), C.flt(v))) for i, p, v in d)),
                 "false")


def case_term(rep, spec, res):
    return C.tup(C.bool_(rep),
                 C.lst((W.child_term(r) for r in res["recs"]), sep=";\n   "),
                 STRAT_TERM[spec["strategy"]],
                 C.lst((C.tup(op_term(op), out_term(out), C.opt(o, obs_term)) for op, out, o in res["steps"]), sep=";\n  "))


def nontrivial(spec, steps):
    if spec["nchild"] < 2:
        return False
    ooo = switch = lossop = multi = False
    asked = []
    for op, out, o in steps:
        if op[0] == "ask" and out[0] == "ask":
            asked += [(i, tuple(p)) for i, p in out[1]]
            multi |= op[1] >= 2
        elif op[0] == "tell":
            key = (op[1], tuple(op[2]))
            if key in asked:
                ooo |= asked.index(key) != 0
                asked.remove(key)
        elif op[0] == "strategy":
            switch = True
        elif op[0] == "loss":
            lossop = True
    return ooo and multi and (switch or lossop)


def shrink(spec, ops, sig, budget=150):
    """Greedy removal of ops while the oracle still reports `sig`."""
    def fails(cand):
        try:
            r = drive(spec, concrete=cand)
        except Exception:
            return False
        return any(s == sig for s, _ in r["oracle"].errors)
    cur = list(ops)
    changed = True
    while changed and budget > 0:
        changed = False
        i = len(cur) - 1
        while i >= 0 and budget > 0:
            cand = cur[:i] + cur[i + 1:]
            budget -= 1
            if cand and fails(cand):
                cur, changed = cand, True
            i -= 1
    return cur


def run(chk: Check) -> int:
    chk.prove(["theories/Props/C15.vo", "theories/Run/BalancingRun.vo"], THEOREMS)
    a_ok, b_ok = probe_f2()
    rep = a_ok
    Oracle.f2a_present, Oracle.f2b_present = not a_ok, not b_ok
    chk.log(f"F2 probe on the real class: F2a {'repaired' if a_ok else 'present'}, F2b {'repaired' if b_ok else 'present'}"
            f" -> model run with repaired={rep}")
    ncases = 600 if chk.quick else 5000
    maxlen = 28 if chk.quick else 70
    cases, metas = [], []
    hist_ops, sizes, kinds, stops, strat_iter = {}, {}, {}, {}, {}
    seen_sig = set()

    def add(spec, res, origin):
        steps = res["steps"]
        if a_ok != b_ok:
            # partially repaired: the model has one switch; stop comparing at the first discard
            cut = next((j for j, s in enumerate(steps) if s[0][0] == "remove_unfinished"), len(steps))
            res = dict(res, steps=steps[:cut])
        cases.append(case_term(rep, spec, res))
        ops = [list(s[0]) for s in steps]
        metas.append({"spec": spec, "ops": ops, "origin": origin})
        chk.note_case((spec["kind"], spec["nchild"], spec["strategy"], ops), nontrivial(spec, steps))
        for s in steps:
            nm = "ask(tell_pending=False)" if s[0][0] == "ask" and not s[0][2] else s[0][0]
            hist_ops[nm] = hist_ops.get(nm, 0) + 1
        bkt = f"len<={10 * (len(steps) // 10 + 1)}"
        sizes[bkt] = sizes.get(bkt, 0) + 1
        kk = f"{spec['kind']}x{spec['nchild']}"
        kinds[kk] = kinds.get(kk, 0) + 1
        if res["stop"]:
            stops[res["stop"]] = stops.get(res["stop"], 0) + 1
        for k, v in res["oracle"].checked.items():
            strat_iter[k] = strat_iter.get(k, 0) + v
        if res["oracle"].child_reproposed:
            stops["(child re-proposed a point it already has)"] = stops.get("(child re-proposed a point it already has)", 0) + 1
        if len(steps) > 6 and spec["nchild"] >= 3:
            chk.sample({"children": kk, "strategy": spec["strategy"], "ops": ops[:10]})
        for sig, msg in res["oracle"].errors:
            if sig in seen_sig:
                continue
            seen_sig.add(sig)
            small = shrink(spec, ops, sig) if not origin.startswith("corpus") else ops
            chk.fail(sig, f"BalancingLearner({spec['nchild']} x {spec['kind']}, strategy={spec['strategy']}): {msg}",
                     {"spec": spec, "ops": small})

    totals = {"cases": 0, "mism": 0, "legal": 0}

    def flush(tag):
        # evaluate the accumulated cases inside Coq, then forget them (memory)
        if not cases:
            return
        mism, legal, errors = chk.coq_cases(tag, PREAMBLE, "case", cases, "check", "is_legal",
                                            shard=min(250, max(8, len(cases) // 16 + 1)))
        for e in errors:
            chk.broke("correspondence", "Model/Balancing.v cases could not be evaluated", e)
        for c, s in mism[:5]:
            m = metas[c]
            chk.broke("correspondence", f"Model/Balancing.v (repaired={rep}) vs BalancingLearner: case {m['origin']} step {s}",
                      {"spec": m["spec"], "ops": m["ops"][:s + 1]})
        totals["cases"] += len(cases)
        totals["mism"] += len(mism)
        totals["legal"] += legal
        for f in chk.work.glob(tag + "_*.v"):
            f.unlink()
        cases.clear()
        metas.clear()

    corpus = sorted((chk.work.parents[1] / "corpus" / "C15").glob("*.json"))
    for f in corpus:
        d = json.loads(f.read_text())
        res = drive(d["spec"], concrete=d["ops"])
        add(d["spec"], res, "corpus/" + f.name)
    for k in range(ncases):
        rng = chk.rng("case", k)
        kind = rng.choice(["l1d", "l1d", "l1d", "avg", "seq", "lnd"])
        spec = {"kind": kind, "nchild": rng.choice([1, 2, 3, 3, 4, 5]), "strategy": rng.choice(STRATS),
                "npseed": rng.randrange(10 ** 6), "koff": rng.randrange(8),
                "size": rng.choice([2, 3, 5, 8]) if (kind == "seq" and rng.random() < 0.35) else 60}
        ml = maxlen if kind != "lnd" else min(maxlen, 22)
        if kind != "lnd" and rng.random() < 0.25:
            hist = gen_reserve_history(rng, spec["nchild"], spec["strategy"])
        else:
            hist = gen_history(rng, ml)
        res = drive(spec, hist, rng)
        add(spec, res, f"seed{chk.seed}/{k}")
        if len(cases) >= 1500:
            flush(f"cases{k}")
    flush("cases")
    exhaustive = 0
    if not chk.quick:
        # every op sequence of length <= 4 over a 9-letter alphabet, after a fixed warm-up, two Learner1D children,
        # each initial strategy
        import itertools
        alphabet = [("ask", 1, True), ("ask", 2, True), ("tell", "outstanding", False), ("ask", 2, False),
                    ("tell_pending",), ("loss", False), ("loss", True), ("remove_unfinished",), ("strategy", None)]
        warm = [("ask", 3, True), ("tell", "outstanding", False), ("tell", "outstanding", False)]
        for st in STRATS:
            nxt = STRATS[(STRATS.index(st) + 1) % 4]
            for L in range(1, 5):
                for word in itertools.product(alphabet, repeat=L):
                    hist = warm + [("strategy", nxt) if a[0] == "strategy" else a for a in word]
                    spec = {"kind": "l1d", "nchild": 2, "strategy": st, "npseed": 1, "koff": 0, "size": 60}
                    res = drive(spec, hist, random.Random(exhaustive))
                    add(spec, res, f"exhaustive/{st}/{exhaustive}")
                    exhaustive += 1
            flush("exh_" + STRAT_TERM[st])
    flush("cases")
    chk.extra.update({"op_histogram": hist_ops, "length_histogram": sizes, "children_histogram": kinds,
                      "histories_stopped": stops, "oracle_strategy_iterations_checked": strat_iter,
                      "legal_histories_per_coq": totals["legal"], "cases_compared_in_coq": totals["cases"],
                      "mismatches": totals["mism"], "model_repaired_flag": rep,
                      "F2_probe": {"F2a_repaired": a_ok, "F2b_repaired": b_ok},
                      "exhaustive_small_scope_cases": exhaustive, "exhaustive": False})
    chk.log(f"correspondence: {totals['cases']} cases, {totals['mism']} mismatches, {totals['legal']} legal; oracle signatures {sorted(seen_sig)}")
    return chk.finish(
        rule="histories generated by driving the real BalancingLearner over 1-5 real children of one kind (Learner1D, AverageLearner, "
             "SequenceLearner, LearnerND): committing and tentative (tell_pending=False) asks of 0-4 points under all four strategies with switches, out-of-order and unsolicited tells, "
             "tell_pending of caller-chosen points (a quarter of the non-LearnerND histories: warm-up with results for every child, then rounds ask / "
             "caller's tell_pending in one or more children / ask), loss(real) for both flags, remove_unfinished; non-trivial = >=2 children, an ask of >=2 points, an out-of-order "
             "tell and (a strategy switch or a loss call); distinct by (children, strategy, op list)",
        assumptions=["hand-written model Model/Balancing.v tied to the code by the sampled correspondence only",
                     "children enter the model run as recorded oracle tables (Run/OracleChild.v): only the wrapper's logic is compared",
                     "C15_cache_coherent / loss / improvement theorems assume the child's non-committing ask(1) leaves it unchanged (C09 of the child)",
                     "AverageLearner children are seeded with one result each (F11: loss(real=False) divides by zero otherwise); "
                     "LearnerND children get no remove_unfinished (F5) and no unsolicited points (F12)",
                     "the all-histories theorems (tentative asks included) assume utils.restore puts every child back exactly (C09 of the children)"])


def replay(doc) -> int:
    bad = 0
    items = doc.get("failing_inputs", []) + [b for b in doc.get("no_longer_checks", []) if isinstance(b.get("detail"), dict)]
    for f in items:
        r = f.get("replay") or f.get("detail")
        res = drive(r["spec"], concrete=r["ops"])
        errs = res["oracle"].errors
        print("replayed", r["spec"], len(res["steps"]), "ops ->", errs[:3] or "oracle silent")
        bad += bool(errs)
    return 1 if bad else 0
