"""C14 -- Saving is atomic: a crash never leaves a damaged file; loading tolerates absence.

proof          : coq/theories/Props/C14.v (model Model/SaveFS.v) -- for all fault plans / crash points
correspondence : the REAL adaptive.utils.save under fault injection at every file-system call
                 (OSError in-process, process death in forked children of a worker subprocess);
                 call trace, outcome and final directory contents compared with the model in Coq
search         : from-scratch oracle of the property text on every run (destination loads and is old
                 or new; a reported failure leaves the old version; BaseLearner.load of a missing /
                 empty file changes nothing)
"""
from __future__ import annotations

import concurrent.futures as cf
import io
import json
import os
import re
import shutil
import subprocess
import sys

from .. import coqio as C
from .. import impl_c14_inject as J
from ..core import NPROC, WORK, Check, coqc_file, split_evals

THEOREMS = {n: "Props.C14" for n in [
    "C14_atomic", "C14_atomic_py", "C14_atomic_prefix", "C14_error_reports_and_preserves",
    "C14_outcome_meaning", "C14_success", "C14_load_absent_noop", "C14_atomic_loadable"]}

PREAMBLE = """From Coq Require Import String Ascii NArith List. Import ListNotations.
From AV Require Import Base.Prelude Model.SaveFS Run.SaveFSRun."""

IO4 = ("open", "write", "close", "replace")
SC = {"makedirs": "SMakedirs", "open": "SOpen", "write": "SWrite", "close": "SClose",
      "replace": "SReplace", "exists": "SExists", "remove": "SRemove"}
# a short write that was accepted is, for the model, a write of that shorter chunk (see abstract)
RES = {"ok": "ROk", "short": "ROk", "fail": "RFail", "die": "RDie", "true": "RTrue", "false": "RFalse"}


# ----------------------------------------------------------------------
# printing a run as a Coq case
def cstr(s: str) -> str:
    return '"' + s.replace('"', '""') + '"%string'


def cbytes(b: bytes) -> str:
    return "[" + ";".join(str(x) for x in b) + "]%N"


def cdec(d) -> str:
    return "Ok" if d[0] in ("ok", "short") else f"({'Fail' if d[0] == 'fail' else 'Die'} {int(d[1])}%nat)"


def abstract(obs):
    """Rename the temp path the code chose to <dst>.PID; returns (rename, chunks)."""
    dst = obs["dst"]
    tmp_real = next((e["p1"] for e in obs["events"] if e["sc"] == "open" and e["p1"] != dst), None)

    def ren(p):
        return dst + ".PID" if tmp_real is not None and p == tmp_real else p
    # the data of the successive raw write calls; of a short write only the accepted part counts
    # (the retry of the rest, if the code retries, is the next call)
    chunks = [bytes.fromhex(e["data"])[:e["n"]] if e["res"] == "short" else bytes.fromhex(e["data"])
              for e in obs["events"] if e["sc"] == "write"]
    if not chunks:
        chunks = [J.encode(J.new_data_of(obs["cfg"]), obs["cfg"]["compress"])]
    return ren, chunks


def cout(out) -> str:
    if out[0] == "returned":
        return f"(Returned {C.bool_(out[1])})"
    if out[0] == "raised" and out[1] in SC:
        return f"(Raised {SC[out[1]]})"
    if out[0] == "died":
        return "Died"
    return "(Raised SExists)"          # nothing the model ever produces: forces a mismatch


def case_term(obs) -> str:
    ren, chunks = abstract(obs)

    def files(snap):
        return C.lst((C.pair(cstr(ren(p)), cbytes(bytes.fromhex(h))) for p, h in sorted(snap["files"].items())),
                     sep=";\n    ")

    def dirs(snap):
        return C.lst(cstr(d) for d in snap["dirs"])
    evs = C.lst((C.app("mkev", SC[e["sc"]], cstr(ren(e["p1"])), cstr(ren(e["p2"])) if e["p2"] else "E0",
                       C.nat(e["n"]), RES[e["res"]]) for e in obs["events"]), sep=";\n    ")
    return C.app("mkcase", cstr(obs["dst"]), cstr("PID"), C.lst(cdec(d) for d in obs["plan"]),
                 C.lst(cbytes(c) for c in chunks), "\n   " + files(obs["before"]), dirs(obs["before"]),
                 cout(obs["out"]), "\n   " + evs, "\n   " + files(obs["after"]), dirs(obs["after"]))


# ----------------------------------------------------------------------
# the property text, from scratch
class Oracle:
    def __init__(self, scratch):
        self.scratch = scratch
        self.cache = {}

    def load_bytes(self, b: bytes, compress: bool):
        """What adaptive.utils.load makes of a file with these bytes."""
        key = (b, compress)
        if key not in self.cache:
            import adaptive.utils as U
            p = os.path.join(self.scratch, "oracle.bin")
            with open(p, "wb") as f:
                f.write(b)
            try:
                self.cache[key] = ("ok", U.load(p, compress))
            except Exception as e:  # noqa: BLE001
                self.cache[key] = ("error", f"{type(e).__name__}: {e}")
        return self.cache[key]

    def learner_load(self, b: bytes, compress: bool):
        import adaptive
        p = os.path.join(self.scratch, "oracle_l.bin")
        with open(p, "wb") as f:
            f.write(b)
        lrn = adaptive.Learner1D(lambda x: x, (-1, 1))
        try:
            lrn.load(p, compress=compress)
        except Exception as e:  # noqa: BLE001
            return ("error", f"{type(e).__name__}: {e}")
        return ("ok", dict(lrn.data))

    def check(self, obs):
        """Returns [(clause, message)]."""
        errs = []
        cfg, dst = obs["cfg"], obs["dst"]
        comp = cfg["compress"]
        new_data = J.new_data_of(cfg)
        old = obs["before"]["files"].get(dst)
        now = obs["after"]["files"].get(dst)
        out = obs["out"]
        died = out[0] == "died"
        # OSErrors injected by the plan (a failure nobody injected is the code's own doing)
        fails = [e["sc"] for e, d in zip(obs["events"], obs["plan"]) if e["res"] == "fail" and d[0] == "fail"]
        where = describe(obs)
        learner = cfg.get("via") == "learner"
        load = self.learner_load if learner else self.load_bytes
        # destination: complete previous or complete new version, loadable
        if now is None:
            if old is not None:
                errs.append(("destination-lost", f"{where}: the destination no longer exists"))
        else:
            st, val = load(bytes.fromhex(now), comp)
            if st != "ok":
                errs.append(("damaged", f"{where}: the destination cannot be loaded ({val})"))
            elif not ((old is not None and val == J.OLD_DATA) or val == new_data):
                errs.append(("not-old-or-new", f"{where}: the destination loads to {str(val)[:80]!r}, neither the previous nor the new data"))

        def success():
            if now is None or load(bytes.fromhex(now), comp) != ("ok", new_data):
                errs.append(("success-broken", f"{where}: save reported success but the destination does not hold the new data"))
            extra = set(obs["after"]["files"]) - set(obs["before"]["files"]) - {dst}
            if extra:
                errs.append(("temp-left-after-success", f"{where}: files left behind after a successful save: {sorted(extra)}"))

        def untouched(why):
            if now != old or obs["same_inode"] is False:
                errs.append(("failure-touched-previous", f"{where}: {why} but the previous version was "
                             + ("replaced/modified" if now != old else "rewritten")))

        if "rlimit" in cfg:
            # the real kernel refuses to let files grow beyond the limit; nothing is injected or observed
            fits = len(J.encode(new_data, comp)) <= cfg["rlimit"]
            if out == ["returned", True]:
                success()
            elif out == ["returned", False] or out[0] == "raised":
                untouched(f"save reported failure ({out})")
                if fits:
                    errs.append(("success-broken", f"{where}: the file fits but save gave {out}"))
            else:
                errs.append(("unexpected-exception", f"{where}: {out}"))
        elif fails:
            # a failing save reports failure and leaves the previous version alone
            untouched(f"an OSError was raised in {fails}")
            if not died and not learner:
                if all(f in IO4 for f in fails):
                    if out != ["returned", False]:
                        errs.append(("failure-not-reported", f"{where}: OSError in {fails}, save gave {out} instead of False"))
                elif not (out == ["returned", False] or out[0] == "raised"):
                    errs.append(("failure-not-reported", f"{where}: OSError in {fails}, save gave {out}"))
        elif not died:
            # nothing failed (short writes are not failures), nobody died
            if not learner and out != ["returned", True]:
                errs.append(("success-broken", f"{where}: fault-free save gave {out} instead of True"))
            if learner and out[0] != "learner_returned":
                errs.append(("success-broken", f"{where}: fault-free learner.save gave {out}"))
            success()
        if out == ["returned", True] and not errs:
            success()                    # whatever happened on the way: True means the new version is in place
        # bystanders are never touched
        for p, h in obs["before"]["files"].items():
            if p != dst and not p.startswith(dst + ".") and obs["after"]["files"].get(p) != h:
                errs.append(("bystander-touched", f"{where}: unrelated file {p} changed"))
        return errs


def describe(obs):
    c = obs["cfg"]
    plan = ",".join("ok" if d[0] == "ok" else f"{d[0]}({d[1]})" for d in obs["plan"]) or "no fault"
    if c.get("stale"):
        plan += "; stale temp file present"
    if c.get("big"):
        plan += f"; {c['big']}-entry payload"
    calls = ">".join(f"{e['sc']}:{e['res']}" for e in obs["events"])
    return (f"save({obs['dst']!r}, compress={c['compress']}, previous file={c['prev']}, layout={c['layout']}"
            f"{', via learner.save' if c.get('via') else ''}) plan [{plan}] calls [{calls}] ({obs['where']})")


# ----------------------------------------------------------------------
# enumeration of the decision tree of the real code
def lens_for(m, quick):
    ls = {0, 1, m // 2, max(m - 1, 0)}
    if not quick:
        ls |= {m, m + 7}
    return sorted(x for x in ls if x >= 0)


BUDGET = [0]          # runs left for the exploration of one configuration


def shorts_for(m, quick):
    """Sizes k (1 <= k < m) of a short write: the raw write accepts k bytes and returns k, no error."""
    ks = {1, m // 2} if quick else {1, m // 2, m - 1}
    return sorted(k for k in ks if 1 <= k < m)


def explore(cfg, root, quick, on_obs, die_jobs, plan=()):
    """Depth-first over the decision tree of the real code: every call reached beyond the forced
    prefix is made to fail / die (/ come back short, at most once per plan) in turn."""
    plan = [list(d) for d in plan]
    BUDGET[0] -= 1
    if BUDGET[0] < 0 or len(plan) > 24:
        raise RuntimeError(f"the decision tree of the real save does not close (plan {plan})")
    obs = J.run_case(cfg, plan, root)
    on_obs(obs)
    evs = obs["events"]
    for j in range(len(plan), len(evs)):
        pre = plan + [["ok"]] * (j - len(plan))
        if evs[j]["sc"] == "write":
            m = len(evs[j]["data"]) // 2
            ns = lens_for(m, quick)
            if not any(d[0] == "short" for d in plan):
                for k in shorts_for(m, quick):
                    explore(cfg, root, quick, on_obs, die_jobs, pre + [["short", k]])
        else:
            ns = [0]
        for n in ns:
            die_jobs.append((cfg, pre + [["die", n]]))
            explore(cfg, root, quick, on_obs, die_jobs, pre + [["fail", n]])
    return obs


def has_short(plan):
    return any(d[0] == "short" for d in plan)


def run_workers(jobs, base, log):
    """jobs: [(cfg, plan)] -> observations, each run in a forked child of a fresh interpreter."""
    if not jobs:
        return []
    W = max(1, min(8, NPROC, len(jobs)))
    shards = [[] for _ in range(W)]
    for i, (cfg, plan) in enumerate(jobs):
        shards[i % W].append({"cfg": cfg, "plan": plan, "root": os.path.join(base, f"w{i % W}", f"j{i}"), "i": i})
    def one(sh):
        return subprocess.run([sys.executable, "-m", "avh.impl_c14_inject"], input=json.dumps(sh), text=True,
                              stdout=subprocess.PIPE, stderr=subprocess.PIPE, env=os.environ.copy(), timeout=1200)
    out = [None] * len(jobs)
    with cf.ThreadPoolExecutor(max_workers=W) as ex:
        for sh, p in zip(shards, ex.map(one, shards)):
            if p.returncode != 0 or not p.stdout:
                raise RuntimeError(f"fault-injection worker failed rc={p.returncode}: {p.stderr[-1500:]}")
            for j, o in zip(sh, json.loads(p.stdout)):
                out[j["i"]] = o
    return out


def coq_cases(chk: Check, cases, shard=150, timeout=900):
    """Like Check.coq_cases (sharded `mismatches check cases` + `count_true observed_atomic cases` by vm_compute
    inside Coq) with an answer parser that tolerates the line breaks Coq inserts in long lists."""
    files = []
    for k in range(0, len(cases), shard):
        f = chk.work / f"cases_{k // shard}.v"
        f.write_text("\n".join([PREAMBLE, "Definition cases : list case := [", ";\n".join(cases[k:k + shard]), "].",
                                "Eval vm_compute in (mismatches check cases).",
                                "Eval vm_compute in (count_true observed_atomic cases)."]) + "\n")
        files.append((k, f))
    mism, legal, errors = [], 0, []
    with cf.ThreadPoolExecutor(max_workers=NPROC) as ex:
        for (k, f), (rc, out, _) in zip(files, ex.map(lambda kf: coqc_file(kf[1], timeout), files)):
            parts = split_evals(out) if rc == 0 else []
            if rc != 0 or len(parts) != 2 or "list (nat * nat)" not in parts[0]:
                errors.append(f"{f.name}: rc={rc}: {out[-800:]}")
                continue
            mism += [(k + int(a), int(b)) for a, b in re.findall(r"\(\s*(\d+)\s*,\s*(\d+)\s*\)", parts[0])]
            legal += C.parse_nat(parts[1])
    chk.checker_cmds.append(f"coqc cases_*.v ({len(files)} shards, comparison by vm_compute inside Coq)")
    return sorted(mism), legal, errors


def big_config():
    """A payload larger than the I/O buffer: the real BufferedWriter then writes straight through during
    f.write instead of at close.  Oracle only (kilobytes per file are not shipped to Coq)."""
    try:
        blk = max(getattr(os.stat(str(WORK)), "st_blksize", 0), io.DEFAULT_BUFFER_SIZE)
    except OSError:
        return None
    if blk > 65536:
        return None
    return {"layout": "bare", "prev": True, "compress": False, "big": blk // 18 + 120}


def cfg_key(cfg):
    return tuple(sorted((k, v) for k, v in cfg.items()))


def configs(quick):
    cs = []
    for comp in (True, False):
        for lay in (("bare", "sub", "newdir") if quick else ("bare", "sub", "newdir", "abs")):
            for prev in ((False,) if lay == "newdir" else (True, False)):
                cs.append({"layout": lay, "prev": prev, "compress": comp})
    if quick:
        cs.append({"layout": "bare", "prev": True, "compress": True, "stale": True, "err": 1})
        cs.append({"layout": "sub", "prev": False, "compress": False, "stale": True, "err": 2})
    else:
        base = list(cs)
        for k, c in enumerate(base):
            if c["layout"] != "newdir":          # no stale temp file in a directory that does not exist yet
                cs.append(dict(c, stale=True, err=1 + k % 4))
        for k, c in enumerate(base):
            if c["layout"] in ("bare", "sub"):
                cs.append(dict(c, err=1 + (k + 2) % 4))
    return cs


# ----------------------------------------------------------------------
# loading from a missing / empty file
def learner_zoo(quick):
    import adaptive
    import numpy as np

    def l1d():
        l = adaptive.Learner1D(lambda x: x ** 2, (-1, 1))
        pts, _ = l.ask(7)
        for p in pts[:5]:
            l.tell(p, p ** 2)
        return l

    def avg():
        l = adaptive.AverageLearner(lambda s: s * 0.1, atol=0.01)
        pts, _ = l.ask(6)
        for p in pts[:4]:
            l.tell(p, p * 0.1)
        return l

    def seq():
        l = adaptive.SequenceLearner(lambda x: x, list(range(10, 20)))
        pts, _ = l.ask(5)
        for p in pts[:3]:
            l.tell(p, p[1] * 2)
        return l

    zoo = {"Learner1D": l1d, "AverageLearner": avg, "SequenceLearner": seq}
    if not quick:
        def lnd():
            l = adaptive.LearnerND(lambda xy: xy[0] + xy[1], [(-1, 1), (-1, 1)])
            pts, _ = l.ask(8)
            for p in pts[:6]:
                l.tell(p, p[0] + p[1])
            return l

        def integ():
            l = adaptive.IntegratorLearner(np.cos, (0, 1), tol=1e-3)
            pts, _ = l.ask(12)
            for p in pts[:9]:
                l.tell(p, float(np.cos(p)))
            return l

        def saver():
            l = adaptive.DataSaver(adaptive.Learner1D(lambda x: {"y": x}, (-1, 1)), arg_picker=lambda d: d["y"])
            pts, _ = l.ask(5)
            for p in pts[:3]:
                l.tell(p, {"y": p})
            return l

        def avg1d():
            l = adaptive.AverageLearner1D(lambda sx: sx[1], (-1, 1))
            pts, _ = l.ask(6)
            for p in pts[:4]:
                l.tell(p, p[1])
            return l
        zoo.update({"LearnerND": lnd, "IntegratorLearner": integ, "DataSaver": saver, "AverageLearner1D": avg1d})
    return zoo


def learner_state(l):
    def rep(v):
        try:
            if isinstance(v, (set, frozenset)):
                return repr(sorted(v, key=repr))
            if hasattr(v, "items"):
                return repr(sorted(((repr(k), repr(x)) for k, x in v.items())))
            return repr(v)
        except Exception:  # noqa: BLE001
            return "<unrepr>"
    inner = getattr(l, "learner", l)         # DataSaver wraps a learner
    st = {"data": rep(inner.data), "npoints": l.npoints}
    for a in ("_losses", "_data_samples", "_number_samples", "error", "igral", "err", "pending_points", "_stack", "losses", "losses_combined", "neighbors", "neighbors_combined",
              "_scale", "_bbox", "extra_data", "sum_f", "sum_f_sq", "_to_do_indices", "_ntotal", "rescaled_error",
              "_oldscale", "_undersampled_points"):
        if hasattr(l, a):
            st[a] = rep(getattr(l, a))
    for real in (True, False):
        try:
            st[f"loss{real}"] = repr(l.loss(real=real))
        except Exception as e:  # noqa: BLE001
            st[f"loss{real}"] = "raises " + type(e).__name__
    return st


def check_load_absent(chk: Check, scratch):
    """BaseLearner.load on a missing and on an empty file leaves a real learner unchanged;
    also validates the model's only assumption about decoding (EOF on empty input)."""
    import adaptive.utils as U
    n = 0
    missing = os.path.join(scratch, "no-such-dir", "missing.pickle")
    empty = os.path.join(scratch, "empty.pickle")
    with open(empty, "wb"):
        pass
    for comp in (True, False):
        for path, exc, what in ((missing, FileNotFoundError, "missing"), (empty, EOFError, "empty")):
            try:
                U.load(path, comp)
                got = "no exception"
            except BaseException as e:  # noqa: BLE001
                got = type(e)
            if got is not exc:
                chk.broke("assumption", f"utils.load of a {what} file (compress={comp}) raises {exc.__name__}",
                          f"observed {got}")
    for name, mk in learner_zoo(chk.quick).items():
        # the comparison must be able to see a load that does happen
        donor = mk()
        pts, _ = donor.ask(1)
        donor.tell(pts[0], donor.function(pts[0]))
        full = os.path.join(scratch, "donor.pickle")
        with open(full, "wb") as f:
            f.write(J.encode(donor._get_data(), True))
        l = mk()
        before = learner_state(l)
        l.load(full)
        if learner_state(l) == before:
            chk.broke("machinery", f"the state snapshot of {name} does not see a successful load", "")
        for comp in (True, False):
            for path, what in ((missing, "missing"), (empty, "empty")):
                l = mk()
                before = learner_state(l)
                try:
                    l.load(path, compress=comp)
                    after = learner_state(l)
                    diff = sorted(k for k in before if before[k] != after.get(k))
                    msg = f"changed {diff}" if diff else None
                except Exception as e:  # noqa: BLE001
                    msg = f"raised {type(e).__name__}: {e}"
                n += 1
                chk.note_case(("load", name, comp, what), True)
                if msg:
                    chk.fail("C14:load-absent-changes-learner",
                             f"{name}.load of a {what} file (compress={comp}) {msg}",
                             {"kind": "load", "learner": name, "compress": comp, "file": what})
    return n


# ----------------------------------------------------------------------
def run(chk: Check) -> int:
    chk.prove(["theories/Props/C14.vo", "theories/Run/SaveFSRun.vo"], THEOREMS)
    base = str(chk.work / "fs")
    shutil.rmtree(base, ignore_errors=True)
    os.makedirs(base)
    orc = Oracle(base)
    observations, die_jobs, per_cfg = [], [], {}
    hist_point, hist_out, hist_dst = {}, {}, {}

    def on_obs(o):
        observations.append(o)

    # minimised failing cases of earlier runs are replayed first
    for f in sorted((chk.work.parents[1] / "corpus" / "C14").glob("*.json")):
        d = json.loads(f.read_text())
        if any(x[0] == "die" for x in d["plan"]):
            die_jobs.append((d["cfg"], d["plan"]))
        else:
            on_obs(J.run_case(d["cfg"], d["plan"], os.path.join(base, "inproc")))
    ncorpus = len(observations) + len(die_jobs)
    cfgs = configs(chk.quick)
    refs = {}
    for cfg in cfgs:
        n0, d0 = len(observations), len(die_jobs)
        BUDGET[0] = 4000
        ref = explore(cfg, os.path.join(base, "inproc"), chk.quick, on_obs, die_jobs)
        refs[cfg_key(cfg)] = ref
        # the model has no "short" decision (a short write is a shorter chunk): its tree is compared
        # with the plans that contain none
        per_cfg[cfg_key(cfg)] = (sum(1 for o in observations[n0:] if not has_short(o["plan"]))
                                 + sum(1 for _, p in die_jobs[d0:] if not has_short(p)))
    chk.log(f"{len(cfgs)} configurations: {len(observations)} OSError plans run in-process, {len(die_jobs)} death plans")
    jobs = list(die_jobs)
    if not chk.quick:
        jobs += [(dict(c, kill="sigkill"), p) for c, p in die_jobs]                  # SIGKILL instead of os._exit
        jobs += [(o["cfg"], o["plan"]) for o in observations]                         # OSError plans again, in a child
    # the same through BaseLearner.save (oracle only: its return value is None)
    lcfgs = [{"layout": "sub", "prev": True, "compress": True, "via": "learner"},
             {"layout": "bare", "prev": False, "compress": False, "via": "learner"}]
    learner_obs, ljobs = [], []
    for cfg in lcfgs:
        BUDGET[0] = 4000
        explore(cfg, os.path.join(base, "inproc"), True, learner_obs.append, ljobs)
    # ... and with a payload larger than the I/O buffer (oracle only)
    nbig = 0
    if big_config():
        n0 = len(learner_obs) + len(ljobs)
        BUDGET[0] = 4000
        explore(big_config(), os.path.join(base, "inproc"), True, learner_obs.append, ljobs)
        nbig = len(learner_obs) + len(ljobs) - n0
    # the real kernel makes the write come back short: RLIMIT_FSIZE in a forked child, nothing patched
    # (oracle only: no call trace is observed)
    rjobs = []
    for comp in (True, False):
        m = len(J.encode(J.NEW_DATA, comp))
        for prev in (True, False):
            for lim in sorted({0, 1, m // 2, m - 1, m, m + 100}):
                rjobs.append(({"layout": "sub" if prev else "bare", "prev": prev, "compress": comp, "rlimit": lim}, []))
    n_main = len(jobs)
    died = run_workers(jobs + ljobs + rjobs, base, chk.log)
    observations += died[:n_main]
    learner_obs += died[n_main:n_main + len(ljobs)]
    rlimit_obs = died[n_main + len(ljobs):]
    shutil.rmtree(os.path.join(base, "inproc"), ignore_errors=True)
    chk.log(f"{len(observations)} runs of utils.save + {len(learner_obs)} of Learner1D.save observed")

    # oracle + statistics
    found = []
    for o in observations + learner_obs + rlimit_obs:
        plan = o["plan"]
        for e, d in zip(o["events"], plan):
            if d[0] != "ok":
                k = f"{e['sc']}:{ {'die': 'death', 'fail': 'OSError', 'short': 'short write'}[d[0]]}"
                hist_point[k] = hist_point.get(k, 0) + 1
        hist_out[str(o["out"][:2])] = hist_out.get(str(o["out"][:2]), 0) + 1
        old, now = o["before"]["files"].get(o["dst"]), o["after"]["files"].get(o["dst"])
        k = "absent" if now is None else "previous version" if now == old else "changed (the oracle requires: loads to the new data)"
        hist_dst[k] = hist_dst.get(k, 0) + 1
        chk.note_case((cfg_key(o["cfg"]), plan), any(d[0] != "ok" for d in plan) or "rlimit" in o["cfg"])
        if o["out"][0] == "other":
            found.append(("C14:unexpected-exception", f"{describe(o)}: {o['out'][1]}",
                          {"kind": "save", "cfg": o["cfg"], "plan": plan}))
        for clause, msg in orc.check(o)[:1]:
            found.append((f"C14:{clause}", msg, {"kind": "save", "cfg": o["cfg"], "plan": plan}))
    # one failing input per kind of failure first (the replay file keeps the first five)
    found.sort(key=lambda f: (sum(1 for d in f[2]["plan"] if d[0] != "ok"), len(f[2]["plan"])))   # simplest plan first
    seen = set()
    firsts = [f for f in found if not (f[0] in seen or seen.add(f[0]))]
    for f in firsts + [f for f in found if f not in firsts][:40]:
        chk.fail(*f)
    for o in observations[:400:97]:
        chk.sample({"cfg": o["cfg"], "plan": o["plan"], "outcome": o["out"][:2],
                    "calls": [f"{e['sc']}:{e['res']}" + (f":{e['n']}B" if e["sc"] == "write" else "") for e in o["events"]]})

    # correspondence inside Coq
    cases = [case_term(o) for o in observations]
    # positive control: a deliberately falsified observation must be reported by Coq
    fake = dict(observations[0], out=["returned", observations[0]["out"] != ["returned", True]])
    mism, atomic_ok, errors = coq_cases(chk, cases + [case_term(fake)], shard=150)
    if not errors:
        if not any(m[0] == len(cases) for m in mism):
            chk.broke("machinery", "the falsified control case was not reported by the Coq comparison", str(mism[-3:]))
        mism = [m for m in mism if m[0] != len(cases)]
        atomic_ok -= 1          # the control's file system is that of a real run
    for e in errors:
        chk.broke("correspondence", "Model/SaveFS.v cases could not be evaluated", e)
    code = {0: "outcome", 1: "call trace", 2: "files afterwards", 3: "directories afterwards"}
    for c, s in mism[:5]:
        o = observations[c]
        says = chk.coq_eval(f"says_{c}", PREAMBLE + f"\nDefinition c : case := {case_term(o)}.", ["model_says c"])
        chk.broke("correspondence", f"Model/SaveFS.v vs adaptive.utils.save: {code.get(s, s)} differs: {describe(o)}",
                  {"kind": "save", "cfg": o["cfg"], "plan": o["plan"], "observed_outcome": o["out"],
                   "observed_calls": [[e["sc"], e["p1"], e["p2"], e["n"], e["res"]] for e in o["events"]],
                   "observed_files": {p: len(h) // 2 for p, h in o["after"]["files"].items()},
                   "model_says": (says or ["?"])[0][:1500]})
    if not errors and atomic_ok != len(cases) and not chk.failures:
        chk.broke("correspondence", "observed final states violate the conclusion of C14_atomic_py (evaluated in Coq)",
                  f"{atomic_ok}/{len(cases)}")
    # exhaustiveness: the model's decision tree has as many plans as were run
    exprs, keys = [], []
    for cfg in cfgs:
        ref = refs[cfg_key(cfg)]
        ren, chunks = abstract(ref)
        fs0 = C.app("mkfs", C.lst(C.pair(cstr(ren(p)), cbytes(bytes.fromhex(h))) for p, h in sorted(ref["before"]["files"].items())),
                    C.lst(cstr(d) for d in ref["before"]["dirs"]))
        exprs.append(f"plans 9 {C.bool_(not chk.quick)} {cstr(ref['dst'])} {cstr('PID')} "
                     f"{C.lst(cbytes(c) for c in chunks)} {fs0} []")
        keys.append(cfg_key(cfg))
    ans = chk.coq_eval("plancount", PREAMBLE, exprs)
    tree_ok = 0
    if ans is None or len(ans) != len(exprs):
        chk.broke("correspondence", "plan count of the model could not be evaluated", str(ans)[:500])
    else:
        for k, a in zip(keys, ans):
            n = C.parse_nat(a)
            if n == per_cfg[k]:
                tree_ok += 1
            else:
                chk.broke("correspondence", "the decision tree of the real save and of the model differ in size",
                          {"cfg": dict(k), "plans_run": per_cfg[k], "plans_in_model": n})
    nload = check_load_absent(chk, base)
    shutil.rmtree(base, ignore_errors=True)
    chk.extra.update({
        "exhaustive": True,
        "exhaustive_over": "every reachable file-system call of the real utils.save x {OSError, process death} (all multi-fault "
                           "combinations, found by exploring the decision tree of the real code) x {compress, plain} x {previous "
                           "file, none} x {no dirname, existing dirname, dirname to be created"
                           + ("" if chk.quick else ", absolute path") + "} x partial-write lengths "
                           + ("{0,1,half,all-1}" if chk.quick else "{0,1,half,all-1,all,>all}")
                           + " x {no short write, one raw write accepted short at " + ("{1,half}" if chk.quick else "{1,half,all-1}")
                           + " bytes without error}"
                           + ("" if chk.quick else "; deaths by os._exit(9) and by SIGKILL; stale temp file variants; 5 OSError subclasses"),
        "configurations": len(cfgs), "corpus_cases": ncorpus, "runs_compared_in_coq": len(cases), "mismatches": len(mism),
        "observed_states_satisfying_C14_atomic_in_coq": atomic_ok,
        "configs_whose_plan_count_equals_model_tree": f"{tree_ok}/{len(cfgs)}",
        "death_runs": sum(1 for o in observations if o["out"][0] == "died"),
        "learner_level_runs_oracle_only": len(learner_obs) - nbig, "load_absent_cases": nload,
        "runs_with_payload_larger_than_io_buffer_oracle_only": nbig,
        "fault_layer": "raw file (io.RawIOBase under the real io.BufferedWriter when the code asks for buffering; handed out raw for "
                       "buffering=0); the injected open honours mode and buffering",
        "runs_with_a_short_write": sum(1 for o in observations if has_short(o["plan"])),
        "short_writes_note": "a short write is an environment choice at the raw write step; in the Coq comparison it is a write of "
                             "the accepted chunk (model unchanged: the theorems hold for every chunking), so whether the REST was "
                             "retried is decided by the oracle alone (save returned True => the destination loads to the new data)",
        "real_kernel_RLIMIT_FSIZE_runs_oracle_only": len(rlimit_obs),
        "failure_point_histogram": dict(sorted(hist_point.items())),
        "outcome_histogram": hist_out, "destination_after_histogram": hist_dst})
    chk.log(f"correspondence: {len(cases)} runs, {len(mism)} mismatches, atomic-in-coq {atomic_ok}; "
            f"tree sizes equal {tree_ok}/{len(cfgs)}; load-absent cases {nload}; oracle failures {len(chk.failures)}")
    return chk.finish(
        rule="runs of the real adaptive.utils.save under every fault plan of its decision tree (one decision Ok/OSError/death per "
             "reached file-system call, partial writes), enumerated by exploring the real code; non-trivial = the plan contains at "
             "least one fault; distinct by (configuration, plan); plus BaseLearner.load of missing/empty files on real learners",
        assumptions=["hand-written model Model/SaveFS.v tied to the code by the exhaustive fault-injection correspondence",
                     "os.replace is atomic and a failed os.replace leaves the destination intact (POSIX rename); no fsync, so power "
                     "loss is outside the model",
                     "faults are injected at the Python call boundary (os.*, open, file.write/close); a call that fails has no effect "
                     "other than the stated partial write",
                     "decode [] = EOF (pickle/gzip on an empty file raise EOFError) -- re-validated on the real functions every run"])


def replay(doc) -> int:
    base = "/verif/work/C14/replay"
    shutil.rmtree(base, ignore_errors=True)
    os.makedirs(base)
    orc = Oracle(base)
    bad = 0
    items = doc.get("failing_inputs", []) + [b for b in doc.get("no_longer_checks", []) if isinstance(b.get("detail"), dict)]
    for f in items:
        r = f.get("replay") or f.get("detail")
        if r.get("kind") == "load":
            l = learner_zoo(False)[r["learner"]]()
            path = os.path.join(base, "empty.pickle" if r["file"] == "empty" else "missing.pickle")
            if r["file"] == "empty":
                open(path, "wb").close()
            before = learner_state(l)
            try:
                l.load(path, compress=r["compress"])
                diff = sorted(k for k in before if before[k] != learner_state(l).get(k))
            except Exception as e:  # noqa: BLE001
                diff = [repr(e)]
            print("replayed load", r, "->", diff or "unchanged")
            bad += bool(diff)
        elif r.get("kind") == "save":
            if any(d[0] == "die" for d in r["plan"]) or "rlimit" in r["cfg"]:
                o = run_workers([(r["cfg"], r["plan"])], base, print)[0]
            else:
                o = J.run_case(r["cfg"], r["plan"], os.path.join(base, "inproc"))
            errs = orc.check(o)
            print("replayed", describe(o), "->", o["out"], errs[:3] or "oracle silent")
            bad += bool(errs)
    shutil.rmtree(base, ignore_errors=True)
    return 1 if bad else 0
