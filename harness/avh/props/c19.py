"""C19 -- A runner's log replays to the same learner.

proof          : coq/theories/Props/C19.v (model Model/Runner.v, proofs Proofs/RunnerProofs.v)
correspondence : the REAL runners with log=True under the controlled scheduler; the recorded trace and
                 runner.log after every step are compared with the model inside Coq
search         : oracle of the property text: runner.log is the call sequence; adaptive.runner.replay_log
                 on learner.new() gives the same data, the same loss and, after remove_unfinished, the
                 same next ask -- for Learner1D, SequenceLearner, AverageLearner and the mock learner
"""
from __future__ import annotations

from .. import impl_runner as I
from .. import impl_runner_oracle as O
from ..core import Check

THEOREMS = {n: "Props.C19" for n in [
    "C19_log_is_call_sequence", "C19_replay_same_state", "C19_replay_same_after_discard"]}

LITERAL = "C19:replay_loss_before_discard"


def make_oracle(chk, counter):
    def oracle(rec):
        if sum(I._fail_counts(rec).values()) > 0 or any(s["ev"][0] in ("wait", "shutdown", "waitcancel") and any(o[0] == "err" for _, o in s["ev"][1])
                                                       for s in rec.steps):
            return []            # failed evaluations: excluded by the property itself
        errs = O.oracle_c19(rec)
        out = []
        for e in errs:
            if e[0] == "replay_loss_before_discard":
                # literal reading of "the same loss" (before discarding the replayed learner): see the
                # note in impl_runner_oracle.oracle_c19.  Counted; reported as a finding only when it is
                # listed in known_findings.json (the weaker reading -- after discarding -- is enforced).
                counter["literal_loss_differs_before_discard"] += 1
                if chk.known.match("C19", LITERAL):
                    out.append(e)
            elif e[0] == "replay_ask0_raises":
                # the unchanged runner logs ("ask", 0) for a visit without a free slot; AverageLearner.ask(0)
                # raises.  Counted; a finding only when listed in known_findings.json.
                counter["ask0_entry_breaks_replay"] = counter.get("ask0_entry_breaks_replay", 0) + 1
                if chk.known.match("C19", "C19:replay_ask0_raises"):
                    out.append(e)
            else:
                out.append(e)
        return out
    return oracle


def nontrivial(rec, ft):
    return rec.spec["log"] and ft["nfail"] == 0 and (ft["ooo"] or ft["multi"]) and len(rec.steps) >= 5


def run(chk: Check) -> int:
    chk.prove(["theories/Props/C19.vo", "theories/Run/RunnerRun.vo"], THEOREMS)
    counter = {"literal_loss_differs_before_discard": 0}
    oracles = [make_oracle(chk, counter)]
    col = I.Collector(chk, "C19", oracles, nontrivial)
    for name, doc in I.corpus_docs("C19"):
        col.add(I.rerun(doc), name)
    n = 1500 if chk.quick else 10000
    for k in range(n):
        if col.enough():
            break
        rng = chk.rng("case", k)
        lk = rng.choice(["mock", "Learner1D", "Learner1D", "SequenceLearner", "AverageLearner",
                         "IntegratorLearner", "IntegratorLearner", "BalancingLearner:npoints", "BalancingLearner:loss"])
        spec = I.random_spec(rng, faults=rng.random() < 0.1, cancel=True, learner=lk, log=True, big=not chk.quick,
                             elastic_p=0.4)
        if lk == "IntegratorLearner":
            spec["goal"] = min(spec["goal"], 10)
        col.add(I.safe_run(col, spec, I.RandomSched(rng), f"seed{chk.seed}/{k}"), f"seed{chk.seed}/{k}")
    exh = {}
    plans = [(kind, nt, 4, 3) for kind in I.KINDS for nt in (2, 3)] if chk.quick else \
        [(kind, nt, T, g) for kind in I.KINDS for nt in (1, 2, 3) for T in (2, 4, 5) for g in (T, T - 1)]
    for lk in (["Learner1D"] if chk.quick else ["Learner1D", "SequenceLearner", "AverageLearner", "mock"]):
        for kind, nt, T, g in plans:
            spec = {"kind": kind, "learner": lk, "total": T, "goal": g, "ntasks": nt, "ncores": 1, "retries": 0,
                    "raise": True, "log": True, "allow_cancel": True, "shutdown_executor": False, "faults": {}}
            cnt = 0
            if col.enough():
                break
            for rec in I.enumerate_scheds(lambda s, spec=spec: I.safe_run(col, spec, s, "exhaustive"), orders="sub", cancel=True, limit=60000):
                cnt += 1
                col.add(rec, f"exhaustive {lk} {kind} ntasks={nt} evals<={T} goal={g} #{cnt}")
                if rec is None or rec.machinery or col.enough():
                    break
            exh[f"{lk} {kind} ntasks={nt} evals<={T} goal={g}"] = cnt
    col.flush()
    st = col.stats
    chk.extra.update(st)
    chk.extra.update(counter)
    chk.extra.update({"exhaustive_schedules_per_config": exh, "exhaustive_small_scope_cases": sum(exh.values()),
                      "exhaustive": False})
    chk.log(f"runs {st['runs']} (exhaustive {sum(exh.values())}), compared in Coq {st['compared_in_coq']}, "
            f"mismatches {st['mismatches']}, oracle failures {st['oracle_failures']}, "
            f"literal-loss differences {counter['literal_loss_differs_before_discard']}, ask-0 replay failures {counter.get('ask0_entry_breaks_replay', 0)}")
    return chk.finish(
        rule="real runners with log=True under the controlled scheduler on Learner1D / SequenceLearner / AverageLearner / "
             "IntegratorLearner / BalancingLearner(loss, npoints) / mock, 40% of the runs with ntasks=None and an executor whose "
             "reported worker count grows and shrinks during the run (also below the number in flight), "
             "random schedules with cancellation, plus all completion subsets for small runs; the log is replayed with "
             "adaptive.runner.replay_log on learner.new(); non-trivial = logging on, no failed evaluation, an out-of-order or "
             "multiple completion and >= 5 steps; distinct by (spec, schedule)",
        assumptions=["runs with a resized pool (ntasks=None, changing worker count) are decided by the oracle alone: Model/Runner.v has a "
                     "fixed _get_max_tasks(), so they are not replayed in Coq (count: elastic_pool_runs_oracle_only)",
                     "the unchanged runner logs ('ask', 0) for a visit without a free slot; AverageLearner.ask(0) raises, so replay_log "
                     "fails on such logs (counted as ask0_entry_breaks_replay; a finding only if listed as C19:replay_ask0_raises)",
                     "hand-written model Model/Runner.v tied to adaptive/runner.py by the sampled + small-scope-exhaustive correspondence",
                     "C19_replay_same_state assumes learner.ask(0) leaves the learner unchanged; C19_replay_same_after_discard "
                     "assumes remove_unfinished commutes with tell and is idempotent (shown for an example learner in Props/C19.v; "
                     "for the real learners the oracle compares data, loss and next asks)",
                     "'the same loss' is enforced after discarding unfinished points on both learners (weaker reading); "
                     "Learner1D.loss() depends on pending boundary points, so the literal reading differs (counted in the evidence)"])


def replay(doc) -> int:
    from ..core import Known

    class _K:
        known = Known()
    return I.replay_failures(doc, [make_oracle(_K, {"literal_loss_differs_before_discard": 0})])
