"""C07 -- IntegratorLearner survives any evaluation order and always covers the interval.

proof          : coq/theories/Props/C07.v (model Model/Integrator.v, all numerics are oracle answers)
correspondence : the real IntegratorLearner is driven with parallel-runner-like schedules; the
                 verdicts it reached (instrumented at run time, see impl_integrator.py) are fed
                 to the model; comparison inside Coq (vm_compute) after every operation
search         : from-scratch oracle of the property text on the real class
sum clause     : igral / err are compared with the sums over approximating_intervals after every operation
                 (`finite_sum_ok`): up to summation rounding far below the largest float, EXACTLY (value reachable by
                 float addition in some order) where the sum of magnitudes reaches it -- the halves / quarters carry
                 float max / 2, / 4 while a straggler keeps the first rule incomplete, the sum is exactly float max and
                 must be reported as float max; inf only if the sum really overflows.  Oracle only: the model has no
                 numerics; the straggler histories go through the correspondence like all others (structure,
                 approximating set, hand-outs)
F1             : three internal-error paths of the unchanged tree (priority_split not kept inside
                 ivals); the model has a parameter `repaired`; which variant the real code
                 corresponds to is decided by running the F1 witness histories
"""
from __future__ import annotations

import json
import math
import sys
import warnings
from fractions import Fraction

from .. import coqio as C
from .. import impl_integrator as I
from ..core import Check, VERIF

THEOREMS = {n: "Props.C07" for n in [
    "C07_no_double_handout", "C07_rejects_foreign", "C07_rejects_unmapped", "C07_no_internal_error",
    "C07_partition", "C07_partition_stays", "C07_cover_is_partition", "C07_partition_certificate_sound",
    "C07_no_internal_error_refuted_unfixed"]}

PREAMBLE_HEAD = """From Coq Require Import PrimFloat List. Import ListNotations.
From AV Require Import Base.Prelude Base.FloatUtil Model.Integrator Run.IntegratorRun.
Open Scope nat_scope.
"""

CORPUS = VERIF / "corpus" / "C07"
FULL_EVERY = 8


# ----------------------------------------------------------------------
# Gallina printers
def verdict_term(v):
    if v == ("div",):
        return "Divergent"
    return f"(Proceed {C.bool_(v[0])} {C.bool_(v[1])})"


def choice_term(c):
    return C.app("mkC", C.nat(c["pick"]), C.bool_(c["minsep"]), C.lst(verdict_term(v) for v in c["verdicts"]),
                 C.opt(c["maxrm"], C.nat))


def obs_term(o, full):
    return C.app("mkobs",
                 C.lst(C.pair(C.nat(i), C.nat(d)) for i, _, _, d in o["live"]),
                 C.opt(o["approx"], lambda a: C.lst(C.nat(i) for i in a)),
                 C.nat(o["npoints"]), C.nat(len(o["pending"])),
                 C.opt(o["live"] if full else None, lambda lv: C.lst(C.pair(C.flt(a), C.flt(b)) for _, a, b, _ in lv)),
                 C.opt(o["pending"] if full else None, lambda p: C.lst(C.flt(x) for x in p)))


def step_term(st, full):
    if st["op"][0] == "ask":
        op = C.app("Ask", C.nat(st["op"][1]), C.lst(choice_term(c) for c in st["choices"]))
    else:
        op = C.app("Tell", C.flt(st["op"][1]), C.lst(verdict_term(v) for v in st["verdicts"]))
    out = C.pair(C.lst(C.flt(x) for x in st["out"]), C.nat(st["err"]))
    return C.tup(op, out, C.opt(st["obs"], lambda o: obs_term(o, full)))


def case_term(cfg, steps):
    lo, hi = cfg["bounds"]
    n = len(steps)
    return C.tup(C.flt(lo), C.flt(hi), C.nat(cfg["max_ivals"]),
                 C.lst((step_term(s, k % FULL_EVERY == 0 or k == n - 1) for k, s in enumerate(steps)), sep=";\n  "))


def preamble():
    xi = I.xi_tables()
    return PREAMBLE_HEAD + "Definition xi : list (list float) := " + \
        C.lst((C.lst(C.flt(v) for v in row) for row in xi), sep=";\n  ") + ".\n"


# ----------------------------------------------------------------------
class Oracle:
    """The property text, from scratch, on the real learner (independent of the model)."""

    def __init__(self, rec: I.Recorder):
        self.rec = rec
        self.errors: list[tuple[str, str]] = []
        self.handed: set[float] = set()
        self.told: set[float] = set()
        self.covering = False
        self.illegal = False      # a value was delivered for an abscissa that was never requested (outside C07)
        self.checked = {"partition": 0, "foreign": 0, "sums": 0, "sums_at_float_max": 0}

    def err(self, sig, msg):
        if len(self.errors) < 5:
            self.errors.append((sig, msg))

    # -- helpers computed from the interval tree only ---------------------
    def tree(self):
        out, todo = [], [self.rec.l.first_ival]
        while todo:
            iv = todo.pop()
            out.append(iv)
            todo += iv.children
        return out

    def belongs(self, x):
        for iv in self.tree():
            for d in range(iv.depth + 1):
                if x in iv.points(d):
                    return True
        return False

    def fingerprint(self):
        l = self.rec.l
        return (sorted(l.data.items()), sorted(l.pending_points), list(l._stack),
                sorted((float(iv.a), float(iv.b), iv.depth) for iv in l.ivals),
                [(float(iv.a), float(iv.b)) for iv in l.priority_split], sorted(l.x_mapping.keys()),
                sorted((float(iv.a), float(iv.b), iv.depth, iv.depth_complete, iv.removed, len(iv.data))
                       for iv in self.tree()))

    # -- called around every operation ------------------------------------
    def before(self, op):
        self.pre = None
        if op[0] == "tell":
            x = op[1]
            self.foreign = x not in self.handed and not self.belongs(x)
            if self.foreign:
                self.pre = self.fingerprint()
            elif x not in self.handed:
                self.illegal = True

    def after(self, st):
        l = self.rec.l
        if st["err"] == I.E_INTERNAL:
            sig = I.f1_label(st["site"]) or "C07:internal " + st["site"][:90]
            self.err(sig, f"{st['op'][0]} raised {st['site']}")
            return
        if st["op"][0] == "ask":
            dup = [x for x in st["out"] if x in self.handed or (x in self.told and not self.illegal)]
            if len(set(st["out"])) != len(st["out"]):
                dup += [x for x in st["out"] if st["out"].count(x) > 1]
            if dup:
                self.err("C07:double_handout", f"ask({st['op'][1]}) handed out {dup[:3]} a second time")
            self.handed.update(st["out"])
            if st["err"] == I.E_NONE and len(st["out"]) != st["op"][1]:
                self.err("C07:ask_count", f"ask({st['op'][1]}) returned {len(st['out'])} points")
        else:
            x = st["op"][1]
            if self.foreign:
                self.checked["foreign"] += 1
                if st["err"] != I.E_VALUE:
                    self.err("C07:foreign_accepted", f"tell({x!r}) for an abscissa of no interval was not rejected ({I.ENAMES[st['err']]})")
                elif self.fingerprint() != self.pre:
                    self.err("C07:foreign_changed_state", f"rejected tell({x!r}) changed the learner")
            else:
                if st["err"] == I.E_VALUE:
                    self.err("C07:own_point_rejected", f"tell({x!r}) of a handed-out abscissa was rejected")
                elif st["err"] == I.E_NONE:
                    self.told.add(x)
        if self.rec.dead:
            return
        # partition and sums, from the first moment the estimate exists
        dl = l.first_ival.done_leaves
        if dl is None:
            self.err("C07:approximating_intervals_none", "first_ival.done_leaves is None (approximating_intervals asserts)")
            return
        if not dl:
            if self.covering:
                self.err("C07:partition_lost", "approximating_intervals became empty again")
            return
        self.covering = True
        self.checked["partition"] += 1
        lo, hi = self.rec.cfg["bounds"]
        iv = sorted(dl, key=lambda i: (i.a, i.b))
        bad = None
        if iv[0].a != lo or iv[-1].b != hi:
            bad = f"covers [{iv[0].a}, {iv[-1].b}] instead of [{lo}, {hi}]"
        for p, q in zip(iv, iv[1:]):
            if p.b != q.a:
                bad = f"gap/overlap between ({p.a},{p.b}) and ({q.a},{q.b})"
        if any(not (i.a < i.b) for i in iv):
            bad = "degenerate interval"
        if bad:
            self.err("C07:partition", f"approximating_intervals ({len(iv)} intervals) {bad}")
        with warnings.catch_warnings():
            warnings.simplefilter("ignore")
            for name in ("igral", "err"):
                terms = [float(getattr(i, name)) for i in iv]
                got = float(getattr(l, name))
                if any(math.isnan(t) for t in terms):
                    ok = math.isnan(got)
                elif any(math.isinf(t) for t in terms):
                    s = sum(terms)
                    ok = (math.isnan(s) and math.isnan(got)) or s == got
                else:
                    ok, at_max = finite_sum_ok(terms, got)
                    self.checked["sums_at_float_max"] += at_max
                if not ok:
                    self.err(f"C07:{name}_sum", f"{name}={got!r} but the sum over approximating_intervals is {terms[:4]}...")
            self.checked["sums"] += 1


FMAX = sys.float_info.max
MAX_ORDERS = 5040


def _round(q: Fraction) -> float:
    """The rational q rounded to the nearest float (overflow -> +-inf)."""
    try:
        return q.numerator / q.denominator
    except OverflowError:
        return math.inf if q > 0 else -math.inf


def _all_float_sums(terms):
    """Results of plain left-to-right float addition of `terms` over EVERY distinct order,
    or None when there are more than MAX_ORDERS distinct orders."""
    cnt: dict[float, int] = {}
    for t in terms:
        cnt[t] = cnt.get(t, 0) + 1
    orders = math.factorial(len(terms))
    for m in cnt.values():
        orders //= math.factorial(m)
    if orders > MAX_ORDERS:
        return None
    out = set()

    def go(s, left):
        if not left:
            out.add(s)
            return
        for t in cnt:
            if cnt[t]:
                cnt[t] -= 1
                go(s + t, left - 1)
                cnt[t] += 1
    go(0.0, len(terms))
    return out


def finite_sum_ok(terms, got):
    """'the reported integral / error is the sum over the intervals in use', all terms finite.

    Returns (ok, at_max).  Far below the largest float no order of summation can overflow: the reported value
    must be finite and equal the exact sum up to summation rounding (1e-12 of the sum of magnitudes).  When the sum of
    the magnitudes reaches the largest float (the first interval carries err = float max and a split gives exactly
    half to each child, so the errors of the intervals in use add up to EXACTLY float max while no ancestor rule is
    complete) the comparison is exact: the reported value must be what float addition of the terms gives in some order
    (or the correctly rounded exact sum); in particular float max itself is reported as float max, and inf only when
    the sum really exceeds the largest float."""
    n = len(terms)
    try:
        scale = math.fsum(abs(t) for t in terms)
    except OverflowError:
        scale = math.inf
    if scale < 1e307:
        return math.isfinite(got) and abs(got - math.fsum(terms)) <= 1e-12 * scale, 0
    exact = sum(Fraction(t) for t in terms)
    mags = sum(Fraction(abs(t)) for t in terms)
    close = math.isfinite(got) and abs(Fraction(got) - exact) <= mags / 10 ** 12
    if mags <= Fraction(FMAX) * (1 - Fraction(n + 2, 2 ** 52)):
        return close, 0                      # no partial sum can overflow, in any order, plain or compensated
    reach = _all_float_sums(terms)
    if reach is None:                        # too many distinct orders to enumerate: only closeness is decidable
        return close or math.isinf(got), 1
    reach.add(_round(exact))
    if math.isnan(got):
        return any(math.isnan(r) for r in reach), 1
    if got in reach:
        return True, 1
    # a compensated summation may differ from every plain order in the last place, never in finiteness
    return close and any(math.isfinite(r) for r in reach), 1


def drive(cfg, rng=None, mode=None, ops=None, max_tells=300, max_ops=160, **kw):
    """Run the real learner with the oracle attached; returns (recorder, oracle)."""
    rec = I.Recorder(cfg)
    orc = Oracle(rec)
    ask0, tell0 = rec.ask, rec.tell

    def ask(n):
        orc.before(("ask", n))
        st = ask0(n)
        orc.after(st)
        return st

    def tell(x, y=None):
        orc.before(("tell", float(x)))
        st = tell0(x, y)
        orc.after(st)
        return st

    rec.ask, rec.tell = ask, tell
    with warnings.catch_warnings():
        warnings.simplefilter("ignore")
        if ops is not None:
            I.drive_concrete(rec, ops)
        elif mode == "straggler":
            I.drive_straggler(rec, rng, max_tells, max_ops, **kw)
        else:
            I.drive_schedule(rec, rng, mode, max_tells, max_ops, **kw)
    return rec, orc


def signature_of(cfg, ops):
    rec, orc = drive(cfg, ops=ops)
    if orc.illegal:
        return None          # the shrinker must stay inside the property's histories
    return orc.errors[0][0] if orc.errors else None


def shrink(cfg, ops, sig, budget=400):
    """Delta debugging over the op list (then over ask sizes), keeping the oracle signature."""
    ops = [list(o) for o in ops]
    trials = 0

    def holds(cand):
        nonlocal trials
        trials += 1
        try:
            return signature_of(cfg, cand) == sig
        except I.InstrumentationError:
            return False

    chunk = max(1, len(ops) // 2)
    while chunk >= 1 and trials < budget:
        i, changed = 0, False
        while i < len(ops) and trials < budget:
            cand = ops[:i] + ops[i + chunk:]
            if cand and holds(cand):
                ops, changed = cand, True
            else:
                i += chunk
        if not changed or chunk == 1:
            chunk //= 2
    for i, o in enumerate(ops):
        if o[0] == "ask" and trials < budget:
            for n in (1, o[1] // 2, o[1] - 1):
                if 0 < n < o[1]:
                    cand = ops[:i] + [["ask", n]] + ops[i + 1:]
                    if holds(cand):
                        ops = cand
                        break
    return ops


def run_shards(chk, pre, cases, check_fn, legal_fn, shard, workers=8):
    """Like Check.coq_cases, with fewer parallel coqc processes and a sequential retry of
    shards that were killed (the box is shared; the kernel OOM killer picks coqc)."""
    import concurrent.futures as cf
    from ..core import coqc_file, split_evals
    files = []
    for k in range(0, len(cases), shard):
        body = [pre, "Definition cases : list case := [", ";\n".join(cases[k:k + shard]), "].",
                f"Eval vm_compute in (mismatches {check_fn} cases).",
                f"Eval vm_compute in (count_true {legal_fn} cases)."]
        f = chk.work / f"cases_{k // shard}.v"
        f.write_text("\n".join(body) + "\n")
        files.append((k, f))
    mism, legal, errors, retry = [], 0, [], []

    def take(k, f, rc, out, final):
        nonlocal legal
        parts = split_evals(out) if rc == 0 else []
        if rc == 0 and len(parts) == 2:
            mism.extend((k + c, st) for c, st in C.parse_pairs(parts[0]))
            legal += C.parse_nat(parts[1])
        elif not final and rc in (-9, 137, 124):
            retry.append((k, f))
        else:
            errors.append(f"{f.name}: rc={rc}: {out[-600:]}")

    with cf.ThreadPoolExecutor(max_workers=workers) as ex:
        futs = {ex.submit(coqc_file, f, 900): (k, f) for k, f in files}
        for fu in cf.as_completed(futs):
            k, f = futs[fu]
            rc, out, _ = fu.result()
            take(k, f, rc, out, False)
    for k, f in retry:                       # one at a time
        rc, out, _ = coqc_file(f, 1200)
        take(k, f, rc, out, True)
    chk.checker_cmds.append(f"coqc cases_*.v ({len(files)} shards, {len(retry)} retried; comparison by vm_compute inside Coq)")
    return sorted(mism), legal, errors


def stats_of(rec):
    multi = sum(1 for s in rec.steps if s["op"][0] == "tell" and len(s["verdicts"]) >= 2)
    splits = sum(1 for s in rec.steps if s["op"][0] == "ask" for c in s["choices"] if c["kind"] == "split")
    nested = sum(1 for s in rec.steps if s["op"][0] == "ask" for c in s["choices"] if c["verdicts"])
    removes = sum(1 for s in rec.steps for v in (s.get("verdicts") or []) if v != ("div",) and v[1])
    forced = sum(1 for s in rec.steps for v in (s.get("verdicts") or []) if v != ("div",) and v[0])
    return {"multi": multi, "splits": splits, "nested": nested, "removes": removes, "forced": forced}


def run(chk: Check) -> int:
    chk.prove(["theories/Props/C07.vo", "theories/Run/IntegratorRun.vo"], THEOREMS)
    ncases = 150 if chk.quick else 1000
    max_ops = 140 if chk.quick else 400
    max_tells = 260 if chk.quick else 1500
    cases, metas = [], []
    hist = {"family": {}, "mode": {}, "end": {}, "len": {}, "ops": {"ask": 0, "tell": 0, "tell_foreign": 0}}
    tot = {"multi": 0, "splits": 0, "nested": 0, "removes": 0, "forced": 0}
    f1_seen = set()
    orc_checked = {"partition": 0, "foreign": 0, "sums": 0, "sums_at_float_max": 0}
    first_fail = {}
    instr_broken = []

    def bump(d, k):
        d[k] = d.get(k, 0) + 1

    def add(cfg, rec, orc, origin, mode):
        ops = I.concrete_ops(rec)
        cases.append(case_term(cfg, rec.steps))
        metas.append({"cfg": cfg, "ops": ops, "origin": origin})
        s = stats_of(rec)
        for k in tot:
            tot[k] += s[k]
        chk.note_case((cfg["family"], cfg["params"], cfg["bounds"], ops), s["multi"] > 0 and s["splits"] > 0)
        bump(hist["family"], cfg["family"])
        bump(hist["mode"], mode)
        bump(hist["end"], I.ENAMES[rec.steps[-1]["err"]] if rec.steps else "empty")
        bump(hist["len"], f"len<={20 * (len(rec.steps) // 20 + 1)}")
        for st in rec.steps:
            k = st["op"][0]
            hist["ops"]["tell_foreign" if st["err"] == I.E_VALUE else k] += 1
        for k in orc_checked:
            orc_checked[k] += orc.checked[k]
        if len(rec.steps) > 20 and s["multi"]:
            chk.sample({"integrand": cfg["family"], "params": cfg["params"], "bounds": cfg["bounds"], "tol": cfg["tol"],
                        "schedule": mode, "ops": len(rec.steps), "first_ops": ops[:6],
                        "tells_completing_several_rules": s["multi"], "splits": s["splits"]})
        for sig, msg in orc.errors[:1]:
            if sig.startswith("C07:F1"):
                f1_seen.add(sig[:7])
            if sig not in first_fail:
                first_fail[sig] = (cfg, ops, msg)

    # --- corpus (minimised F1 witnesses and earlier findings) first: they also decide `repaired`
    for f in sorted(CORPUS.glob("*.json")):
        d = json.loads(f.read_text())
        rec, orc = drive(d["cfg"], ops=d["ops"])
        add(d["cfg"], rec, orc, f.name, "corpus")
    for k in range(ncases):
        rng = chk.rng("case", k)
        cfg = I.draw_config(rng)
        mode = rng.choice(I.MODES)
        try:
            rec, orc = drive(cfg, rng=rng, mode=mode, max_tells=max_tells, max_ops=max_ops)
        except I.InstrumentationError as e:
            instr_broken.append((k, str(e)))
            continue
        if rec.steps:
            add(cfg, rec, orc, f"seed{chk.seed}/{k}", mode)
    if instr_broken:
        chk.broke("correspondence", "run-time instrumentation of IntegratorLearner no longer fits the code "
                  f"({len(instr_broken)} cases)", instr_broken[:3])
        instr_broken.clear()
    # long runs of a divergent integrand (like the suite's fdiv) with few tasks reach DivergentIntegralError
    for k in range(3 if chk.quick else 24):
        rng = chk.rng("div", k)
        cfg = I.draw_config(rng, "divergent_pow")
        cfg["bounds"], cfg["params"][0], cfg["max_ivals"] = [0, 1], rng.choice([0.0, 0.5]), 1000
        rec, orc = drive(cfg, rng=rng, mode="runner", max_tells=1200, max_ops=1500, ntasks=1 + k % 3, foreign_rate=0)
        if rec.steps:
            add(cfg, rec, orc, f"seed{chk.seed}/div{k}", "long")

    # integrands whose value is exactly -inf (and mixed +inf / -inf / nan) at abscissae the rules sample:
    # end-point singularities log|x-lo|, -1/sqrt|x-lo| on [lo, hi], -inf at the first midpoint, at isolated nodes
    for k in range(8 if chk.quick else 40):
        rng = chk.rng("neginf", k)
        fam = ["log_sing", "neg_inv_sqrt", "mixed_nonfinite", "neginf_nodes"][k % 4]
        cfg = I.draw_config(rng, fam)
        cfg["max_ivals"] = 1000
        lo, hi = cfg["bounds"]
        cfg["params"][0] = float(lo) if k % 8 < 4 else (lo + hi) / 2
        mode = I.MODES[(k // 4) % len(I.MODES)]
        try:
            rec, orc = drive(cfg, rng=rng, mode=mode, max_tells=max_tells, max_ops=max_ops, foreign_rate=0)
        except I.InstrumentationError as e:
            chk.broke("correspondence", "run-time instrumentation of IntegratorLearner no longer fits the code", str(e))
            continue
        if rec.steps:
            add(cfg, rec, orc, f"seed{chk.seed}/neginf{k}", mode)

    # straggler stream: a large first request on the fresh learner, one or two of the first 17 abscissae (and, in the
    # wide style, of the halves' first rules) arrive much later than everything else: the first rule stays incomplete
    # while the halves / quarters already form the estimate, each with the error inherited from the first interval
    # (float max / 2, / 4): the error sum is EXACTLY the largest float there, and must be reported as such
    nstrag = 24 if chk.quick else 150
    strag = {"runs": 0, "runs_with_err_sum_at_float_max": 0, "sum_checks_at_float_max": 0, "style": {}}
    for k in range(nstrag):
        rng = chk.rng("straggler", k)
        cfg = I.draw_config(rng)
        cfg["max_ivals"] = 1000
        style = ["batch", "wide", "batch", "tasks"][k % 4]
        try:
            rec, orc = drive(cfg, rng=rng, mode="straggler", max_tells=420, max_ops=440, style=style)
        except I.InstrumentationError as e:
            instr_broken.append((f"straggler{k}", str(e)))
            continue
        if rec.steps:
            add(cfg, rec, orc, f"seed{chk.seed}/straggler{k}", "straggler")
            strag["runs"] += 1
            bump(strag["style"], style)
            strag["runs_with_err_sum_at_float_max"] += orc.checked["sums_at_float_max"] > 0
            strag["sum_checks_at_float_max"] += orc.checked["sums_at_float_max"]
    chk.extra["straggler_stream"] = strag

    # stress stream (oracle on every run, correspondence on a selection): small max_ivals, integrands that
    # refinement does not resolve (forced splits everywhere), one request per free task and one value at a time with
    # occasional bursts -- the forced-split queue holds several intervals when a split overflows max_ivals, so the
    # max_ivals rule evicts intervals that are still queued
    nstress = 200 if chk.quick else 1000
    stress = {"runs": 0, "runs_evicting_a_queued_interval": 0, "evictions_of_queued_intervals": 0, "failing": 0, "tells": 0}
    cand = []
    for k in range(nstress):
        rng = chk.rng("stress", k)
        cfg = I.draw_config(rng, "wiggly" if rng.random() < 0.85 else rng.choice(["noisy", "isolated_dev", "step"]))
        cfg["max_ivals"] = rng.choice([3, 4, 4, 5, 5, 6, 8])
        cfg["tol"] = 1e-12
        kw = dict(mode="trickle", max_tells=700, max_ops=2100, foreign_rate=0.004,
                  ntasks=rng.choice([4, 4, 8, 16]), burst=rng.choice([0.0, 0.1, 0.15, 0.2, 0.4]))
        try:
            rec, orc = drive(cfg, rng=rng, **kw)
        except I.InstrumentationError as e:
            instr_broken.append((f"stress{k}", str(e)))
            continue
        stress["runs"] += 1
        stress["tells"] += sum(1 for st in rec.steps if st["op"][0] == "tell")
        if rec.evict_queued:
            stress["runs_evicting_a_queued_interval"] += 1
            stress["evictions_of_queued_intervals"] += len(rec.evict_queued)
        for kk in orc_checked:
            orc_checked[kk] += orc.checked[kk]
        chk.note_case(("stress", k, cfg["params"], cfg["bounds"]), bool(rec.evict_queued))
        if orc.errors:
            stress["failing"] += 1
            sig, msg = orc.errors[0]
            if sig not in first_fail:
                first_fail[sig] = (cfg, I.concrete_ops(rec), msg)
                if len(rec.steps) <= 900:
                    add(cfg, rec, orc, f"seed{chk.seed}/stress{k}", "trickle")
        elif rec.evict_queued:
            cand.append((rec.evict_queued[0], k, cfg, I.concrete_ops(rec)))
    # correspondence on the runs that evict a queued interval earliest (prefix up to 40 operations after the eviction)
    cand = sorted(cand, key=lambda c: c[:2])
    if chk.quick:
        cand = [c for c in cand if c[0] <= 420][:3] or cand[:1]
    for first, k, cfg, ops in cand[:20]:
        rec, orc = drive(cfg, ops=ops[:first + 30])
        add(cfg, rec, orc, f"seed{chk.seed}/stress{k}[:{first + 30}]", "trickle")
    if instr_broken:
        chk.broke("correspondence", "run-time instrumentation of IntegratorLearner no longer fits the code "
                  f"({len(instr_broken)} cases)", instr_broken[:3])
        instr_broken.clear()
    chk.extra["stress_stream"] = stress

    repaired = not f1_seen
    chk.log(f"real code corresponds to the model with repaired={repaired} (F1 paths reproduced: {sorted(f1_seen) or 'none'})")
    for sig, (cfg, ops, msg) in first_fail.items():
        small = shrink(cfg, ops, sig, budget=150 if chk.quick else 600)
        chk.fail(sig, f"IntegratorLearner({cfg['family']}{cfg['params']}, bounds={cfg['bounds']}, tol={cfg['tol']:.3g}): {msg} "
                      f"[history of {len(small)} ops]", {"cfg": cfg, "ops": small})

    check_fn = f"(check xi {C.bool_(repaired)})"
    legal_fn = f"(is_legal xi {C.bool_(repaired)})"
    # balance the shards: biggest cases dealt round-robin over 16 shards (padded with empty cases)
    nsh = max(16, (len(cases) + 11) // 12)      # <= 12 cases per coqc process (memory)
    shard = max(1, (len(cases) + nsh - 1) // nsh)
    dummy = C.tup(C.flt(0.0), C.flt(1.0), C.nat(1000), "[]")
    order = sorted(range(len(cases)), key=lambda i: -len(cases[i]))
    slots = [None] * (nsh * shard)
    for r, i in enumerate(order):
        slots[(r % nsh) * shard + r // nsh] = i
    laid = [dummy if i is None else cases[i] for i in slots]
    ndummy = sum(1 for i in slots if i is None)
    mism, legal, errors = run_shards(chk, preamble(), laid, check_fn, legal_fn, shard)
    mism = [(slots[c], st) for c, st in mism]
    legal -= ndummy
    for e in errors:
        chk.broke("correspondence", "Model/Integrator.v cases could not be evaluated", e)
    for c, s in mism[:5]:
        m = metas[c]
        chk.broke("correspondence", f"Model/Integrator.v (repaired={repaired}) vs IntegratorLearner: case {m['origin']} step {s}",
                  {"cfg": m["cfg"], "ops": m["ops"][:s + 1]})
    chk.extra.update({"histograms": hist, "totals": tot, "oracle_checks": orc_checked,
                      "model_variant": "repaired" if repaired else "unrepaired (F1 present)",
                      "legal_histories_per_coq": legal, "cases_compared_in_coq": len(cases),
                      "mismatches": len(mism), "exhaustive": False})
    chk.log(f"correspondence: {len(cases)} cases, {len(mism)} mismatches, {legal} satisfy the theorem hypotheses; "
            f"oracle failures {len(chk.failures)}; totals {tot}")
    return chk.finish(
        rule="histories generated by driving the real IntegratorLearner like a parallel runner (modes runner/batch/deep/holdback, "
             "ask sizes 1..50, 1..16 tasks, permuted/partial/delayed delivery, occasional foreign tells; straggler stream: first request "
             "of 40..140 points or 2..8 tasks with one or two of the first 17 abscissae (and of the halves' first rules) delivered much "
             "later than everything else, igral/err compared with the sums after every tell, exactly where the error sum equals the "
             "largest float) on 20 integrand families "
             "(smooth, peaked, step, kink, sqrt/inverse-sqrt singular, non-finite (nan, +inf, -inf) at isolated nodes and at sampled end points / midpoints, isolated deviations, divergent), "
             "tol 1e-10..1e-3, 8 bounds, max_ivals 3..1000; non-trivial = at least one tell that completed two or more "
             "(interval, depth) rules at once and at least one split; distinct by (integrand, bounds, op list)",
        assumptions=["hand-written model Model/Integrator.v tied to the code by the sampled correspondence only",
                     "numerics (force_split / remove / divergent verdicts, arg-max of the error, min_sep, max_ivals victim) are oracle "
                     "answers: the theorems hold for every integrand and tolerance",
                     "theorems are over an abstract abscissa type with decidable equality and a nested node function; the float run "
                     "validates the instance (xi tables exported from integrator_coeffs on every run and checked nested inside Coq)",
                     "a run ends at DivergentIntegralError (also when _ask_and_tell_pending turns it into RuntimeError)"])


def replay(doc) -> int:
    bad = 0
    items = doc.get("failing_inputs", []) + [b for b in doc.get("no_longer_checks", []) if isinstance(b.get("detail"), dict)]
    for f in items:
        r = f.get("replay") or f.get("detail")
        rec, orc = drive(r["cfg"], ops=r["ops"])
        last = rec.steps[-1] if rec.steps else None
        print("replayed", r["cfg"]["family"], len(rec.steps), "ops ->", orc.errors[:3] or "oracle silent",
              "| last:", last and (last["op"][0], I.ENAMES[last["err"]], last["site"]))
        bad += bool(orc.errors)
    return 1 if bad else 0
