"""C16 -- Averaging learners report the sample statistics of exactly the data they hold.

proof          : coq/theories/Props/C16.v (models Model/Avg.v, Model/Avg1D.v over Model/AvgNum.v)
correspondence : seeded histories on the real AverageLearner (bit-exact doubles) and
                 AverageLearner1D (means / counts / samples / undersampled set bit-exact,
                 error to 1e-12) vs the models, compared inside Coq by vm_compute
search         : from-scratch oracle (fractions.Fraction) of the property text on the real classes
"""
from __future__ import annotations

import json
import math
import sys
import warnings
from fractions import Fraction

import numpy as np

from .. import coqio as C
from ..core import STD_AXIOMS_OK, VERIF, Check

THEOREMS = {n: "Props.C16" for n in [
    "C16_each_seed_once", "C16_mean", "C16_std", "C16_std_undefined", "C16_loss_formula",
    "C16_loss_undefined", "C16_loss_exp_raises_iff", "C16_loss_total_refuted", "C16_loss_total_repaired",
    "C16_fresh_seeds", "C16_fresh_seeds_any_choice",
    "C16_1d_counts", "C16_1d_mean_is_sample_mean", "C16_1d_error_is_t_halfwidth",
    "C16_1d_undersampled_first", "C16_1d_batch_equals_incremental",
    "C16_1d_batch_known_seed_refuted", "C16_1d_tell_many_expands"]}

# Coq's primitive machine floats / integers show up under Print Assumptions of the one
# theorem whose witness is computed in IEEE doubles (C16_1d_batch_known_seed_refuted);
# they are part of the kernel (trusted base line "primitive ints and floats"), not axioms
PRIMS = {f"PrimFloat.{n}" for n in ("float", "add", "sub", "mul", "div", "sqrt", "opp", "abs", "eqb", "ltb", "leb",
                                    "of_uint63", "is_nan", "is_infinity", "classify", "compare", "normfr_mantissa",
                                    "frshiftexp", "ldshiftexp", "next_up", "next_down")} | \
        {f"PrimInt63.{n}" for n in ("int", "add", "sub", "mul", "lsl", "lsr", "lor", "land", "lxor", "eqb", "ltb", "leb",
                                    "div", "mod", "compare", "head0", "tail0")}

SIG_F11 = "C16:F11 AverageLearner.loss(real=False) ZeroDivisionError with pending points and no data"
SIG_F21 = "C16:F21 AverageLearner1D.tell_many_at_point counts a seed already known at x twice and overwrites its sample"

PREAMBLE = """From Coq Require Import ZArith PrimFloat List. Import ListNotations.
From AV Require Import Base.Prelude Base.FloatUtil Model.AvgNum Run.AvgRun.
Open Scope nat_scope."""


def F(x):
    return C.flt(float(x))


# ======================================================================
# AverageLearner
# ======================================================================
def probe_guard() -> bool:
    """Does loss(real=False) survive 'pending points, no data'?  (F11 repaired?)"""
    from adaptive import AverageLearner
    l = AverageLearner(lambda s: 0.0, atol=1.0)
    l.tell_pending(0)
    l.tell_pending(1)
    try:
        l.loss(real=False)
    except ZeroDivisionError:
        return False
    return True


VALUE_FAMILIES = ["normal", "const", "wild", "neg", "cancel", "ints", "zeros", "special", "tiny"]


def gen_value(rng, fam, k):
    if fam == "normal":
        return rng.gauss(0.5, 2.0)
    if fam == "const":
        return k
    if fam == "wild":
        return rng.choice([-1.0, 1.0]) * rng.random() * 10.0 ** rng.uniform(-120, 120)
    if fam == "neg":
        return -abs(rng.gauss(3.0, 1.0)) * 10.0 ** rng.randint(0, 3)
    if fam == "cancel":           # tiny spread on a large offset: numerator ~ rounding noise, may be < 0
        return k + rng.choice([0.0, 0.0, 1e-9, -1e-9, 1e-7]) * rng.random()
    if fam == "ints":
        return float(rng.randint(-5, 5))
    if fam == "zeros":
        return rng.choice([0.0, -0.0, 0.0, 1.0, -1.0])
    if fam == "tiny":
        return rng.gauss(0, 1) * 1e-160
    if fam == "special":
        return rng.choice([math.inf, -math.inf, math.nan, 1.0, 2.0, 1e150, -1e150, 5e-324])
    raise ValueError(fam)


def avg_obs(l):
    def opt(f):
        try:
            return float(f())
        except ZeroDivisionError:
            return None
    return {"data": [(int(k), float(v)) for k, v in l.data.items()],
            "pend": sorted(int(i) for i in l.pending_points),
            "npoints": int(l.npoints), "sum_f": float(l.sum_f), "sum_f_sq": float(l.sum_f_sq),
            "mean": opt(lambda: l.mean), "std": float(l.std),
            "loss_real": opt(lambda: l.loss(real=True)), "loss_exp": opt(lambda: l.loss(real=False))}


def avg_obs_term(o):
    return C.app("mkaobs", C.lst(C.pair(C.nat(k), F(v)) for k, v in o["data"]),
                 C.lst(C.nat(i) for i in o["pend"]), C.nat(o["npoints"]), F(o["sum_f"]), F(o["sum_f_sq"]),
                 C.opt(o["mean"], F), F(o["std"]), C.opt(o["loss_real"], F), C.opt(o["loss_exp"], F))


def avg_op_term(op):
    k = op[0]
    if k == "ask":
        return C.app("RAsk", C.nat(op[1]), C.bool_(op[2]), C.lst(C.nat(i) for i in op[3]))
    if k == "tell":
        return C.app("RTell", C.nat(op[1]), F(op[2]))
    if k == "tell_pending":
        return C.app("RTellPending", C.nat(op[1]))
    return "RRemove"


def avg_out_term(out):
    if out is None:
        return "RDone"
    if out == "err":
        return "RErr"
    return C.app("RAsked", C.lst(C.nat(i) for i in out[0]), F(out[1]))


def fr(x):
    return Fraction(x)


def off(x, exact, tol):
    """x (a float or None reported by the implementation) is not within tol of the exact rational."""
    return x is None or not math.isfinite(x) or abs(Fraction(x) - exact) > tol


class AvgOracle:
    """Property text, from scratch: each seed once (first value), sample mean, corrected
    sample standard deviation, standard error relative to atol / rtol, fresh seeds."""

    def __init__(self, atol, rtol, min_npoints):
        self.atol = math.inf if atol is None else atol
        self.rtol = math.inf if rtol is None else rtol
        self.minn = max(min_npoints, 2)
        self.told: dict[int, float] = {}
        self.pending: set[int] = set()
        self.errors: list[tuple[str, str]] = []
        self.f11 = None
        self.stats = {"std_checked": 0, "loss_checked": 0, "fallback_asks": 0, "neg_numerator": 0}

    def err(self, clause, msg):
        self.errors.append((clause, msg))

    def on_tell(self, seed, v):
        if seed not in self.told:
            self.told[seed] = v
        self.pending.discard(seed)

    def on_tell_pending(self, seed):
        self.pending.add(seed)

    def on_discard(self):
        self.pending = set()

    def on_ask(self, n, commit, ret, before_pending):
        if ret == "err":
            if n != 0:
                self.err("ask", f"ask({n}) raised")
            return
        pts, imps = ret
        taken = set(self.told) | self.pending | set(before_pending)
        if len(pts) != n or len(set(pts)) != len(pts):
            self.err("fresh_seeds", f"ask({n}) returned {pts}: not {n} distinct seeds")
        bad = [p for p in pts if p in taken]
        if bad:
            self.err("fresh_seeds", f"ask({n}) returned seeds {bad} that are already evaluated or pending")
        if any(not isinstance(p, (int, np.integer)) or p < 0 for p in pts):
            self.err("fresh_seeds", f"ask({n}) returned non-seed {pts}")
        if len(imps) != n:
            self.err("ask", f"{len(imps)} loss improvements for {n} points")
        if pts != list(range(pts[0], pts[0] + n)) if pts else False:
            self.stats["fallback_asks"] += 1
        if commit:
            self.pending |= set(pts)

    def check(self, l, o):
        told = self.told
        n = len(told)
        if [k for k, _ in o["data"]] != list(told) or any(
                not same_float(v, told[k]) for k, v in o["data"]):
            self.err("each_seed_once", f"data {o['data'][:6]}.. != first value per seed {list(told.items())[:6]}..")
            return
        if o["npoints"] != n:
            self.err("each_seed_once", f"npoints={o['npoints']} with {n} distinct seeds told")
        vals = list(told.values())
        finite = all(math.isfinite(v) for v in vals)
        if n == 0:
            if o["mean"] is not None and not math.isnan(o["mean"]):
                pass   # undefined by the property
        elif finite:
            fv = [fr(v) for v in vals]
            S = sum(fv)
            m = S / n
            A = sum(abs(v) for v in fv) / n
            if off(o["mean"], m, Fraction(1, 10 ** 12) * A + Fraction(1, 10 ** 300)):
                self.err("mean", f"mean={o['mean']} but sample mean of data = {float(m)!r}")
            # sum_f, sum_f_sq are the moments of the held data
            Q = sum(v * v for v in fv)
            if o["sum_f_sq"] != math.inf and off(o["sum_f_sq"], Q, Fraction(1, 10 ** 12) * Q + Fraction(1, 10 ** 300)):
                self.err("each_seed_once", f"sum_f_sq={o['sum_f_sq']} but sum of squares of data = {float(Q)!r}")
            if off(o["sum_f"], S, Fraction(1, 10 ** 12) * A * n + Fraction(1, 10 ** 300)):
                self.err("each_seed_once", f"sum_f={o['sum_f']} but sum of data = {float(S)!r}")
            if n >= self.minn and math.isfinite(o["sum_f_sq"]):
                var = sum((v - m) ** 2 for v in fv) / (n - 1)
                sd = o["std"]
                tol = Fraction(1, 10 ** 11) * Q / (n - 1) + Fraction(1, 10 ** 300)
                self.stats["std_checked"] += 1
                if not math.isfinite(sd) or abs(fr(sd) ** 2 - var) > tol:
                    self.err("std", f"std={sd!r} but corrected sample deviation of data = {math.sqrt(var)!r} (n={n})")
        if n < self.minn:
            if o["std"] != math.inf:
                self.err("std", f"std={o['std']} with {n} < min_npoints={self.minn} values")
            if o["loss_real"] != math.inf:
                self.err("loss", f"loss()={o['loss_real']} with {n} < min_npoints={self.minn} values")
            if o["loss_exp"] is None:
                self.f11 = (n, sorted(l.pending_points))
        elif finite and o["mean"] is not None and math.isfinite(o["std"]):
            for key, nn in (("loss_real", n), ("loss_exp", n + len(o["pend"]))):
                got = o[key]
                se = o["std"] / math.sqrt(nn)
                a = se / self.atol
                r = se / self.rtol
                if o["mean"] != 0:
                    r = r / abs(o["mean"])
                exp = max(a, r)
                self.stats["loss_checked"] += 1
                if got is None or not close(got, exp, 1e-12):
                    self.err("loss_formula", f"loss({key})={got!r}, standard error relative to atol/rtol = {exp!r}")


def same_float(a, b):
    return (math.isnan(a) and math.isnan(b)) or (a == b and math.copysign(1, a) == math.copysign(1, b))


def close(a, b, rel):
    if math.isnan(a) or math.isnan(b):
        return math.isnan(a) and math.isnan(b)
    if a == b:
        return True
    if math.isinf(a) or math.isinf(b):
        return False
    return abs(a - b) <= rel * max(abs(a), abs(b))


def avg_drive(cfg, rng, maxlen, concrete=None):
    """Drive the real AverageLearner.  cfg = dict(atol, rtol, min_npoints, fam).
    Returns (steps [(op, out, obs)], oracle, sqx)."""
    from adaptive import AverageLearner
    l = AverageLearner(lambda s: 0.0, atol=cfg["atol"], rtol=cfg["rtol"], min_npoints=cfg["min_npoints"])
    orc = AvgOracle(cfg["atol"], cfg["rtol"], cfg["min_npoints"])
    steps, sqx = [], {}

    def note_sq(x):
        try:
            p = x ** 2
        except OverflowError:
            return
        if not same_float(p, x * x):
            sqx[x.hex()] = (x, p)

    def do(op):
        op = tuple(op)
        out = None
        if op[0] == "ask":
            before = set(l.pending_points)
            try:
                ret = l.ask(op[1], tell_pending=op[2])
                ret = ([int(p) for p in ret[0]], [float(x) for x in ret[1]])
                out = (ret[0], ret[1][0] if ret[1] else 0.0)     # ask(0) -> ([], []): the model answers Asked [] 0
                if any(not same_float(x, ret[1][0]) for x in ret[1]):
                    orc.err("ask", "loss improvements differ")
            except ZeroDivisionError:
                ret = out = "err"
            orc.on_ask(op[1], op[2], ret, before)
            op = ("ask", op[1], op[2], [] if out == "err" else list(out[0]))
        elif op[0] == "tell":
            v = float(op[2])
            note_sq(v)
            l.tell(op[1], v)
            orc.on_tell(op[1], v)
        elif op[0] == "tell_pending":
            l.tell_pending(op[1])
            orc.on_tell_pending(op[1])
        else:
            l.remove_unfinished()
            orc.on_discard()
        o = avg_obs(l)
        if o["mean"] is not None:
            note_sq(o["mean"])
        orc.check(l, o)
        steps.append((op, out, o))

    if concrete is not None:
        for op in concrete:
            do(op[:3] if op[0] == "ask" else op)
        return steps, orc, list(sqx.values())

    fam = cfg["fam"]
    k = rng.choice([0.0, 1.0, -2.5, 1e8, 3.0e-7, 12345.678])
    L = rng.randint(1, maxlen)
    for _ in range(L):
        r = rng.random()
        known = list(l.data)
        pend = sorted(l.pending_points)
        top = l.npoints + len(pend)
        if r < 0.22:
            n = rng.choice([1, 1, 2, 3, 5]) if rng.random() < 0.96 else 0
            do(("ask", n, rng.random() < 0.75))
        elif r < 0.80:
            kind = rng.choice(["pending", "pending", "pending", "gap", "gap", "known", "low"])
            if kind == "pending" and pend:
                seed = rng.choice(pend)
            elif kind == "known" and known:
                seed = rng.choice(known)
            elif kind == "low":
                seed = rng.randint(0, max(1, top))
            else:
                seed = top + rng.randint(0, 6)
            f = fam if rng.random() < 0.9 else rng.choice(VALUE_FAMILIES)
            do(("tell", seed, gen_value(rng, f, k)))
        elif r < 0.92:
            kind = rng.random()
            if kind < 0.15 and known:
                seed = rng.choice(known)
            else:
                seed = rng.randint(0, top + 8)
            do(("tell_pending", seed))
        else:
            do(("remove_unfinished",))
    return steps, orc, list(sqx.values())


def avg_case_term(cfg, guard, steps, sqx):
    atol = math.inf if cfg["atol"] is None else cfg["atol"]
    rtol = math.inf if cfg["rtol"] is None else cfg["rtol"]
    return C.app("mkacase", F(atol), F(rtol), C.nat(max(cfg["min_npoints"], 0)), C.bool_(guard),
                 C.lst(C.pair(F(x), F(p)) for x, p in sqx),
                 C.lst((C.tup(avg_op_term(op), avg_out_term(out), C.opt(o, avg_obs_term)) for op, out, o in steps),
                       sep=";\n  "))


def avg_nontrivial(steps, minn):
    rep = gap = False
    seen = set()
    reached = False
    for op, out, o in steps:
        if op[0] == "tell":
            if op[1] in seen:
                rep = True
            seen.add(op[1])
        if op[0] == "ask" and out not in (None, "err") and out[0] and out[0] != list(range(out[0][0], out[0][0] + len(out[0]))):
            gap = True
        if o["npoints"] >= minn:
            reached = True
    return rep and reached, gap


def gen_avg_cfg(rng):
    tol = [None, 1e-3, 0.1, 1.0, 2.5, 1e6, math.inf]
    atol = rng.choice(tol)
    rtol = rng.choice(tol)
    if atol is None and rtol is None:
        atol = 0.5
    return {"atol": atol, "rtol": rtol, "min_npoints": rng.choice([-1, 0, 2, 2, 3, 5, 8]),
            "fam": rng.choice(VALUE_FAMILIES)}


# ======================================================================
# AverageLearner1D
# ======================================================================
def probe_dedup() -> bool:
    """Does tell_many_at_point ignore a seed already known at x?  (F21 repaired?)"""
    from adaptive import AverageLearner1D
    l = AverageLearner1D(lambda sx: 0.0, (-1, 1), min_samples=3)
    l.tell((0, 0.5), 1.0)
    l.tell((1, 0.5), 2.0)
    l.tell_many_at_point(0.5, {1: 10.0, 2: 3.0})
    return l._number_samples[0.5] == 3 and l._data_samples[0.5][1] == 2.0


def d1_obs(l):
    xs = list(l._data_samples.keys())
    if sorted(l.data.keys()) != xs or list(l._number_samples.keys()) != xs or sorted(l.error.keys()) != xs:
        return None
    return [(float(x), [(int(s), float(y)) for s, y in l._data_samples[x].items()], float(l.data[x]),
             int(l._number_samples[x]), float(l.error[x]), x in l._undersampled_points) for x in xs]


def d1_obs_term(o):
    return C.lst((C.app("dpt", F(x), C.lst(C.pair(C.nat(s), F(y)) for s, y in smp), F(m), C.nat(n), F(e), C.bool_(u))
                  for x, smp, m, n, e, u in o), sep=";\n     ")


def d1_op_term(op):
    k = op[0]
    if k == "ask":
        return C.app("dAsk", C.nat(op[1]), C.lst(C.pair(C.nat(s), F(x)) for s, x in op[3]))
    if k == "tell":
        return C.app("dTell", C.nat(op[1]), F(op[2]), F(op[3]))
    if k == "tell_many_at":
        return C.app("dTellManyAt", F(op[1]), C.lst(C.pair(C.nat(s), F(y)) for s, y in op[2]), F(op[3]))
    if k == "tell_many":
        return C.app("dTellMany", C.lst(C.tup(C.nat(s), F(x), F(y)) for s, x, y in op[1]), C.lst(F(h) for h in op[2]))
    raise ValueError(k)


def d1_out_term(out):
    if out is None:
        return "dDone"
    if out == "err":
        return "dErr"
    return C.app("dAsked", C.lst(C.pair(C.nat(s), F(x)) for s, x in out))


class D1Oracle:
    """Property text for AverageLearner1D, from scratch with exact rationals."""

    def __init__(self, cfg):
        import scipy.stats
        self.cfg = cfg
        self.t = lambda df: float(scipy.stats.t.ppf(1 - cfg["alpha"], df=df))
        self.told: dict[float, dict[int, float]] = {}
        self.errors = []
        self.f21 = None
        self.active = True
        self.stats = {"asks_while_short": 0, "asks_to_short_abscissa": 0, "asks_free": 0, "err_checked": 0}

    def err(self, clause, msg):
        self.errors.append((clause, msg))

    def on_tell(self, seed, x, y):
        d = self.told.setdefault(x, {})
        if seed not in d:
            d[seed] = y

    def short(self):
        return [x for x, d in self.told.items() if len(d) < self.cfg["min_samples"]]

    def on_ask(self, l, n, out):
        if not self.active:
            return
        if out == "err":
            if n >= 1:
                self.err("1d_ask", f"ask({n}) raised ZeroDivisionError")
            return
        short = self.short()
        xs = {x for _, x in out}
        if len(out) != n or len(set(out)) != n:
            self.err("1d_ask", f"ask({n}) returned {out}")
        if short:
            self.stats["asks_while_short"] += 1
            if len(xs) != 1 or next(iter(xs)) not in self.told:
                self.err("1d_undersampled_first",
                         f"abscissae {sorted(short)} have fewer than min_samples={self.cfg['min_samples']} samples "
                         f"but ask({n}) went to {sorted(xs)} (not an evaluated abscissa)")
            elif next(iter(xs)) not in l._undersampled_points:
                self.err("1d_undersampled_first", f"ask({n}) went to {sorted(xs)}, which is not undersampled")
            elif next(iter(xs)) in short:
                self.stats["asks_to_short_abscissa"] += 1
        else:
            self.stats["asks_free"] += 1

    def check(self, l, batch_known_seed=False):
        if not self.active:
            return
        if batch_known_seed:
            # did the batch path treat the known seed as tell does (ignore it)?
            for x, d in self.told.items():
                if l._number_samples.get(x) != len(d) or dict(l._data_samples.get(x, {})) != d:
                    self.f21 = (x, dict(l._data_samples.get(x, {})), l._number_samples.get(x), d)
                    self.active = False
                    return
        ms = self.cfg["min_samples"]
        if set(l.data.keys()) != set(self.told):
            self.err("1d_counts", f"abscissae {sorted(l.data.keys())} != told {sorted(self.told)}")
            return
        for x, d in self.told.items():
            n = len(d)
            if dict(l._data_samples[x]) != d:
                self.err("1d_counts", f"samples at x={x}: {dict(l._data_samples[x])} != told {d}")
                continue
            if l._number_samples[x] != n:
                self.err("1d_counts", f"_number_samples[{x}]={l._number_samples[x]} but {n} samples were told there")
            ys = [fr(y) for y in d.values()]
            m = sum(ys) / n
            A = sum(abs(y) for y in ys) / n
            if off(float(l.data[x]), m, Fraction(1, 10 ** 12) * A + Fraction(1, 10 ** 300)):
                self.err("1d_mean_is_sample_mean", f"data[{x}]={float(l.data[x])!r} but the mean of the {n} samples told there is {float(m)!r}")
            e = float(l.error[x])
            if n == 1:
                if e != math.inf:
                    self.err("1d_error_is_t_halfwidth", f"error[{x}]={e} with one sample")
            else:
                var = sum((y - m) ** 2 for y in ys) / (n - 1)
                exp = self.t(n - 1) * math.sqrt(var / n)
                self.stats["err_checked"] += 1
                tol = 1e-9 * exp + 1e-11 * self.t(n - 1) * float(max(abs(y) for y in ys)) + 1e-300
                if not (abs(e - exp) <= tol):
                    self.err("1d_error_is_t_halfwidth", f"error[{x}]={e!r}, Student-t half-width of the {n} samples = {exp!r}")
            if n < ms and x not in l._undersampled_points:
                self.err("1d_undersampled_first", f"x={x} has {n} < min_samples={ms} samples and is not in _undersampled_points")
        if l.nsamples != sum(len(d) for d in self.told.values()):
            self.err("1d_counts", f"nsamples={l.nsamples}")


def yfun(cfg, seed, x):
    import random
    r = random.Random(hash((cfg["fseed"], seed, float(x))))
    base = {"sin": math.sin(3 * x), "const": 1.5, "step": (x > 0.1) * 4.0 - 1.0, "big": 1e6 * x + 1e9,
            "small": 1e-9 * math.cos(x)}[cfg["f"]]
    return float(base + cfg["sigma"] * r.gauss(0, 1))


def make_d1(cfg):
    from adaptive import AverageLearner1D
    return AverageLearner1D(lambda sx: 0.0, tuple(cfg["bounds"]), delta=cfg["delta"], alpha=cfg["alpha"],
                            neighbor_sampling=cfg["ns"], min_samples=cfg["min_samples"],
                            max_samples=cfg["max_samples"], min_error=cfg["min_error"])


def batch_hint(l, x, mapping, dedup):
    """np.mean(ys) exactly as tell_many_at_point computes it."""
    m = dict(mapping)
    if x not in l.data:
        m.pop(next(iter(m)))
    elif dedup:
        m = {s: y for s, y in m.items() if s not in l._data_samples[x]}
    if not m:
        return math.nan
    with warnings.catch_warnings():
        warnings.simplefilter("ignore")
        return float(np.mean(np.array(list(m.values()))))


def d1_drive(cfg, rng, maxlen, dedup, concrete=None, observe_every=1):
    l = make_d1(cfg)
    orc = D1Oracle(cfg)
    steps = []
    lo, hi = cfg["bounds"]
    grid = [lo + (hi - lo) * i / 8 for i in range(9)]
    info = {"batch": 0, "repeat_seed": 0, "ooo_seed": 0, "f21_trigger": False, "tm_err": 0}

    def known_seed_in(x, seeds):
        return x in l._data_samples and any(s in l._data_samples[x] for s in seeds)

    def do(op):
        op = tuple(op)
        out = None
        trig = False
        if op[0] == "ask":
            try:
                with warnings.catch_warnings():
                    warnings.simplefilter("ignore")
                    ret = l.ask(op[1], tell_pending=op[2])
                out = [(int(s), float(x)) for s, x in ret[0]]
            except ZeroDivisionError:
                out = "err"
            orc.on_ask(l, op[1], out)
            op = ("ask", op[1], op[2], [] if out == "err" else out)
        elif op[0] == "tell":
            _, seed, x, y = op
            if x in l._data_samples and seed in l._data_samples[x]:
                info["repeat_seed"] += 1
            elif x in l._number_samples and seed != l._number_samples[x]:
                info["ooo_seed"] += 1
            l.tell((seed, x), y)
            orc.on_tell(seed, x, y)
        elif op[0] == "tell_many_at":
            _, x, pairs = op[:3]
            mapping = dict((int(s), float(y)) for s, y in pairs)
            pairs = list(mapping.items())
            hint = batch_hint(l, x, mapping, dedup) if lo <= x <= hi and mapping else math.nan
            trig = known_seed_in(x, mapping)
            info["batch"] += 1
            try:
                l.tell_many_at_point(x, mapping)
                for s, y in pairs:
                    orc.on_tell(s, x, y)
            except (ValueError, StopIteration):
                out = "err"
            op = ("tell_many_at", x, pairs, hint)
        elif op[0] == "tell_many":
            trip = [(int(s), float(x), float(y)) for s, x, y in op[1]]
            groups: dict[float, dict[int, float]] = {}
            for s, x, y in trip:
                groups.setdefault(x, {})[s] = y
            hints = []
            if all(lo <= x <= hi for _, x, _ in trip):
                for x, mp in groups.items():
                    if len(mp) > 1:
                        hints.append(batch_hint(l, x, mp, dedup))
                        trig = trig or known_seed_in(x, mp)
                        info["batch"] += 1
            try:
                l.tell_many([(s, x) for s, x, _ in trip], [y for _, _, y in trip])
                for x, mp in groups.items():
                    for s, y in mp.items():
                        orc.on_tell(s, x, y)
            except ValueError:
                out = "err"
                info["tm_err"] += 1
            op = ("tell_many", trip, hints)
        if trig:
            info["f21_trigger"] = True
        orc.check(l, batch_known_seed=trig)
        o = d1_obs(l) if (len(steps) % observe_every == 0 or op[0] != "tell") else None
        steps.append((op, out, o))

    if concrete is not None:
        for op in concrete:
            do(op[:3] if op[0] in ("ask", "tell_many_at") else (op[:2] if op[0] == "tell_many" else op))
        return steps, orc, info, l

    def pick_x(kind):
        xs = list(l.data.keys())
        if kind == "existing" and xs:
            return rng.choice(xs)
        if kind == "under" and l._undersampled_points:
            return rng.choice(sorted(l._undersampled_points))
        if kind == "grid":
            return rng.choice(grid)
        return rng.uniform(lo, hi)

    def pick_seed(x, kind):
        d = l._data_samples.get(x, {})
        n = len(d)
        if kind == "known" and d:
            return rng.choice(list(d))
        if kind == "gap":
            return n + rng.randint(1, 5)
        s = n
        while s in d:
            s += 1
        return s

    todo = []
    L = rng.randint(1, maxlen)
    for _ in range(L):
        r = rng.random()
        if r < 0.20:
            n = rng.choice([1, 1, 2, 3, 4])
            do(("ask", n, rng.random() < 0.7))
            out = steps[-1][1]
            if out != "err":
                todo += out
                rng.shuffle(todo)
        elif r < 0.45 and todo:
            s, x = todo.pop()
            do(("tell", s, x, yfun(cfg, s, x)))
        elif r < 0.70:
            x = pick_x(rng.choice(["existing", "existing", "under", "grid", "grid", "new"]))
            s = pick_seed(x, rng.choice(["next", "next", "next", "gap", "known"]))
            do(("tell", s, x, yfun(cfg, s + (1000 if rng.random() < 0.3 else 0), x)))
        elif r < 0.86:
            x = pick_x(rng.choice(["existing", "under", "grid", "new"]))
            k = rng.choice([1, 2, 2, 3, 4, 6])
            seeds = []
            for _ in range(k):
                s = pick_seed(x, "gap" if rng.random() < 0.3 else "next")
                while s in seeds:
                    s += 1
                seeds.append(s)
            if cfg["allow_known"] and rng.random() < 0.5:
                s = pick_seed(x, "known")
                if s not in seeds:
                    seeds.insert(rng.randint(0, len(seeds)), s)
            if rng.random() < 0.04:
                x = hi + 1.0
            do(("tell_many_at", x, [(s, yfun(cfg, s + 7, x)) for s in seeds]))
        else:
            trip = []
            for _ in range(rng.randint(1, 7)):
                x = pick_x(rng.choice(["existing", "grid", "grid", "new"]))
                s = pick_seed(x, rng.choice(["next", "gap"]) if not cfg["allow_known"] else rng.choice(["next", "gap", "known"]))
                s += sum(1 for (s2, x2, _) in trip if x2 == x)
                trip.append((s, x, yfun(cfg, s + 13, x)))
            if rng.random() < 0.05:
                trip.append((0, lo - 0.5, 0.0))
            do(("tell_many", trip))
    return steps, orc, info, l


def d1_case_term(cfg, dedup, steps):
    import scipy.stats
    nmax = 2
    for op, out, o in steps:
        for p in (o or []):
            nmax = max(nmax, p[3] + 1)
        if op[0] == "tell_many_at":
            nmax += len(op[2])
        if op[0] == "tell_many":
            nmax += len(op[1])
    ttab = [(df, float(scipy.stats.t.ppf(1 - cfg["alpha"], df=df))) for df in range(1, nmax + 2)]
    lo, hi = cfg["bounds"]
    return C.app("mkdcase", F(lo), F(hi), C.nat(cfg["min_samples"]), F(cfg["ns"]), C.bool_(dedup),
                 C.lst(C.pair(C.nat(df), F(t)) for df, t in ttab),
                 C.lst((C.tup(d1_op_term(op), d1_out_term(out), C.opt(o, d1_obs_term)) for op, out, o in steps),
                       sep=";\n  "))


def gen_d1_cfg(rng, allow_known):
    ms = rng.choice([0, 1, 2, 2, 3, 3, 5, 8])
    return {"bounds": rng.choice([(-1.0, 1.0), (0.0, 10.0), (-3.0, -1.0)]),
            "min_samples": ms,
            "max_samples": rng.choice([max(ms, 1), ms + 1, ms + 4, 50, sys.maxsize]),
            "delta": rng.choice([0.05, 0.2, 0.5, 1.0]),
            "alpha": rng.choice([0.001, 0.005, 0.025, 0.1, 0.3]),
            "ns": rng.choice([0.1, 0.3, 0.3, 0.7, 1.0]),
            "min_error": rng.choice([0, 0, 0.01, 1.0]),
            "f": rng.choice(["sin", "sin", "const", "step", "big", "small"]),
            "sigma": rng.choice([0.0, 1e-6, 0.1, 0.1, 1.0, 50.0]),
            "fseed": rng.randint(0, 10 ** 6),
            "allow_known": allow_known}


def twin_compare(cfg, steps):
    """Batched telling vs one-by-one on the real class: values, errors, counts, losses.
    Both learners use _recompute_losses_factor = 1 (as the project's own test does), so
    that the lazily rescaled interval losses are comparable."""
    a, b = make_d1(cfg), make_d1(cfg)
    a._recompute_losses_factor = b._recompute_losses_factor = 1
    nb = 0
    with warnings.catch_warnings():
        warnings.simplefilter("ignore")
        for op, out, _ in steps:
            if out == "err" or op[0] == "ask":
                continue
            if op[0] == "tell":
                a.tell((op[1], op[2]), op[3])
                b.tell((op[1], op[2]), op[3])
            elif op[0] == "tell_many_at":
                nb += 1
                a.tell_many_at_point(op[1], dict(op[2]))
                for s, y in dict(op[2]).items():
                    b.tell((s, op[1]), y)
            elif op[0] == "tell_many":
                nb += 1
                a.tell_many([(s, x) for s, x, _ in op[1]], [y for _, _, y in op[1]])
                for s, x, y in op[1]:
                    b.tell((s, x), y)
    if nb == 0:
        return None, 0
    if list(a.data.keys()) != list(b.data.keys()):
        return f"abscissae differ: {list(a.data.keys())} vs {list(b.data.keys())}", nb
    scale = max([abs(float(v)) for v in b.data.values()] + [1e-300])
    for x in a.data:
        if dict(a._data_samples[x]) != dict(b._data_samples[x]):
            return f"samples at {x} differ", nb
        if a._number_samples[x] != b._number_samples[x]:
            return f"counts at {x}: batched {a._number_samples[x]} vs one-by-one {b._number_samples[x]}", nb
        ys = [abs(y) for y in b._data_samples[x].values()]
        if abs(float(a.data[x]) - float(b.data[x])) > 1e-12 * max(ys) + 1e-300:
            return f"value at {x}: batched {float(a.data[x])!r} vs one-by-one {float(b.data[x])!r}", nb
        ea, eb = float(a.error[x]), float(b.error[x])
        if not (ea == eb or abs(ea - eb) <= 1e-7 * max(abs(ea), abs(eb)) + 1e-9 * max(ys)):
            return f"error at {x}: batched {ea!r} vs one-by-one {eb!r}", nb
    if a.losses.keys() != b.losses.keys():
        return "loss intervals differ", nb
    for k in a.losses:
        la, lb = float(a.losses[k]), float(b.losses[k])
        if not (la == lb or abs(la - lb) <= 1e-6 * max(abs(la), abs(lb)) + 1e-9):
            return f"loss of interval {k}: batched {la!r} vs one-by-one {lb!r}", nb
    return None, nb


# ======================================================================
def shard_size(cases, target_bytes=1.5e6):
    """Cases per generated .v file so that a file stays around 1.5 MB (coqc memory)."""
    total = sum(len(c) for c in cases) or 1
    return max(4, min(200, int(len(cases) * target_bytes / total)))


def coq_cases_balanced(chk, tag, ctype, cases, metas, check_fn, legal_fn):
    """chk.coq_cases on a deterministic shuffle of the cases (so that every shard has about the
    average size), with a serial retry of shards whose coqc was killed (memory pressure from
    other jobs on the machine).  Returns (mismatches as (meta, step), legal count, errors)."""
    import random
    import re
    from ..core import coqc_file, split_evals
    order = list(range(len(cases)))
    random.Random(12345).shuffle(order)
    sh = shard_size(cases)
    mism, legal, errors = chk.coq_cases(tag, PREAMBLE, ctype, [cases[i] for i in order], check_fn, legal_fn, shard=sh)
    left = []
    for e in errors:
        m = re.match(rf"({tag}_(\d+)\.v): rc=(-9|137|-11|124)", e)
        if not m:
            left.append(e)
            continue
        f = chk.work / m.group(1)
        rc, out, _ = coqc_file(f, 1800)
        if rc != 0:
            left.append(f"{f.name}: rc={rc} (after serial retry): {out[-400:]}")
            continue
        parts = split_evals(out)
        k = int(m.group(2)) * sh
        mism += [(k + c, st) for c, st in C.parse_pairs(parts[0])]
        legal += C.parse_nat(parts[1])
        chk.extra["shards_retried_serially"] = chk.extra.get("shards_retried_serially", 0) + 1
    return sorted((order[c], st) for c, st in mism), legal, left


def jsonable_ops(steps):
    return json.loads(json.dumps([list(s[0]) for s in steps], default=lambda o: repr(o)))


def run(chk: Check) -> int:
    chk.prove(["theories/Props/C16.vo", "theories/Run/AvgRun.vo"], THEOREMS,
              allowed_axioms=frozenset(STD_AXIOMS_OK | PRIMS | {"Axioms"}))  # core's parser also yields the header word "Axioms"
    quick = chk.quick
    by_sig: dict[str, int] = {}
    raw_fail = chk.fail

    def fail_limited(signature, what, rep):
        # keep at most two inputs per signature so that the replay file shows every kind of failure
        by_sig[signature] = by_sig.get(signature, 0) + 1
        if by_sig[signature] <= 2:
            raw_fail(signature, what, rep)

    chk.fail = fail_limited
    guard, dedup = probe_guard(), probe_dedup()
    chk.log(f"implementation probes: F11 repaired={guard}  F21 repaired={dedup}")

    # ------------------------------------------------------------ AverageLearner
    na = 350 if quick else 2500
    maxlen = 30 if quick else 90
    cases, metas = [], []
    hist = {"ask": 0, "tell": 0, "tell_pending": 0, "remove_unfinished": 0}
    fams, stats = {}, {"std_checked": 0, "loss_checked": 0, "fallback_asks": 0, "sq_exceptions": 0,
                       "f11_states": 0, "neg_numerator_states": 0, "cases_with_fallback_ask": 0}

    def add_avg(cfg, steps, orc, sqx, origin):
        cases.append(avg_case_term(cfg, guard, steps, sqx))
        metas.append({"kind": "avg", "cfg": cfg, "ops": jsonable_ops(steps), "origin": origin})
        nt, gap = avg_nontrivial(steps, max(cfg["min_npoints"], 2))
        chk.note_case(("avg", repr(cfg), repr([s[0] for s in steps])), nt)
        for s in steps:
            hist[s[0][0]] += 1
        fams[cfg["fam"]] = fams.get(cfg["fam"], 0) + 1
        for k in ("std_checked", "loss_checked", "fallback_asks"):
            stats[k] += orc.stats[k]
        stats["sq_exceptions"] += len(sqx)
        stats["cases_with_fallback_ask"] += bool(gap)
        stats["neg_numerator_states"] += sum(1 for _, _, o in steps if o["std"] == 0 and o["npoints"] >= 2)
        if len(steps) > 5 and nt:
            chk.sample({"learner": "AverageLearner", "cfg": {k: repr(v) for k, v in cfg.items()},
                        "ops": jsonable_ops(steps)[:10]})
        rep = {"kind": "avg", "cfg": cfg, "ops": jsonable_ops(steps)}
        for clause, msg in orc.errors[:1]:
            chk.fail(f"C16:{clause}", f"AverageLearner(atol={cfg['atol']}, rtol={cfg['rtol']}, "
                     f"min_npoints={cfg['min_npoints']}): {msg}", rep)
        if orc.f11 is not None:
            stats["f11_states"] += 1
            chk.fail(SIG_F11, f"AverageLearner(atol={cfg['atol']}, rtol={cfg['rtol']}, min_npoints={cfg['min_npoints']})"
                     f".loss(real=False) raises ZeroDivisionError with npoints={orc.f11[0]}, pending={orc.f11[1]}", rep)

    corpus = sorted((VERIF / "corpus" / "C16").glob("*.json"))
    for f in corpus:
        d = json.loads(f.read_text())
        if d.get("kind") == "avg":
            steps, orc, sqx = avg_drive(d["cfg"], None, 0, concrete=d["ops"])
            add_avg(d["cfg"], steps, orc, sqx, f.name)
    # the minimal F11 history, always
    f11cfg = {"atol": 1.0, "rtol": None, "min_npoints": 2, "fam": "normal"}
    steps, orc, sqx = avg_drive(f11cfg, None, 0, concrete=[("ask", 2, True), ("tell", 0, 1.5), ("tell", 1, 2.5)])
    add_avg(f11cfg, steps, orc, sqx, "f11-minimal")
    for k in range(na):
        rng = chk.rng("avg", k)
        cfg = gen_avg_cfg(rng)
        steps, orc, sqx = avg_drive(cfg, rng, maxlen)
        add_avg(cfg, steps, orc, sqx, f"seed{chk.seed}/avg/{k}")
    exhaustive_avg = 0
    if not quick:
        # every op sequence of length 4 over a 9-letter alphabet (prefix-closed, so all shorter ones too)
        import itertools
        alpha = [("ask", 1, True), ("ask", 2, True), ("ask", 2, False), ("tell", 0), ("tell", 1), ("tell", 3),
                 ("tell_pending", 1), ("tell_pending", 4), ("remove_unfinished",)]
        vals = [1.5, -2.25, 1.5, 1e-3]
        xcfg = {"atol": 0.25, "rtol": 2.0, "min_npoints": 2, "fam": "ints"}
        for seq in itertools.product(alpha, repeat=4):
            ops = [(o[0], o[1], vals[i]) if o[0] == "tell" else o for i, o in enumerate(seq)]
            steps, orc, sqx = avg_drive(xcfg, None, 0, concrete=ops)
            add_avg(xcfg, steps, orc, sqx, "exhaustive-len4")
            exhaustive_avg += 1
    mism, reached, errors = coq_cases_balanced(chk, "avg", "acase", cases, metas, "acheck", "a_reaches_min")
    for e in errors:
        chk.broke("correspondence", "Model/Avg.v cases could not be evaluated", e)
    for c, s in mism[:5]:
        m = metas[c]
        chk.broke("correspondence", f"Model/Avg.v vs AverageLearner: case {m['origin']} step {s}",
                  {"kind": "avg", "cfg": m["cfg"], "ops": m["ops"][:s + 1]})
    chk.log(f"AverageLearner: {len(cases)} cases, {len(mism)} mismatches, {reached} reach min_npoints; "
            f"oracle failures so far {sum(by_sig.values())}")
    navg, mis_a = len(cases), len(mism)

    # ------------------------------------------------------------ AverageLearner1D
    nd = 220 if quick else 1200
    maxlen1 = 26 if quick else 50
    cases1, metas1 = [], []
    hist1 = {"ask": 0, "tell": 0, "tell_many_at": 0, "tell_many": 0}
    st1 = {"asks_while_short": 0, "asks_to_short_abscissa": 0, "asks_free": 0, "err_checked": 0,
           "batch": 0, "repeat_seed": 0, "ooo_seed": 0, "f21_trigger_cases": 0, "tell_many_valueerror": 0,
           "twin_compared_cases": 0, "twin_batches": 0, "max_points": 0, "max_samples_at_point": 0}

    def add_d1(cfg, steps, orc, info, l, origin, twin=True):
        cases1.append(d1_case_term(cfg, dedup, steps))
        metas1.append({"kind": "avg1d", "cfg": cfg, "ops": jsonable_ops(steps), "origin": origin})
        nt = info["batch"] > 0 and info["repeat_seed"] + info["ooo_seed"] > 0 and len(l.data) >= 2
        chk.note_case(("avg1d", repr(cfg), repr([s[0] for s in steps])), nt)
        for s in steps:
            hist1[s[0][0]] += 1
        for k in ("asks_while_short", "asks_to_short_abscissa", "asks_free", "err_checked"):
            st1[k] += orc.stats[k]
        for k in ("batch", "repeat_seed", "ooo_seed"):
            st1[k] += info[k]
        st1["f21_trigger_cases"] += info["f21_trigger"]
        st1["tell_many_valueerror"] += info["tm_err"]
        st1["max_points"] = max(st1["max_points"], len(l.data))
        st1["max_samples_at_point"] = max([st1["max_samples_at_point"]] + list(l._number_samples.values()))
        rep = {"kind": "avg1d", "cfg": cfg, "ops": jsonable_ops(steps)}
        if any(o is None and op[0] != "tell" for op, _, o in steps):
            chk.fail("C16:1d_counts", "data / _data_samples / _number_samples / error do not have the same abscissae", rep)
        for clause, msg in orc.errors[:1]:
            chk.fail(f"C16:{clause}", f"AverageLearner1D({ {k: cfg[k] for k in ('min_samples', 'max_samples', 'alpha', 'delta', 'ns')} }): {msg}", rep)
        if orc.f21 is not None:
            x, held, cnt, told = orc.f21
            chk.fail(SIG_F21, f"after a batched tell with a seed already known at x={x}: _number_samples={cnt}, "
                     f"samples held {held}, samples told (first value per seed) {told}", rep)
        elif twin and not info["f21_trigger"]:
            msg, nb = twin_compare(cfg, steps)
            if nb:
                st1["twin_compared_cases"] += 1
                st1["twin_batches"] += nb
            if msg:
                chk.fail("C16:1d_batch_equals_incremental", f"AverageLearner1D batched vs one-by-one: {msg}", rep)
        if nt and len(steps) > 5:
            chk.sample({"learner": "AverageLearner1D", "cfg": {k: repr(v) for k, v in cfg.items()},
                        "ops": jsonable_ops(steps)[:8]})

    for f in corpus:
        d = json.loads(f.read_text())
        if d.get("kind") == "avg1d":
            d["cfg"]["bounds"] = tuple(d["cfg"]["bounds"])
            steps, orc, info, l = d1_drive(d["cfg"], None, 0, dedup, concrete=d["ops"])
            add_d1(d["cfg"], steps, orc, info, l, f.name)
    # the minimal F21 history, always
    f21cfg = gen_d1_cfg(chk.rng("f21"), True)
    f21cfg.update({"bounds": (-1.0, 1.0), "min_samples": 3})
    steps, orc, info, l = d1_drive(f21cfg, None, 0, dedup, concrete=[
        ("tell", 0, 0.5, 1.0), ("tell", 1, 0.5, 2.0), ("tell_many_at", 0.5, [(1, 10.0), (2, 3.0)])])
    add_d1(f21cfg, steps, orc, info, l, "f21-minimal")
    for k in range(nd):
        rng = chk.rng("avg1d", k)
        cfg = gen_d1_cfg(rng, allow_known=(k % 5 == 0))
        steps, orc, info, l = d1_drive(cfg, rng, maxlen1, dedup, observe_every=1 if quick else 2)
        add_d1(cfg, steps, orc, info, l, f"seed{chk.seed}/avg1d/{k}")
    exhaustive_1d = 0
    if not quick:
        # every arrival order of 5 samples at two abscissae, told one by one, as one tell_many,
        # or as a tell_many of the first k followed by single tells
        import itertools
        base = [(0, 0.25, 1.0), (1, 0.25, 3.5), (2, 0.25, -2.0), (0, -0.5, 7.0), (1, -0.5, 7.5)]
        for ms in (2, 3):
            xcfg = {"bounds": (-1.0, 1.0), "min_samples": ms, "max_samples": 50, "delta": 0.2, "alpha": 0.025,
                    "ns": 0.3, "min_error": 0, "f": "sin", "sigma": 0.1, "fseed": 0, "allow_known": False}
            for perm in itertools.permutations(base):
                for k in (0, 2, 3, 4, 5):
                    ops = ([("tell_many", list(perm[:k]))] if k else []) + [("tell", s_, x_, y_) for s_, x_, y_ in perm[k:]]
                    ops.append(("ask", 2, False))
                    steps, orc, info, l = d1_drive(xcfg, None, 0, dedup, concrete=ops)
                    add_d1(xcfg, steps, orc, info, l, "exhaustive-perm5", twin=(k > 0))
                    exhaustive_1d += 1
    mism1, legal1, errors1 = coq_cases_balanced(chk, "avg1d", "dcase", cases1, metas1, "dcheck", "dlegal")
    for e in errors1:
        chk.broke("correspondence", "Model/Avg1D.v cases could not be evaluated", e)
    for c, s in mism1[:5]:
        m = metas1[c]
        chk.broke("correspondence", f"Model/Avg1D.v vs AverageLearner1D: case {m['origin']} step {s}",
                  {"kind": "avg1d", "cfg": m["cfg"], "ops": m["ops"][:s + 1]})
    chk.log(f"AverageLearner1D: {len(cases1)} cases, {len(mism1)} mismatches, {legal1} legal; "
            f"oracle failures {sum(by_sig.values())}")

    chk.extra.update({
        "avg_cases_compared_in_coq": navg, "avg_mismatches": mis_a, "avg_cases_reaching_min_npoints_per_coq": reached,
        "avg_op_histogram": hist, "avg_value_families": fams, "avg_oracle_stats": stats,
        "avg1d_cases_compared_in_coq": len(cases1), "avg1d_mismatches": len(mism1),
        "avg1d_legal_histories_per_coq": legal1, "avg1d_op_histogram": hist1, "avg1d_stats": st1,
        "implementation_probes": {"F11_repaired": guard, "F21_repaired": dedup},
        "oracle_failures_by_signature": by_sig,
        "reading_note": "undersampled-first is checked in the weaker reading: while some evaluated abscissa has fewer "
                        "than min_samples samples every request goes to an evaluated abscissa of _undersampled_points "
                        "(asks_to_short_abscissa / asks_while_short says how often the chosen one itself was short)",
        "exhaustive_small_scope_cases": {"avg_all_op_sequences_len4": exhaustive_avg,
                                         "avg1d_all_orders_of_5_samples_x_batch_splits": exhaustive_1d},
        "exhaustive": False})
    return chk.finish(
        rule="AverageLearner: seeded op sequences on the real class (ask 0..5 with/without commit, tells of pending / "
             "unsolicited / already-known / gap seeds from nine value families incl. constants, 1e+-120 magnitudes, "
             "cancelling offsets, inf/nan, tell_pending, discards; atol/rtol/min_npoints varied); non-trivial = a seed told "
             "twice and npoints reached min_npoints. AverageLearner1D: seeded sequences of ask / tell of returned points / "
             "tells at repeated abscissae with next, gap and known seeds / tell_many_at_point / tell_many incl. out-of-bounds; "
             "non-trivial = a batch, a repeated or out-of-order seed and >= 2 abscissae; distinct by config + op list",
        assumptions=["hand-written models Model/Avg.v, Model/Avg1D.v tied to the code by the sampled correspondence only",
                     "IEEE doubles: x**2 is libm pow (recorded exceptions to x*x); np.mean and scipy t.ppf are recorded oracles; "
                     "error[x] compared to 1e-12 relative (Python 3.12 compensated sum(), pow(.,0.5))",
                     "algebraic theorems are over Coq's real numbers (standard Reals axioms), structural ones over any number structure",
                     "seeds are naturals; AverageLearner values are Python floats with |v| < 1e154 (v**2 raises OverflowError beyond)"])


def replay(doc) -> int:
    bad = 0
    guard, dedup = probe_guard(), probe_dedup()
    for f in doc.get("failing_inputs", []) + [b for b in doc.get("no_longer_checks", []) if isinstance(b.get("detail"), dict)]:
        r = f.get("replay") or f.get("detail")
        if r.get("kind") == "avg":
            steps, orc, _ = avg_drive(r["cfg"], None, 0, concrete=r["ops"])
            msgs = orc.errors[:3] + ([("F11", orc.f11)] if orc.f11 else [])
        else:
            r["cfg"]["bounds"] = tuple(r["cfg"]["bounds"])
            steps, orc, info, l = d1_drive(r["cfg"], None, 0, dedup, concrete=r["ops"])
            msgs = orc.errors[:3] + ([("F21", orc.f21)] if orc.f21 else [])
            if not msgs and not info["f21_trigger"]:
                m, _ = twin_compare(r["cfg"], steps)
                msgs = [("batch", m)] if m else []
        print("replayed", r.get("kind"), len(steps), "ops ->", msgs or "oracle silent")
        bad += bool(msgs)
    return 1 if bad else 0
