"""C13 -- saving, pickling or copying a learner and restoring it loses nothing.

proof          : coq/theories/Props/C13.v (Proofs/RoundtripProofs.v, Proofs/OrderL1D.v): _get_data/_set_data as pure
                 functions on the models -- SequenceLearner: the restored STATE equals the original after every legal
                 history with nothing pending; averaging spec: the four attributes survive; Learner1D: the data
                 dictionary is rebuilt exactly by either path of tell_many after EVERY history (`_partial`: loss tables
                 not covered); DataSaver / BalancingLearner: inherit the round trip of their children, extra_data
                 verbatim, no child skipped.
search         : from-scratch oracle on the real classes, every learner type that runs on this platform and the two
                 wrappers around each, constructor parameters drawn from default AND non-default values (gen_cfg):
                 ask-driven histories with out-of-order delivery that end with nothing pending, stopped EARLY (a
                 handful of results: below min_npoints / min_samples, before both end points / all corners / the
                 integrator's first interval are done) as well as late, scalar and vector outputs; save/load (gzip
                 and raw) into learner.new(), pickle, cloudpickle, new().copy_from(): data equal exactly, loss() and
                 the next ten suggestions as far as the property demands them (see `demands`); then the run GOES ON
                 (continue_run): original and every restored copy are taken through the same further history (batch
                 asks, results held back / delivered out of order / partly discarded; IntegratorLearner: batches of
                 25..80 with abscissae shared by several intervals arriving last) and must keep agreeing on data,
                 loss() and every answer to ask (see `cont_demands`).
(no step-by-step correspondence: the byte layer is exercised directly on the real classes.)
"""
from __future__ import annotations

import functools
import math
import operator
import pickle
import random

import cloudpickle
import numpy as np

from ..core import Check

THEOREMS = {n: "Props.C13" for n in [
    "C13_seq_roundtrip", "C13_avg_roundtrip", "C13_avg_roundtrip_fields", "C13_l1d_data_roundtrip",
    "C13_l1d_data_roundtrip_Qc", "C13_datasaver_roundtrip", "C13_balancing_roundtrip",
    "C13_l1d_restored_losses", "C13_l1d_restored_example"]}

SIG_F7 = "C13:F7 Learner2D unusable on numpy>=2.x/scipy>=1.15"
SIG_XSCALE = ("C13:Learner1D:file/copy_from restore of a learner lacking an evaluated end point takes the data extent as "
              "x-scale (batch path of tell_many): losses and later suggestions differ from the original")
SIG_CYCLE_TENTATIVE = ("C13:BalancingLearner:pickle strategy='cycle' after ask(tell_pending=False) resumes at the wrong child "
                       "(_cycle_position not rolled back by the tentative ask)")
SIG_CYCLE = "C13:BalancingLearner:pickle strategy='cycle' restarts at the first child (position in the cycle is not part of the pickled state)"
CONT_STATS = {"cont_runs": 0, "cont_tells": 0, "cont_asks": 0, "cont_int_batch_asks": 0, "cont_int_rounds_shared_points_last": 0,
              "cont_not_started_answers_equal_only_up_to_rounding": 0, "cont_stopped_answers_equal_only_up_to_rounding": 0,
              "cont_rounds_results_held_back": 0, "early_histories": 0}
MECHS = ["save_gz", "save_raw", "pickle", "cloudpickle", "copy_from"]
LOSS_RTOL = 1e-12
ASK_RTOL = 1e-10


# ------------------------------------------------------------------ learnt functions (module level: picklable)
def g1_smooth(x, a=1.0):
    return math.sin(3 * a * x) + 0.3 * x


def g1_peak(x, a=1.0):
    return x + a * 0.01 ** 2 / (0.01 ** 2 + (x - 0.1) ** 2)


def g1_step(x, a=1.0):
    return 0.0 if x < 0.3 * a else 1.0


def g1_vec(x, a=1.0):
    return np.array([math.sin(5 * x) * a, 20 * x * x, 1.0])


def gn_smooth(p, a=1.0):
    return float(sum((i + 1) * a * c * c for i, c in enumerate(p)) + math.sin(3 * p[0]))


def gn_ring(p, a=1.0):
    r = math.sqrt(sum(c * c for c in p))
    return float(math.exp(-((r - 0.6 * a) ** 2) / 0.02))


def gn_vec(p, a=1.0):
    return np.array([gn_smooth(p, a), p[0] - p[-1]])


def g_avg(seed, a=1.0):
    return a + random.Random(seed).gauss(0, 1)


def g_avg1d(sx, a=1.0):
    seed, x = sx
    return a * x ** 2 + random.Random(int(seed) * 7919 + hash(round(x, 12)) % 10007).gauss(0, 0.3)


def g_seq(e, a=1.0):
    return a * e * 2.5 if not isinstance(e, (list, tuple)) else a * e[0]


def g_int_sqrt(x, a=1.0):
    return a * math.sqrt(abs(x))


def g_int_peak(x, a=1.0):
    return a / (1e-3 + (x - 0.3) ** 2)


def g_int_kink(x, a=1.0):
    return abs(x - 0.3 * a) + math.sin(20 * x)


def g1_ramp_peak(x, a=1.0, pos=0.3, w=0.02):
    """ramp over (-1, 1) (y-range 2 once both bounds are known) with a narrow peak of height a < 2 found late:
    the y-range then grows by less than the recompute factor 2, so older interval losses stay stale"""
    return float(x + a * w * w / (w * w + (x - pos) ** 2))


def g1_ramp_peak_vec(x, a=1.0, pos=0.3, w=0.02):
    y = g1_ramp_peak(x, a, pos, w)
    return np.array([y, 0.5 * y])


def l1d_loss_nn2(xs, ys):
    """A Learner1D loss that looks two intervals to either side (nth_neighbors = 2): interval length times
    (0.1 + total variation of y over the up to five intervals around it).  xs / ys hold None beyond the data."""
    tv, prev = 0.0, None
    for x, y in zip(xs, ys):
        if x is None:
            prev = None
            continue
        if prev is not None:
            tv += float(np.sum(np.abs(np.asarray(y, dtype=float) - np.asarray(prev, dtype=float))))
        prev = y
    return float((xs[3] - xs[2]) * (0.1 + tv))


l1d_loss_nn2.nth_neighbors = 2


def pick_val(result):
    """a DataSaver arg_picker that is not an itemgetter"""
    return result["val"]


G1 = {"smooth": g1_smooth, "peak": g1_peak, "step": g1_step, "vec": g1_vec}
GN = {"smooth": gn_smooth, "ring": gn_ring, "vec": gn_vec}
GINT = {"sqrt": g_int_sqrt, "peak": g_int_peak, "kink": g_int_kink}


class WithExtra:
    """function for DataSaver: returns {"y": value, "t": tag}"""

    def __init__(self, f, key="y"):
        self.f = f
        self.key = key

    def __call__(self, x):
        y = self.f(x)
        return {self.key: y, "t": ("tag", repr(x)[:40]), "n": len(repr(x))}


# ------------------------------------------------------------------ construction
BASE_KINDS = ["l1d", "lnd2", "lnd3", "avg", "avg1d", "seq", "int"]


L1D_LOSSES = ["default", "default", "uniform", "triangle", "curvature", "curvature2", "resolution", "resolution2", "nn2"]
LND_LOSSES = ["default", "default", "uniform", "std", "triangle", "curvature", "curvature2"]


def gen_cfg(rng, kind, quick):
    """Constructor parameters are drawn from default AND non-default values for every learner type; `early`
    histories stop after a handful of results (below min_npoints / min_samples, before both end points / all
    corners / the first interval of the integrator are done)."""
    a = rng.choice([1.0, 0.5, 2.0, -1.5])
    early = rng.random() < (0.5 if kind == "int" else 0.35)
    if kind == "l1d":
        return {"kind": kind, "f": rng.choice(list(G1)), "a": a, "bounds": rng.choice([(-1.0, 1.0), (0.0, 1.0), (-3.0, 7.5)]),
                "loss": rng.choice(L1D_LOSSES), "early": early,
                "factor": rng.choice([1, 1, 2]), "n": rng.randint(1, 3) if early else rng.randint(3, 30 if quick else 60)}
    if kind in ("lnd2", "lnd3", "l2d"):
        hole = {"corner_hole": rng.random() < 0.4} if kind == "l2d" else {}
        loss = rng.choice(["default", "uniform"]) if kind == "l2d" else rng.choice(LND_LOSSES)
        n = rng.randint(6, 22 if quick else 45) if kind != "lnd3" else rng.randint(10, 20 if quick else 35)
        if early:
            n = rng.randint(1, 8 if kind == "lnd3" else 4)
        return {**hole, "kind": kind, "f": rng.choice(list(GN)), "a": a, "loss": loss, "early": early, "n": n}
    if kind == "avg":
        atol, rtol = rng.choice([(0.01, 0.01), (0.1, 1.0), (None, 0.05), (0.5, None), (1e-3, 0.3)])
        k = rng.choice([2, 2, 3, 5, 10, 25])
        return {"kind": kind, "a": a, "atol": atol, "rtol": rtol, "min_npoints": k, "early": early,
                "n": rng.randint(1, k) if early else rng.randint(2, 30)}
    if kind == "avg1d":
        ms = rng.choice([1, 2, 2, 3, 5, 50])
        return {"kind": kind, "a": a, "bounds": rng.choice([(-1.0, 1.0), (-1.0, 1.0), (0.0, 2.5)]), "early": early,
                "n": rng.randint(1, 12) if early else rng.randint(10, 150 if quick else 600),
                # small min_samples: locations with exactly one, two, three samples exist when the snapshot is taken
                "min_samples": ms, "delta": rng.choice([0.2, 0.5, 1.0]), "alpha": rng.choice([0.005, 0.05, 0.3]),
                "max_samples": rng.choice([None, None, ms + 3, 4 * ms + 20]), "neighbor_sampling": rng.choice([0.3, 0.1, 1.0]),
                "min_error": rng.choice([0, 0, 0.05]), "loss": rng.choice(["default", "default", "uniform", "triangle"])}
    if kind == "seq":
        return {"kind": kind, "a": a, "elems": rng.choice(["int", "list", "float", "tuple"]), "ntotal": rng.choice([3, 5, 10, 25]),
                "early": early, "n": rng.randint(1, 2) if early else rng.randint(1, 25)}
    if kind == "int":
        return {"kind": kind, "f": rng.choice(list(GINT)), "a": a, "tol": rng.choice([1e-3, 1e-6, 1e-9, 1e-12]),
                "bounds": rng.choice([(0.0, 1.0), (0.0, 1.0), (-1.0, 2.0), (0.25, 0.75)]), "early": early,
                "n": rng.randint(1, 8) if early else rng.randint(20, 90 if quick else 250)}
    raise ValueError(kind)


def make_base(cfg, a=None, extra=False):
    import adaptive
    from adaptive.learner import learner1D as m1, learnerND as mn
    kind = cfg["kind"]
    a = cfg["a"] if a is None else a
    wrap = (lambda f: WithExtra(f, "val" if cfg.get("picker") in ("val", "fn") else "y")) if extra else (lambda f: f)

    def l1d_loss(nm):
        return {"default": None, "uniform": m1.uniform_loss, "triangle": m1.triangle_loss,
                "curvature": m1.curvature_loss_function(),
                "curvature2": m1.curvature_loss_function(area_factor=2.0, euclid_factor=0.1, horizontal_factor=0.3),
                "resolution": m1.resolution_loss_function(min_length=0.01, max_length=1.0),
                "resolution2": m1.resolution_loss_function(min_length=0.05, max_length=0.3),
                "nn2": l1d_loss_nn2}[nm]

    if kind == "l1d":
        l = adaptive.Learner1D(wrap(functools.partial(G1[cfg["f"]], a=a)), tuple(cfg["bounds"]), loss_per_interval=l1d_loss(cfg["loss"]))
        l._recompute_losses_factor = cfg["factor"]
        return l
    if kind in ("lnd2", "lnd3"):
        d = 2 if kind == "lnd2" else 3
        loss = {"default": None, "uniform": mn.uniform_loss, "std": mn.std_loss, "triangle": mn.triangle_loss,
                "curvature": mn.curvature_loss_function(), "curvature2": mn.curvature_loss_function(exploration=0.3)}[cfg["loss"]]
        return adaptive.LearnerND(wrap(functools.partial(GN[cfg["f"]], a=a)), ((-1.0, 1.0),) * d, loss_per_simplex=loss)
    if kind == "l2d":
        return adaptive.Learner2D(wrap(functools.partial(GN[cfg["f"]], a=a)), ((-1.0, 1.0), (-1.0, 1.0)))
    if kind == "avg":
        return adaptive.AverageLearner(wrap(functools.partial(g_avg, a=a)), atol=cfg["atol"], rtol=cfg["rtol"],
                                       min_npoints=cfg["min_npoints"])
    if kind == "avg1d":
        import sys
        l = adaptive.AverageLearner1D(wrap(functools.partial(g_avg1d, a=a)), tuple(cfg["bounds"]),
                                      loss_per_interval=l1d_loss(cfg.get("loss", "default")),
                                      delta=cfg.get("delta", 0.2), alpha=cfg.get("alpha", 0.005),
                                      neighbor_sampling=cfg.get("neighbor_sampling", 0.3),
                                      min_samples=cfg.get("min_samples", 50), max_samples=cfg.get("max_samples") or sys.maxsize,
                                      min_error=cfg.get("min_error", 0))
        l._recompute_losses_factor = 1
        return l
    if kind == "seq":
        n = cfg["ntotal"]
        seq = list(range(100, 100 + n)) if cfg["elems"] == "int" or extra else \
            [0.5 * i - 1.0 for i in range(n)] if cfg["elems"] == "float" else \
            tuple((i, 2 * i) for i in range(n)) if cfg["elems"] == "tuple" else [[i, 2 * i] for i in range(n)]
        return adaptive.SequenceLearner(wrap(functools.partial(g_seq, a=a)), seq)
    if kind == "int":
        return adaptive.IntegratorLearner(wrap(functools.partial(GINT[cfg["f"]], a=a)), tuple(cfg.get("bounds", (0.0, 1.0))), tol=cfg["tol"])
    raise ValueError(kind)


def make(cfg):
    """cfg["wrap"] in (None, "balancing", "datasaver")."""
    import adaptive
    w = cfg.get("wrap")
    if w is None:
        return make_base(cfg)
    if w == "datasaver":
        picker = {"y": operator.itemgetter("y"), "val": operator.itemgetter("val"), "fn": pick_val}[cfg.get("picker", "y")]
        return adaptive.DataSaver(make_base(cfg, extra=True), arg_picker=picker)
    if w == "balancing":
        kids = [make_base(cfg, a=cfg["a"] * s) for s in cfg["scales"]]
        cdims = [{"scale": s} for s in cfg["scales"]] if cfg.get("cdims") else None
        return adaptive.BalancingLearner(kids, cdims=cdims, strategy=cfg["strategy"])
    raise ValueError(w)


def base_of(l, cfg):
    return l.learner if cfg.get("wrap") == "datasaver" else l


def set_factor(l, cfg):
    """`new()` does not carry _recompute_losses_factor; the property speaks of learners with exact
    recomputation enabled, so enable it on the copy as the suite does."""
    kind = cfg["kind"]
    if kind not in ("l1d", "avg1d"):
        return
    fac = 1 if kind == "avg1d" else cfg["factor"]
    kids = l.learners if cfg.get("wrap") == "balancing" else [base_of(l, cfg)]
    for k in kids:
        k._recompute_losses_factor = fac


# ------------------------------------------------------------------ histories
def progress(l):
    try:
        return l.nsamples            # AverageLearner1D resamples: count samples, not locations
    except AttributeError:
        return l.npoints


def ask_any(l, cfg, rng, k):
    """One request for points.  BalancingLearner cannot ask an IntegratorLearner child
    (IntegratorLearner.tell_pending() takes no point -> TypeError in BalancingLearner.tell_pending):
    there the children are asked directly and the results are told through the wrapper."""
    if cfg.get("wrap") == "balancing" and cfg["kind"] == "int":
        i = rng.randrange(len(l.learners))
        pts, imps = l.learners[i].ask(k)
        return [(i, p) for p in pts], imps
    return l.ask(k)


def ask_tentative(l, cfg, rng, k):
    """A non-committing ask (the answer is discarded)."""
    try:
        if cfg.get("wrap") == "balancing" and cfg["kind"] == "int":
            l.learners[rng.randrange(len(l.learners))].ask(k, tell_pending=False)
        else:
            l.ask(k, tell_pending=False)
    except RuntimeError as e:
        if "No way to improve" not in str(e):
            raise


def unsolicited_point(l, cfg, rng):
    """An in-domain point the learner never handed out (None where the learner type accepts none:
    IntegratorLearner.tell raises for an abscissa it did not choose itself)."""
    kind = cfg["kind"]
    if kind == "int":
        return None
    if cfg.get("wrap") == "balancing":
        i = rng.randrange(len(l.learners))
        p = _unsolicited_base(l.learners[i], kind, rng)
        return None if p is None else (i, p)
    return _unsolicited_base(base_of(l, cfg), kind, rng)


def _unsolicited_base(k, kind, rng):
    if kind == "l1d":
        lo, hi = k.bounds
        x = lo + (hi - lo) * (rng.randint(1, 63) / 64.0 if rng.random() < 0.5 else rng.uniform(0.01, 0.99))
        return None if x in k.data or x in k.pending_points else x
    if kind in ("lnd2", "lnd3", "l2d"):
        d = 3 if kind == "lnd3" else 2
        p = tuple(round(rng.uniform(-0.9, 0.9), 3) for _ in range(d))
        return None if p in k.data or p in k.pending_points else p
    if kind == "avg":
        sd = k.n_requested + rng.randint(1, 4)          # leaves a gap in the seeds
        return None if sd in k.data or sd in k.pending_points else sd
    if kind == "avg1d":
        lo, hi = k.bounds
        x = round(lo + (hi - lo) * rng.uniform(0.025, 0.975), 3)
        return None if x in k.data else (0, x)
    if kind == "seq":
        free = [i for i in range(len(k.sequence)) if i not in k.data and i not in k.pending_points]
        if not free:
            return None
        i = rng.choice(free)                             # not the next index in line: leaves a hole
        return (i, k.sequence[i])
    return None


def drive(l, cfg, rng, info=None):
    """A history that ends with nothing pending: committing asks of 1..5 points with partial, out-of-order
    delivery; non-committing asks ask(n, tell_pending=False) in between; remove_unfinished() after a partial
    delivery (asked points stay unevaluated: holes in a SequenceLearner's indices, missing end points / corners);
    unsolicited tells of in-domain points that were never asked; a closing phase: one more committing BATCH ask
    (n > 1), delivered completely or partly + remove_unfinished(), then possibly one or two non-committing asks
    as the very last operations before the snapshot.  Returns the list of (point, value) in delivery order."""
    info = info if info is not None else {}
    info.update({"tentative": 0, "trailing_tentative": 0, "last_commit_n": 0, "discards": 0, "unsolicited": 0})
    f = l.function
    wait, hist = [], []
    target = cfg["n"]
    stuck = 0
    can_discard = cfg["kind"] != "int"      # IntegratorLearner.remove_unfinished is a no-op: points would stay in flight

    def deliver(k):
        for _ in range(k):
            p = wait.pop()
            y = f(p)
            l.tell(p, y)
            hist.append((p, y))

    def discard():
        l.remove_unfinished()
        info["discards"] += bool(wait)
        wait.clear()

    def finish_round():
        """all outstanding results arrive, or only some of them and the rest is discarded"""
        if can_discard and wait and rng.random() < 0.3:
            rng.shuffle(wait)
            deliver(rng.randint(0, len(wait) - 1))
            discard()
        else:
            deliver(len(wait))

    def commit(k):
        try:
            pts, _ = ask_any(l, cfg, rng, k)
        except RuntimeError as e:      # IntegratorLearner: "No way to improve the integral estimate"
            if "No way to improve" in str(e):
                return None
            raise
        if pts:
            info["last_commit_n"] = len(pts)
        return list(pts)

    if cfg.get("corner_hole"):
        # Learner2D: the snapshot is taken while a corner of the domain is unevaluated and sits in the stack
        # BEHIND interior candidates (remove_unfinished puts a missing corner back at the end of the stack)
        target = 0
        pts = commit(rng.choice([5, 6])) or []
        base = (lambda q: q[1]) if cfg.get("wrap") == "balancing" else (lambda q: q)
        corners = [q for q in pts if all(abs(abs(c) - 1.0) < 1e-12 for c in base(q))]
        held = rng.choice(corners) if corners else None
        wait += [q for q in pts if q is not held]
        rng.shuffle(wait)
        deliver(len(wait))
        wait += commit(rng.choice([1, 2])) or []
        deliver(len(wait))
        if held is not None:
            wait.append(held)
            discard()
        for _ in range(rng.choice([0, 0, 1, 2])):
            q = unsolicited_point(l, cfg, rng)
            if q is not None:
                y = f(q)
                l.tell(q, y)
                hist.append((q, y))
                info["unsolicited"] += 1
    rounds = 0
    while progress(l) < target and stuck < 3 and rounds < 40 * max(1, target):
        rounds += 1
        if rng.random() < 0.2 and progress(l) > 0:
            ask_tentative(l, cfg, rng, rng.choice([1, 2, 3]))
            info["tentative"] += 1
        if rng.random() < 0.12:
            p = unsolicited_point(l, cfg, rng)
            if p is not None:
                y = f(p)
                l.tell(p, y)
                hist.append((p, y))
                info["unsolicited"] += 1
        pts = commit(rng.choice([1, 1, 2, 3, 5] + ([8] if cfg["kind"] != "int" else [] if cfg.get("early") else [12, 40])))
        if pts is None:
            break
        if not pts:
            stuck += 1
        wait += pts
        if not wait:
            continue
        rng.shuffle(wait)
        deliver(rng.randint(0 if len(wait) > 1 else 1, len(wait)))
        if can_discard and wait and rng.random() < 0.12:
            discard()
    finish_round()
    # closing phase
    if not cfg.get("corner_hole") and rng.random() < (0.25 if cfg.get("early") else 0.7):
        pts = commit(rng.choice([2, 3, 4, 5]))
        if pts:
            wait += pts
            rng.shuffle(wait)
            finish_round()
    if cfg["kind"] == "avg1d" and rng.random() < 0.5:
        # two unsolicited samples at a fresh location: the snapshot is taken while a location has exactly two
        # samples (with the default min_samples = 50 an ask-driven run is almost never in that state)
        lo, hi = cfg["bounds"]
        x = round(lo + (hi - lo) * rng.uniform(0.025, 0.975), 3)
        child = rng.randrange(len(l.learners)) if cfg.get("wrap") == "balancing" else None
        for sd in (0, 1):
            p = (sd, x) if child is None else (child, (sd, x))
            y = f(p)
            l.tell(p, y)
            hist.append((p, y))
    if rng.random() < 0.6 and progress(l) > 0:
        for _ in range(rng.choice([1, 1, 2])):
            ask_tentative(l, cfg, rng, rng.choice([1, 2, 3]))
            info["tentative"] += 1
            info["trailing_tentative"] += 1
    return hist


def outstanding(l, cfg):
    """Points handed out and not yet delivered.  (IntegratorLearner.pending_points also holds the points
    still waiting in its own stack, which were never handed out.)"""
    kids = l.learners if cfg.get("wrap") == "balancing" else [base_of(l, cfg)]
    n = 0
    for k in kids:
        pend = set(k.pending_points)
        if cfg["kind"] == "int":
            pend -= set(k._stack)
        n += len(pend)
    return n


# ------------------------------------------------------------------ observation
def same_val(a, b):
    if isinstance(a, dict) and isinstance(b, dict):
        return set(a.keys()) == set(b.keys()) and all(same_val(a[k], b[k]) for k in a)
    if isinstance(a, (list, tuple)) and isinstance(b, (list, tuple)):
        return len(a) == len(b) and all(same_val(x, y) for x, y in zip(a, b))
    try:
        return bool(np.array_equal(np.asarray(a), np.asarray(b), equal_nan=True)) and np.shape(a) == np.shape(b)
    except TypeError:
        return bool(np.array_equal(np.asarray(a), np.asarray(b))) and np.shape(a) == np.shape(b)


def close_val(a, b, rtol):
    a, b = np.asarray(a, dtype=float), np.asarray(b, dtype=float)
    if a.shape != b.shape:
        return False
    with np.errstate(invalid="ignore"):
        ok = (a == b) | (np.isnan(a) & np.isnan(b)) | (np.abs(a - b) <= rtol * np.maximum(np.abs(a), np.abs(b)))
    return bool(np.all(ok))


def data_of(l, cfg):
    """The learner's data in a comparable form (exact comparison with same_val)."""
    kind, w = cfg["kind"], cfg.get("wrap")
    if w == "balancing":
        return [data_of(c, dict(cfg, wrap=None)) for c in l.learners]
    if w == "datasaver":
        return {"learner": data_of(l.learner, dict(cfg, wrap=None)), "extra_data": dict(l.extra_data)}
    if kind == "avg1d":
        return {"samples": {x: dict(s) for x, s in l._data_samples.items()}}
    if kind == "seq":
        return {"data": list(l.data.items())}           # a SortedDict: order matters
    if kind == "int":
        return {"data": dict(l.data), "nivals": len(l.ivals), "npending": len(l.pending_points)}
    if kind == "avg":
        return {"data": dict(l.data), "npoints": l.npoints}
    return {"data": dict(l.data)}


def means_of(l, cfg):
    """Derived values compared up to rounding: AverageLearner1D.data (running means vs batch means) and the
    IntegratorLearner's igral / err (sums over a SET of intervals: the summation order follows object ids)."""
    w = cfg.get("wrap")
    if cfg["kind"] == "int":
        kids = l.learners if w == "balancing" else [base_of(l, cfg)]
        return [{"igral": float(k.igral), "err": float(k.err)} for k in kids]
    if cfg["kind"] != "avg1d":
        return None
    if w == "balancing":
        return [dict(c.data) for c in l.learners]
    return dict(base_of(l, cfg).data)


def means_close(a, b):
    if a is None:
        return True
    if isinstance(a, list):
        return len(a) == len(b) and all(means_close(x, y) for x, y in zip(a, b))
    return set(a) == set(b) and all(close_val(a[k], b[k], 1e-12) for k in a)


def norm_points(pts):
    out = []
    for p in pts:
        out.append(p)
    return out


def points_equal(a, b, rtol):
    """ask answers: exact when rtol == 0, else coordinates to rtol; structure must agree."""
    if len(a) != len(b):
        return False
    for p, q in zip(a, b):
        if not _pt_eq(p, q, rtol):
            return False
    return True


def _pt_eq(p, q, rtol):
    if isinstance(p, (tuple, list)) and isinstance(q, (tuple, list)):
        return len(p) == len(q) and all(_pt_eq(x, y, rtol) for x, y in zip(p, q))
    if isinstance(p, (int, np.integer)) and isinstance(q, (int, np.integer)):
        return int(p) == int(q)
    try:
        return same_val(p, q) if rtol == 0 else close_val(p, q, rtol)
    except (TypeError, ValueError):
        return p == q


def l2d_trusted_prefix(cfg, stacks, pts):
    """How many leading suggestions come out of the stacks that were part of the pickled state."""
    left = list(stacks)
    n = 0
    for p in pts:
        i = p[0] if cfg.get("wrap") == "balancing" else 0
        if left[i] <= 0:
            break
        left[i] -= 1
        n += 1
    return n


def demands(cfg, mech):
    """What the property demands of this (learner, mechanism): (loss: None|'exact'|'close', ask: likewise)."""
    kind = cfg["kind"]
    if mech in ("pickle", "cloudpickle"):
        # IntegratorLearner.loss() sums over a set of interval objects (iteration order = object ids, which
        # differ between any two processes/copies): equal up to the rounding of that sum
        return ("close" if kind == "int" else "exact"), (None if kind == "avg1d" else "exact")
    # file / copy_from: only for learners whose state is a function of their data
    if kind == "l1d" and cfg["factor"] != 1:
        return None, None
    if kind == "l2d":
        return None, None               # not in the property's list (its stack of cached suggestions is not data)
    if cfg.get("wrap") == "balancing" and cfg.get("strategy") == "cycle":
        return "close", None            # the position in the cycle is not a function of the data
    return "close", (None if kind == "avg1d" else "close")


def restore(l, cfg, mech, workdir, tag):
    """Produce a restored copy through one mechanism."""
    if mech == "pickle":
        try:
            return pickle.loads(pickle.dumps(l))
        except (AttributeError, pickle.PicklingError) as e:
            # Learner1D.__getstate__ hands loss_per_interval to the pickler as it is; the shipped
            # curvature_loss_function() / resolution_loss_function() return local closures, which the
            # standard pickler cannot serialise by design (cloudpickle can): no restored learner exists,
            # the property says nothing.  Counted, see the final report of the builder.
            if "local object" in str(e) and cfg.get("loss") in ("curvature", "curvature2", "resolution", "resolution2"):
                return None
            raise
    if mech == "cloudpickle":
        return cloudpickle.loads(cloudpickle.dumps(l))
    c = l.new()
    set_factor(c, cfg)
    if mech == "copy_from":
        c.copy_from(l)
        return c
    compress = mech == "save_gz"
    if cfg.get("wrap") == "balancing":
        names = [str(workdir / f"{tag}_{mech}_{i}.pickle") for i in range(len(l.learners))]
        l.save(names, compress=compress)
        c.load(names, compress=compress)
    else:
        name = str(workdir / f"{tag}_{mech}.pickle")
        l.save(name, compress=compress)
        c.load(name, compress=compress)
    return c


def name_of(cfg):
    base = {"l1d": "Learner1D", "lnd2": "LearnerND(2D)", "lnd3": "LearnerND(3D)", "l2d": "Learner2D",
            "avg": "AverageLearner", "avg1d": "AverageLearner1D", "seq": "SequenceLearner",
            "int": "IntegratorLearner"}[cfg["kind"]]
    w = cfg.get("wrap")
    return base if not w else {"balancing": "BalancingLearner", "datasaver": "DataSaver"}[w] + "[" + base + "]"


def check_case(chk, cfg, seed, stats, workdir, tag):
    """One history, all mechanisms.  Returns True if the history was usable."""
    l, l2 = make(cfg), make(cfg)
    try:
        info = {}
        hist = drive(l, cfg, random.Random(seed), info)
        # copy_from may hand the original's containers to the copy (IntegratorLearner, AverageLearner,
        # Learner2D return them from _get_data as they are); an identical twin of the original, built by
        # replaying the same history, keeps "what the copy suggests" apart from "what happens to two
        # learners that share containers", about which the property says nothing
        drive(l2, cfg, random.Random(seed))
    except Exception as e:        # internal errors of ask/tell under out-of-order delivery belong to C04/C07 (F1, F5, F12)
        key = f"{name_of(cfg)}:{type(e).__name__}"
        stats["skipped_other_finding"][key] = stats["skipped_other_finding"].get(key, 0) + 1
        return False
    if l.npoints == 0:
        return False
    if outstanding(l, cfg):
        stats["skipped_pending"] += 1
        return False
    name = name_of(cfg)
    replay = {"cfg": cfg, "seed": seed}
    missing_end = cfg["kind"] == "l1d" and any(
        b not in k.data for k in (l.learners if cfg.get("wrap") == "balancing" else [base_of(l, cfg)]) for b in k.bounds)
    stats["l1d_histories_lacking_an_end_point"] = stats.get("l1d_histories_lacking_an_end_point", 0) + missing_end
    if cfg["kind"] == "avg1d":
        kk = l.learners if cfg.get("wrap") == "balancing" else [base_of(l, cfg)]
        stats["avg1d_histories_with_a_two_sample_location"] = stats.get("avg1d_histories_with_a_two_sample_location", 0) + \
            any(len(sm) == 2 for k in kk for sm in k._data_samples.values())
    kids0 = l.learners if cfg.get("wrap") == "balancing" else [base_of(l, cfg)]
    young = {"avg": lambda k: k.npoints < k.min_npoints,
             "avg1d": lambda k: any(len(sm) < k.min_samples for sm in k._data_samples.values()),
             "l1d": lambda k: any(b not in k.data for b in k.bounds),
             "lnd2": lambda k: any(b not in k.data for b in k._bounds_points),
             "lnd3": lambda k: any(b not in k.data for b in k._bounds_points),
             "int": lambda k: k.first_ival.depth_complete is None,
             "seq": lambda k: k.npoints < 3}.get(cfg["kind"])
    stats["early_histories"] += bool(cfg.get("early"))
    if young is not None and any(young(k) for k in kids0):
        key = {"avg": "AverageLearner below min_npoints", "avg1d": "AverageLearner1D with a location below min_samples",
               "l1d": "Learner1D lacking an end point", "lnd2": "LearnerND lacking a corner", "lnd3": "LearnerND lacking a corner",
               "int": "IntegratorLearner before its first interval is complete", "seq": "SequenceLearner with fewer than 3 results"}[cfg["kind"]]
        stats["snapshots_of_young_learners"][key] = stats["snapshots_of_young_learners"].get(key, 0) + 1
    stats["l2d_histories_with_corner_hole"] = stats.get("l2d_histories_with_corner_hole", 0) + bool(cfg.get("corner_hole"))
    stats["histories_with_discard"] = stats.get("histories_with_discard", 0) + (info["discards"] > 0)
    stats["histories_with_unsolicited_tell"] = stats.get("histories_with_unsolicited_tell", 0) + (info["unsolicited"] > 0)
    stats["tentative_asks"] = stats.get("tentative_asks", 0) + info["tentative"]
    stats["histories_ending_with_tentative_ask"] = stats.get("histories_ending_with_tentative_ask", 0) + (info["trailing_tentative"] > 0)
    stats["histories_last_commit_batch"] = stats.get("histories_last_commit_batch", 0) + (info["last_commit_n"] > 1)
    twin_ok = same_val(data_of(l, cfg), data_of(l2, cfg))
    stats["twin_not_identical"] += not twin_ok
    copies, origin = {}, {}
    asked, dropped = {}, set()          # for the continued run: the copy's answer to ask(10); mechanisms that hit a listed finding
    for mech in MECHS:
        src = l2 if (mech == "copy_from" and twin_ok) else l
        try:
            c = restore(src, cfg, mech, workdir, tag)
            if c is None:
                stats["pickle_closure_loss_not_picklable"] += 1
            else:
                copies[mech] = c
                origin[mech] = src
        except Exception as e:
            chk.fail(f"C13:{name}:{mech} raises", f"{name} {cfg}: {mech} round trip raised {type(e).__name__}: {str(e)[:200]}",
                     dict(replay, mech=mech))
            return True
    d0, m0 = data_of(l, cfg), means_of(l, cfg)
    loss0 = float(l.loss())
    # data first (asks below mutate the learners)
    for mech, c in copies.items():
        stats["roundtrips"] += 1
        d0, m0 = data_of(origin[mech], cfg), means_of(origin[mech], cfg)
        loss0 = float(origin[mech].loss())
        d1 = data_of(c, cfg)
        if not same_val(d0, d1):
            what = _first_diff(d0, d1)
            chk.fail(f"C13:{name}:{mech} data differs", f"{name} {cfg} after {len(hist)} results: {mech}: {what}", dict(replay, mech=mech))
            return True
        if not means_close(m0, means_of(c, cfg)):
            chk.fail(f"C13:{name}:{mech} data differs", f"{name} {cfg}: {mech}: mean values differ beyond rounding", dict(replay, mech=mech))
            return True
        if c.npoints != l.npoints:
            chk.fail(f"C13:{name}:{mech} data differs", f"{name} {cfg}: {mech}: npoints {c.npoints} vs {l.npoints}", dict(replay, mech=mech))
            return True
        want_loss, _ = demands(cfg, mech)
        if want_loss:
            loss1 = float(c.loss())
            ok = same_val(loss0, loss1) if want_loss == "exact" else close_val(loss0, loss1, LOSS_RTOL)
            stats["loss_compared"] += 1
            if not ok and missing_end and mech not in ("pickle", "cloudpickle"):
                chk.fail(SIG_XSCALE, f"{name} {cfg} after {len(hist)} results: {mech}: loss() {loss1!r} vs original {loss0!r}",
                         dict(replay, mech=mech))
                dropped.add(mech)
                continue
            if not ok:
                chk.fail(f"C13:{name}:{mech} loss differs", f"{name} {cfg} after {len(hist)} results: {mech}: loss() {loss1!r} vs original {loss0!r}",
                         dict(replay, mech=mech))
                return True
    # the next ten suggestions; the copy made by copy_from answers first (it may share containers with
    # its own original, the twin, which is not used any more)
    def ask10(x):
        try:
            if cfg.get("wrap") == "balancing" and cfg["kind"] == "int":
                return [k.ask(10) for k in x.learners]
            return x.ask(10)
        except RuntimeError as e:
            if "No way to improve" not in str(e):
                raise
            return None
        except Exception as e:       # an internal error of ask (other properties' findings): the copy must behave alike
            stats["ask_raises"] += 1
            return ([("raised", type(e).__name__)], [0.0])

    l2d_stacks = None
    if cfg["kind"] == "l2d":
        kids2 = l.learners if cfg.get("wrap") == "balancing" else [base_of(l, cfg)]
        l2d_stacks = [len(k._stack) for k in kids2]
        # F6 (C10): a Learner2D whose cached combined interpolator is stale reports loss(real=False) != loss()
        # with nothing pending; BalancingLearner then ranks its children differently from a fresh copy
        if cfg.get("wrap") == "balancing" and any(not k.pending_points and not same_val(float(k.loss(real=False)), float(k.loss()))
                                                  for k in kids2):
            stats["l2d_skipped_stale_ip_combined_F6"] = stats.get("l2d_skipped_stale_ip_combined_F6", 0) + 1
            return True
    answers = {}
    if "copy_from" in copies and twin_ok:
        answers["copy_from"] = ask10(copies["copy_from"])
    a0 = ask10(l)
    for mech, c in copies.items():
        _, want_ask = demands(cfg, mech)
        if not want_ask:
            continue
        if mech == "copy_from" and not twin_ok:
            continue
        a1 = answers[mech] if mech in answers else ask10(c)
        asked[mech] = a1
        stats["asks_compared"] += 1
        if (a0 is None) != (a1 is None):
            ok = False
        elif a0 is None:
            ok = True
        else:
            rt = 0 if want_ask == "exact" else ASK_RTOL
            pairs = list(zip(a0, a1)) if isinstance(a0, list) else [(a0, a1)]
            if cfg["kind"] == "l2d" and not isinstance(a0, list):
                # Learner2D: only the suggestions served from the pickled stack are a function of the pickled
                # state.  Beyond it _fill_stack triangulates data + pending_points, a SET whose iteration order
                # differs between original and copy (the reason the property exempts AverageLearner1D), and
                # exactly tied triangles (uniform loss, symmetric data) are then served in a different order.
                n_ok = l2d_trusted_prefix(cfg, l2d_stacks, a0[0])
                stats["l2d_prefix_compared"] = stats.get("l2d_prefix_compared", 0) + n_ok
                a0p, a1p = (list(a0[0])[:n_ok], []), (list(a1[0])[:n_ok], [])
                pairs = [(a0p, a1p)]
            ok = all((x is None) == (y is None) and (x is None or (
                points_equal(list(x[0]), list(y[0]), rt) and
                # "suggestions" are the points; the promised improvements are only sanity-checked, and not at all
                # for Learner2D (they come out of an iterative gradient estimate and, with pending points, of an
                # interpolation over a set: observed to differ in the third digit for identical points)
                (close_val(x[1], y[1], 1e-6) if cfg["kind"] != "l2d" and _numeric(x[1]) and _numeric(y[1]) else True)))
                for x, y in pairs)
        if not ok and cfg.get("strategy") == "cycle" and cfg.get("wrap") == "balancing" and a0 and a1 \
                and not isinstance(a0, list) and [p[0] for p in a0[0]] != [p[0] for p in a1[0]]:
            kids_o, kids_c = [p[0] for p in a0[0]], [p[0] for p in a1[0]]
            if mech in ("pickle", "cloudpickle") and info["trailing_tentative"]:
                chk.fail(SIG_CYCLE_TENTATIVE,
                         f"{name} {cfg} after {len(hist)} results, the last {info['trailing_tentative']} operation(s) before "
                         f"the snapshot being ask(n, tell_pending=False): {mech}: the original continues with children "
                         f"{kids_o}, the restored copy with {kids_c}", dict(replay, mech=mech))
                dropped.add(mech)
                continue
            if kids_c == [i % len(l.learners) for i in range(len(kids_c))]:
                chk.fail(SIG_CYCLE, f"{name} {cfg} after {len(hist)} results: {mech}: the original continues with children "
                                    f"{kids_o}, the restored copy with {kids_c}", dict(replay, mech=mech))
                dropped.add(mech)
                continue
        if not ok and missing_end and mech not in ("pickle", "cloudpickle"):
            chk.fail(SIG_XSCALE, f"{name} {cfg} after {len(hist)} results: {mech}: ask(10) = {_short(a1)} vs original {_short(a0)}",
                     dict(replay, mech=mech))
            dropped.add(mech)
            continue
        if not ok:
            chk.fail(f"C13:{name}:{mech} next suggestions differ",
                     f"{name} {cfg} after {len(hist)} results: {mech}: ask(10) = {_short(a1)} vs original {_short(a0)}", dict(replay, mech=mech))
            return True
    # ---- the run goes on: the same further history for the original and every restored copy
    followers = {}
    for mech, c in copies.items():
        cd = cont_demands(cfg, mech)
        if cd is None or mech in dropped or (mech == "copy_from" and not twin_ok):
            continue
        if cd[1]:
            if mech not in asked or not _same_answer(cfg, a0, asked[mech]):
                stats["cont_not_started_answers_equal_only_up_to_rounding"] += mech in asked
                continue
        followers[mech] = (c,) + cd
        stats["cont_followers"][mech] = stats["cont_followers"].get(mech, 0) + 1
    if followers and not _raised(a0):
        continue_run(chk, cfg, seed, l, a0, followers, stats, replay, name, len(hist))
    return True


# ------------------------------------------------------------------ the run continued after the restore
# "A pickled copy reports the same loss and makes the same later suggestions as the original; a copy restored from a
# file or by copy_from does so too, up to rounding, for the learners whose state is a function of their data":
# original and copy are taken through the SAME further history (batch asks, results delivered out of order, partly
# discarded) and must keep agreeing on data, loss() and on every answer to ask.
CONT_INT_RTOL = 1e-9        # IntegratorLearner: err / igral are sums over a set of interval objects
CONT_AVG1D_RTOL = 1e-9      # AverageLearner1D: means are recomputed from the samples (batch vs running mean)


def cont_demands(cfg, mech):
    """(loss mode, ask mode) the continued run must preserve, None where the property does not demand lasting agreement.
    loss mode 'exact' | 'close' (LOSS_RTOL) | 'close9'; ask mode 'exact' | 'close' | None (copy is not asked)."""
    kind = cfg["kind"]
    if kind == "l2d":
        return None                 # beyond its stack a Learner2D chooses by the iteration order of a set
    if kind == "l1d" and cfg["factor"] != 1:
        # file / copy_from: the loss table is not a function of the data.  Pickles: the copy keeps the stored losses but
        # restarts the rescale hysteresis (_oldscale); agreement is demanded in the regime of `continued_case` below
        return None
    want_loss, want_ask = demands(cfg, mech)
    if kind == "avg1d":
        return "close9", None       # its suggestions are exempt: the copy is told what the original asked for
    if not want_loss or not want_ask:
        return None
    if kind == "int":
        return "close9", want_ask
    return want_loss, want_ask


def _raised(a):
    return isinstance(a, tuple) and len(a) == 2 and list(a[0])[:1] and isinstance(list(a[0])[0], tuple) and list(a[0])[0][:1] == ("raised",)


def _answer_points(cfg, a):
    """ask answer -> list of points as the learner's tell takes them"""
    if a is None:
        return []
    if isinstance(a, list):         # BalancingLearner over IntegratorLearners: one answer per child
        return [(i, p) for i, x in enumerate(a) if x is not None for p in x[0]]
    return list(a[0])


def _same_answer(cfg, a0, a1):
    if (a0 is None) != (a1 is None):
        return False
    return points_equal(_answer_points(cfg, a0), _answer_points(cfg, a1), 0)


def _loss_ok(mode, lo, lc):
    if mode == "exact":
        return same_val(lo, lc)
    return close_val(lo, lc, LOSS_RTOL if mode == "close" else CONT_INT_RTOL)


def _shared(l, cfg, p):
    """IntegratorLearner: number of intervals the abscissa belongs to"""
    try:
        k = l.learners[p[0]] if cfg.get("wrap") == "balancing" else base_of(l, cfg)
        return len(k.x_mapping[p[1] if cfg.get("wrap") == "balancing" else p])
    except Exception:
        return 1


def _split_centre(l, cfg, p):
    """IntegratorLearner: the abscissa is the centre of an interval that has children"""
    try:
        k = l.learners[p[0]] if cfg.get("wrap") == "balancing" else base_of(l, cfg)
        x = p[1] if cfg.get("wrap") == "balancing" else p
        return any(iv.children and x == iv.children[0].b for iv in k.x_mapping[x])
    except Exception:
        return False


def continue_run(chk, cfg, seed, l, a0, followers, stats, replay, name, nhist):
    kind, w = cfg["kind"], cfg.get("wrap")
    rng = random.Random(seed * 31 + 7)
    f = l.function
    is_int = kind == "int"
    direct = w == "balancing" and is_int
    live = dict(followers)
    for c, _, _ in live.values():
        set_factor(c, cfg)          # (an unpickled Learner1D comes back with the default recompute factor)
    set_factor(l, cfg)
    wait = _answer_points(cfg, a0)
    rounds = 4
    ops = ["ask(10)"]
    stats["cont_runs"] += 1

    def bad(mech, what, step):
        chk.fail(f"C13:{name}:{mech} run continued after the restore differs",
                 f"{name} {cfg}: {nhist} results, nothing pending, {mech}; then original and copy are taken through the same "
                 f"further history [{', '.join(ops)}]: {what}", dict(replay, mech=mech, cont_step=step))
        live.pop(mech, None)

    step = 0
    for rnd in range(rounds):
        last = rnd == rounds - 1
        order = list(wait)
        rng.shuffle(order)
        if order and not last and rng.random() < (0.75 if is_int and rnd == 0 else 0.2):
            # no result arrives before the next request: the learner has to choose with all of them outstanding
            # (an IntegratorLearner then refines and splits intervals whose own points are still in flight)
            k = 0
            ops.append("results held back")
            stats["cont_rounds_results_held_back"] += 1
        elif is_int and order and rng.random() < 0.9:
            # results for abscissae shared by several intervals (a parent and its children, neighbours) arrive last,
            # in most of these rounds the centres of intervals that have been split last of all
            centres = rng.random() < 0.8
            order.sort(key=lambda p: (_shared(l, cfg, p) > 1, centres and _split_centre(l, cfg, p)))
            stats["cont_int_rounds_shared_points_last"] += 1
            ops.append("deliver all, shared abscissae last" + (", centres of split intervals last of all" if centres else ""))
            k = len(order)
        elif is_int or last or not order:
            k = len(order)
            ops.append("deliver all shuffled")
        else:
            k = rng.randint(1, len(order))
            ops.append(f"deliver {k} of {len(order)} shuffled")
        for p in order[:k]:
            step += 1
            try:
                y = f(p)
                l.tell(p, y)
                lo = float(l.loss())
            except Exception as e:      # internal errors of the original under out-of-order delivery: other properties' findings
                key = f"{name}:{type(e).__name__} (continued run)"
                stats["skipped_other_finding"][key] = stats["skipped_other_finding"].get(key, 0) + 1
                return
            stats["cont_tells"] += 1
            for mech, (c, lm, am) in list(live.items()):
                try:
                    c.tell(p, y)
                    lc = float(c.loss())
                except Exception as e:
                    bad(mech, f"after result {step} ({p!r}) the copy raised {type(e).__name__}: {str(e)[:160]} (the original did not)", step)
                    continue
                if not _loss_ok(lm, lo, lc):
                    bad(mech, f"after result {step} ({p!r}) loss() = {lc!r} vs original {lo!r}", step)
        wait = order[k:]
        if wait and not is_int and rng.random() < 0.25:
            ops.append("remove_unfinished")
            l.remove_unfinished()
            for c, _, _ in live.values():
                c.remove_unfinished()
            wait = []
        d0, m0 = data_of(l, cfg), means_of(l, cfg)
        for mech, (c, lm, am) in list(live.items()):
            d1 = data_of(c, cfg)
            if not same_val(d0, d1):
                bad(mech, f"data differ after {step} further results: {_first_diff(d0, d1)}", step)
            elif not means_close(m0, means_of(c, cfg)):
                bad(mech, f"mean values / integral estimates differ beyond rounding after {step} further results", step)
        if not live or last:
            break
        n = (rng.randint(25, 70) if rnd == 0 else rng.randint(30, 80) if rnd == 1 else rng.randint(5, 30)) if is_int else rng.choice([1, 2, 3, 5, 8])
        child = rng.randrange(len(l.learners)) if direct else None
        ops.append(f"ask({n})" if child is None else f"child {child}: ask({n})")

        def ask_n(x):
            try:
                if direct:
                    pts, imps = x.learners[child].ask(n)
                    return [(child, q) for q in pts], imps
                return x.ask(n)
            except RuntimeError as e:
                if "No way to improve" not in str(e):
                    raise
                return None

        try:
            a = ask_n(l)
        except Exception as e:
            key = f"{name}:{type(e).__name__} (continued run)"
            stats["skipped_other_finding"][key] = stats["skipped_other_finding"].get(key, 0) + 1
            return
        stats["cont_asks"] += 1
        stats["cont_int_batch_asks"] += is_int
        for mech, (c, lm, am) in list(live.items()):
            if am is None:
                continue
            try:
                b = ask_n(c)
            except Exception as e:
                bad(mech, f"ask({n}) raised {type(e).__name__}: {str(e)[:160]} (the original answered {_short(a)[:120]})", step)
                continue
            if (a is None) != (b is None):
                bad(mech, f"ask({n}) = {_short(b)} vs original {_short(a)}", step)
                continue
            if a is None:
                continue
            rt = 0 if am == "exact" else ASK_RTOL
            if not (points_equal(list(a[0]), list(b[0]), rt) and
                    (close_val(a[1], b[1], 1e-6) if _numeric(a[1]) and _numeric(b[1]) else True)):
                bad(mech, f"ask({n}) = {_short(b)} vs original {_short(a)}", step)
            elif rt and not points_equal(list(a[0]), list(b[0]), 0):
                stats["cont_stopped_answers_equal_only_up_to_rounding"] += 1
                live.pop(mech)
        if a is None:
            break
        wait += list(a[0])


def _numeric(v):
    try:
        np.asarray(v, dtype=float)
        return True
    except (TypeError, ValueError):
        return False


def _short(a):
    return repr(a)[:300]


def _first_diff(a, b, path=""):
    if isinstance(a, dict) and isinstance(b, dict):
        if set(a) != set(b):
            return f"{path}: keys differ: missing {list(set(a) - set(b))[:3]}, extra {list(set(b) - set(a))[:3]} ({len(a)} vs {len(b)} entries)"
        for k in a:
            if not same_val(a[k], b[k]):
                return _first_diff(a[k], b[k], f"{path}[{k!r}]")
    if isinstance(a, (list, tuple)) and isinstance(b, (list, tuple)):
        if len(a) != len(b):
            return f"{path}: {len(a)} vs {len(b)} entries"
        for i, (x, y) in enumerate(zip(a, b)):
            if not same_val(x, y):
                return _first_diff(x, y, f"{path}[{i}]")
    return f"{path}: {repr(a)[:120]} vs {repr(b)[:120]}"


# ------------------------------------------------------------------ continued run of pickled Learner1D copies
# "A pickled copy ... makes the same later suggestions as the original": besides the asks made directly on the
# restored copy, original and copy are told the same further results and must keep agreeing.  This is demanded
# only in the regime where the unchanged code is deterministic: both end points evaluated and every further value
# inside the current y bounding box, so that _scale does not change and neither learner can reach its recompute
# threshold (the original has _scale <= factor * _oldscale after every tell, the copy _oldscale = _scale).
def continued_cfg(rng, wrap):
    cfg = {"kind": "l1d", "continued": True, "vecf": rng.random() < 0.3, "a": rng.choice([0.9, 1.3, 1.7, 1.9]),
           "pos": rng.choice([0.3, -0.45, 0.62, 0.05]), "w": rng.choice([0.02, 0.01, 0.04]),
           "loss": rng.choice(["default", "default", "triangle"]), "n": rng.randint(20, 45), "wrap": wrap}
    if wrap == "balancing":
        cfg["strategy"] = rng.choice(["loss_improvements", "npoints", "cycle"])
        cfg["poss"] = [cfg["pos"], -cfg["pos"]]
    return cfg


def continued_make(cfg):
    import adaptive
    from adaptive.learner import learner1D as m1

    def one(pos):
        f = functools.partial(g1_ramp_peak_vec if cfg["vecf"] else g1_ramp_peak, a=cfg["a"], pos=pos, w=cfg["w"])
        if cfg["wrap"] == "datasaver":
            f = WithExtra(f)
        loss = None if cfg["loss"] == "default" else m1.triangle_loss
        return adaptive.Learner1D(f, (-1.0, 1.0), loss_per_interval=loss)      # default _recompute_losses_factor = 2

    if cfg["wrap"] == "balancing":
        return adaptive.BalancingLearner([one(p) for p in cfg["poss"]], strategy=cfg["strategy"])
    if cfg["wrap"] == "datasaver":
        return adaptive.DataSaver(one(cfg["pos"]), arg_picker=operator.itemgetter("y"))
    return one(cfg["pos"])


def l1d_children(l, cfg):
    return list(l.learners) if cfg["wrap"] == "balancing" else [l.learner if cfg["wrap"] == "datasaver" else l]


def stale_intervals(k):
    """number of stored interval losses that differ from the loss function at the current scale"""
    return sum(1 for (a, b), v in k.losses.items() if not same_val(float(k._get_loss_in_interval(a, b)), float(v)))


def inside_box(k, y):
    lo, hi = k._bbox[1]
    return bool(np.all(np.asarray(y) >= np.asarray(lo)) and np.all(np.asarray(y) <= np.asarray(hi)))


def continued_build(cfg, seed):
    """The history up to the moment of pickling (deterministic in the seed)."""
    rng = random.Random(seed)
    l = continued_make(cfg)
    f = l.function
    first = True
    while l.npoints < cfg["n"] * (2 if cfg["wrap"] == "balancing" else 1):
        pts, _ = l.ask(2 * len(l1d_children(l, cfg)) if first else rng.randint(1, 6))    # first round: the end points
        first = False
        pts = list(pts)
        rng.shuffle(pts)
        for p in pts:
            l.tell(p, f(p))
    return l


def continued_case(chk, cfg, seed, stats):
    name = name_of(cfg)
    replay = {"cfg": cfg, "seed": seed}
    for mi, mech in enumerate(("pickle", "cloudpickle")):
        o = continued_build(cfg, seed)           # the genuine original, one per mechanism (the run goes on in place)
        kids = l1d_children(o, cfg)
        stale = sum(stale_intervals(k) for k in kids)
        if mi == 0:
            stats["continued_cases"] += 1
            stats["continued_with_stale_losses"] += stale > 0
        ser = pickle if mech == "pickle" else cloudpickle
        c = ser.loads(ser.dumps(o))
        r2 = random.Random(seed + 1)
        for step in range(8):
            cand = list(o.ask(3, tell_pending=False)[0])
            kk = l1d_children(o, cfg)
            pick = None
            for p in cand + [_mid(o, cfg, r2) for _ in range(4)]:
                if p is None:
                    continue
                child = kk[p[0]] if cfg["wrap"] == "balancing" else kk[0]
                x = p[1] if cfg["wrap"] == "balancing" else p
                if x in child.data:
                    continue
                y = o.function(p)
                yy = y["y"] if isinstance(y, dict) else y
                if inside_box(child, yy):
                    pick = (p, y)
                    break
            if pick is None:
                break
            for lr in (o, c):
                lr.tell(*pick)
            stats["continued_steps"] += 1
            lo_, lc_ = float(o.loss()), float(c.loss())
            ao = [o.ask(n, tell_pending=False) for n in (1, 5)]
            ac = [c.ask(n, tell_pending=False) for n in (1, 5)]
            ok_loss = same_val(lo_, lc_)
            ok_ask = all(points_equal(list(x[0]), list(y[0]), 0) and close_val(x[1], y[1], 0) for x, y in zip(ao, ac))
            if not (ok_loss and ok_ask):
                what = f"loss() {lc_!r} vs original {lo_!r}" if not ok_loss else f"ask = {_short(ac)} vs original {_short(ao)}"
                chk.fail(f"C13:{name}:{mech} continued run differs",
                         f"{name} {cfg}: {sum(k.npoints for k in kids)} results ({stale} stale interval losses at pickling time), "
                         f"{mech}, then the same {step + 1} further result(s) told to original and copy (all inside the y bounding "
                         f"box, so no rescale): {what}", dict(replay, mech=mech, steps=step + 1))
                return


def cfg_plain(cfg):
    return {"kind": "l1d", "wrap": cfg["wrap"]}


def _mid(l, cfg, rng):
    kk = l1d_children(l, cfg)
    i = rng.randrange(len(kk))
    xs = sorted(kk[i].data)
    if len(xs) < 2:
        return None
    j = rng.randrange(len(xs) - 1)
    x = xs[j] + (xs[j + 1] - xs[j]) * rng.choice([0.5, 0.25, 0.75])
    return (i, x) if cfg["wrap"] == "balancing" else x


def learner2d_usable():
    import adaptive
    try:
        l = adaptive.Learner2D(functools.partial(gn_smooth, a=1.0), ((-1.0, 1.0), (-1.0, 1.0)))
        for _ in range(4):
            pts, _ = l.ask(3)
            for p in pts:
                l.tell(p, l.function(p))
        l.loss()
        return True, ""
    except Exception as e:
        return False, f"{type(e).__name__}: {str(e)[:160]}"


def plan(chk):
    """(cfg, seed) list: every base learner, BalancingLearner over each, DataSaver over each."""
    quick = chk.quick
    per = {"l1d": (80, 25, 25), "lnd2": (24, 10, 10), "lnd3": (8, 4, 4), "avg": (40, 12, 12), "avg1d": (16, 8, 8),
           "seq": (20, 8, 8), "int": (60, 16, 16)} if quick else \
          {"l1d": (900, 180, 180), "lnd2": (240, 75, 75), "lnd3": (90, 30, 30), "avg": (180, 60, 60),
           "avg1d": (180, 60, 60), "seq": (180, 60, 60), "int": (240, 75, 75)}
    kinds = list(BASE_KINDS)
    import os
    only = os.environ.get("VERIF_C13_KINDS")         # development aid: restrict the plan to some learner kinds
    ok2d, why = learner2d_usable()
    if ok2d:
        kinds.append("l2d")
        per["l2d"] = per["lnd2"]
    out = []
    for kind in kinds:
        if only and kind not in only.split(","):
            continue
        for wi, wrap in enumerate([None, "balancing", "datasaver"]):
            for k in range(per[kind][wi]):
                rng = chk.rng("cfg", kind, wrap, k)
                cfg = gen_cfg(rng, kind, quick)
                if wrap == "balancing":
                    cfg["wrap"] = "balancing"
                    cfg["scales"] = rng.choice([[1.0, 0.5], [1.0, 2.0, -1.0], [1.0]])
                    cfg["strategy"] = rng.choice(["loss_improvements", "loss", "npoints", "cycle"]) if not kind.startswith("lnd") \
                        else rng.choice(["loss_improvements", "loss_improvements", "cycle", "npoints"])
                    # (strategy 'loss' / 'npoints' ask a LearnerND child with tell_pending=True and then call
                    #  tell_pending again: ValueError "Point already in triangulation" -- another property's business)
                    cfg["n"] = min(cfg["n"] * len(cfg["scales"]), 60 if kind != "int" else 200)
                    cfg["cdims"] = rng.random() < 0.5
                    if kind == "seq":
                        cfg["ntotal"] = cfg["n"] + 70        # a BalancingLearner cannot ask an exhausted child
                elif wrap == "datasaver":
                    cfg["wrap"] = "datasaver"
                    cfg["picker"] = rng.choice(["y", "val", "fn"])
                out.append((cfg, chk.rng("hist", kind, wrap, k).randrange(2 ** 31)))
    return out, ok2d, why


def run(chk: Check) -> int:
    chk.prove(["theories/Props/C13.vo"], THEOREMS)
    stats = {"roundtrips": 0, "loss_compared": 0, "asks_compared": 0, "skipped_pending": 0,
             "pickle_closure_loss_not_picklable": 0, "twin_not_identical": 0, "ask_raises": 0, "skipped_other_finding": {}, "usable": {}, "histories": 0,
             "continued_cases": 0, "continued_with_stale_losses": 0, "continued_steps": 0, **CONT_STATS,
             "cont_followers": {}, "snapshots_of_young_learners": {}}
    cases, ok2d, why = plan(chk)
    if not ok2d:
        chk.fail(SIG_F7, f"Learner2D cannot be driven past its corner points on this platform ({why}); "
                         f"its round trips are therefore not checked", {"cfg": {"kind": "l2d"}, "why": why})
    import warnings
    warnings.filterwarnings("ignore")
    for i, (cfg, seed) in enumerate(cases):
        for attempt in range(5):          # a history that runs into another property's finding is replaced
            usable = check_case(chk, cfg, seed + attempt, stats, chk.work, f"c{i}")
            if usable:
                seed += attempt
                break
        stats["histories"] += 1
        nm = name_of(cfg)
        stats["usable"][nm] = stats["usable"].get(nm, 0) + bool(usable)
        chk.note_case((cfg, seed), bool(usable and (cfg["n"] >= 5 or cfg.get("early"))))
        if usable and i % 37 == 0:
            chk.sample({"learner": nm, "cfg": {k: v for k, v in cfg.items() if k != "kind"}, "mechanisms": MECHS})
        if sum(1 for f in chk.failures if f["signature"] not in (SIG_F7, SIG_CYCLE, SIG_CYCLE_TENTATIVE, SIG_XSCALE)) > 40:
            break
    # corpus: (cfg, seed) pairs kept because they reach states the random plan reaches only now and then
    # (found by running seeded changes of /repo); the unchanged tree must agree on them like on any other history
    import json
    corpus = chk.work.parents[1] / "corpus" / "C13"
    stats["corpus_cases"] = 0
    for f in sorted(corpus.glob("*.json")) if corpus.exists() else []:
        d = json.loads(f.read_text())
        cfg = d["cfg"]
        if "bounds" in cfg:
            cfg["bounds"] = tuple(cfg["bounds"])
        usable = check_case(chk, cfg, d["seed"], stats, chk.work, f"k{stats['corpus_cases']}")
        stats["corpus_cases"] += 1
        chk.note_case(("corpus", f.name), bool(usable))
        if not usable:
            chk.broke("machinery", f"corpus case {f.name} is no longer a usable history", stats["skipped_other_finding"])
    # continued run of pickled Learner1D copies (and wrappers around Learner1D), default factor 2
    for wrap, count in ((None, 40 if chk.quick else 400), ("balancing", 10 if chk.quick else 80), ("datasaver", 10 if chk.quick else 80)):
        for k in range(count):
            rng = chk.rng("continued", wrap, k)
            cfg = continued_cfg(rng, wrap)
            seed = rng.randrange(2 ** 31)
            continued_case(chk, cfg, seed, stats)
            chk.note_case(("continued", cfg, seed), True)
            if sum(1 for f in chk.failures if "continued run" in f["signature"]) > 10:
                break
    if stats["continued_cases"] and stats["continued_with_stale_losses"] * 2 < stats["continued_cases"]:
        chk.broke("machinery", "continued-run histories rarely carry stale interval losses at pickling time",
                  {k: stats[k] for k in ("continued_cases", "continued_with_stale_losses")})
    for nm, n in stats["usable"].items():
        if n == 0:
            chk.broke("machinery", f"no usable history for {nm}", stats["skipped_other_finding"])
    for f in list(chk.work.glob("c*_save_*.pickle")) + list(chk.work.glob("k*_save_*.pickle")):
        f.unlink()
    sigs = {}
    for f in chk.failures:
        sigs[f["signature"]] = sigs.get(f["signature"], 0) + 1
    chk.extra.update({"feature_counts": {k: v for k, v in stats.items()}, "exhaustive": False, "failure_signatures": sigs,
                      "partial": ["C13_l1d: state (loss tables, suggestions) of a restored Learner1D is decided by the oracle, "
                                  "the theorem covers the data dictionary"]})
    chk.log(f"{stats['histories']} histories, {stats['roundtrips']} round trips, loss compared {stats['loss_compared']}, "
            f"asks compared {stats['asks_compared']}, skipped {stats['skipped_other_finding']}; failures {len(chk.failures)}")
    return chk.finish(
        rule="for each learner type that runs here, constructor parameters drawn from default and non-default values (Learner1D "
             "scalar/vector with 8 losses incl. parametrised curvature/resolution losses and a custom nth_neighbors=2 loss, factor 1 "
             "or 2; LearnerND 2D/3D scalar/vector with the 6 shipped losses; AverageLearner atol/rtol/min_npoints; AverageLearner1D "
             "delta/alpha/min_samples/max_samples/neighbor_sampling/min_error/loss; SequenceLearner over ints, floats, lists, tuples; "
             "IntegratorLearner tol 1e-3..1e-12 and four domains) and for BalancingLearner (1-3 children, 4 strategies, with and "
             "without cdims) and DataSaver (three arg_pickers) around each: an ask-driven history with out-of-order delivery that ends "
             "with nothing pending, stopped early in ~35 % of the cases (50 % for the IntegratorLearner): a handful of results, so that "
             "the snapshot is taken below min_npoints / min_samples, before both end points / all corners / the first interval are "
             "done (counted in snapshots_of_young_learners) "
             "-- committing asks of 1..8 points (late IntegratorLearner histories: up to 40), non-committing asks ask(n, tell_pending=False) in between, a "
             "closing committing batch ask (n > 1) fully delivered and, in ~40 % of the histories, one or two non-committing asks "
             "as the last operations before the snapshot (counted) --, then save/load gzip and raw into new(), pickle, cloudpickle, new().copy_from(); data compared "
             "exactly (arrays elementwise, extra_data, per-child data), loss() exactly for pickles and to 1e-12 for file/copy_from "
             "where the state is a function of the data, next ten suggestions exactly for pickles / to 1e-10 otherwise "
             "(AverageLearner1D exempt); the run then goes on: the original and every restored copy for which the property demands "
             "lasting agreement (pickles: all but Learner2D and Learner1D with factor 2; file/copy_from: the learners whose state is a "
             "function of their data) are taken in lock step through up to four further rounds -- results held back, delivered "
             "shuffled completely or partly, sometimes remove_unfinished, then a batch ask (1..8 points; IntegratorLearner 25..80 "
             "points with the abscissae shared by several intervals, in most rounds the centres of split intervals last of all) -- "
             "and data (exact), loss() after every single result (exact for pickles, 1e-12 for file/copy_from, 1e-9 for the "
             "IntegratorLearner's set sums and AverageLearner1D's recomputed means) and every ask answer (points exact for pickles / "
             "1e-10 otherwise, promised improvements to 1e-6; AverageLearner1D copies are not asked) must agree; "
             "continued run of pickled Learner1D with the default factor 2 (and BalancingLearner / DataSaver "
             "around it) on a ramp with a late narrow peak (so that stale interval losses exist at pickling time, counted), "
             "pickled, then original and copy are told the same further results whose values lie inside the y bounding box "
             "(no rescale possible) and loss() and ask(1), ask(5) must stay identical after every tell; histories that hit an internal error of another property's finding (F1, F5, F12) are "
             "skipped and counted; non-trivial = usable history aimed at 5 or more results, or a deliberately early snapshot",
        assumptions=["cloudpickle / gzip / the file system round-trip Python values faithfully (trusted)",
                     "Learner1D restored state beyond the data dictionary: oracle only (C13_l1d `_partial`)"])


def replay(doc) -> int:
    import warnings
    from pathlib import Path
    warnings.filterwarnings("ignore")
    bad = 0
    work = Path("/verif/work/C13")
    work.mkdir(parents=True, exist_ok=True)

    class Sink:
        def __init__(self):
            self.failures = []

        def fail(self, sig, what, rp):
            self.failures.append((sig, what))

    for f in doc.get("failing_inputs", []):
        r = f.get("replay") or {}
        cfg = r.get("cfg", {})
        if cfg.get("kind") == "l2d" and "seed" not in r:
            ok, why = learner2d_usable()
            print("replayed Learner2D usability ->", "usable" if ok else why)
            bad += not ok
            continue
        if "bounds" in cfg:
            cfg["bounds"] = tuple(cfg["bounds"])
        if cfg.get("continued"):
            sink = Sink()
            st = {"continued_cases": 0, "continued_with_stale_losses": 0, "continued_steps": 0}
            continued_case(sink, cfg, r["seed"], st)
            print("replayed continued run", name_of(cfg), cfg, st, "->", sink.failures[:1] or "oracle silent")
            bad += bool(sink.failures)
            continue
        sink = Sink()
        stats = {"roundtrips": 0, "loss_compared": 0, "asks_compared": 0, "skipped_pending": 0,
                 "pickle_closure_loss_not_picklable": 0, "twin_not_identical": 0, "ask_raises": 0, "skipped_other_finding": {}, **CONT_STATS,
                 "cont_followers": {}, "snapshots_of_young_learners": {}}
        check_case(sink, cfg, r["seed"], stats, work, "replay")
        print("replayed", name_of(cfg), cfg, "->", sink.failures[:1] or "oracle silent")
        bad += bool(sink.failures)
    return 1 if bad else 0
