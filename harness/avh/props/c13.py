"""C13 -- saving, pickling or copying a learner and restoring it loses nothing.

proof          : coq/theories/Props/C13.v (Proofs/RoundtripProofs.v, Proofs/OrderL1D.v): _get_data/_set_data as pure
                 functions on the models -- SequenceLearner: the restored STATE equals the original after every legal
                 history with nothing pending; averaging spec: the four attributes survive; Learner1D: the data
                 dictionary is rebuilt exactly by either path of tell_many after EVERY history (`_partial`: loss tables
                 not covered); DataSaver / BalancingLearner: inherit the round trip of their children, extra_data
                 verbatim, no child skipped.
search         : from-scratch oracle on the real classes, every learner type that runs on this platform and the two
                 wrappers around each: ask-driven histories with out-of-order delivery that end with nothing pending,
                 scalar and vector outputs; save/load (gzip and raw) into learner.new(), pickle, cloudpickle,
                 new().copy_from(): data equal exactly, loss() and the next ten suggestions as far as the property
                 demands them (see `demands`).
(no step-by-step correspondence: the byte layer is exercised directly on the real classes.)
"""
from __future__ import annotations

import functools
import math
import operator
import pickle
import random

import cloudpickle
import numpy as np

from ..core import Check

THEOREMS = {n: "Props.C13" for n in [
    "C13_seq_roundtrip", "C13_avg_roundtrip", "C13_avg_roundtrip_fields", "C13_l1d_data_roundtrip",
    "C13_l1d_data_roundtrip_Qc", "C13_datasaver_roundtrip", "C13_balancing_roundtrip",
    "C13_l1d_restored_losses", "C13_l1d_restored_example"]}

SIG_F7 = "C13:F7 Learner2D unusable on numpy>=2.x/scipy>=1.15"
SIG_XSCALE = ("C13:Learner1D:file/copy_from restore of a learner lacking an evaluated end point takes the data extent as "
              "x-scale (batch path of tell_many): losses and later suggestions differ from the original")
SIG_CYCLE_TENTATIVE = ("C13:BalancingLearner:pickle strategy='cycle' after ask(tell_pending=False) resumes at the wrong child "
                       "(_cycle_position not rolled back by the tentative ask)")
SIG_CYCLE = "C13:BalancingLearner:pickle strategy='cycle' restarts at the first child (position in the cycle is not part of the pickled state)"
MECHS = ["save_gz", "save_raw", "pickle", "cloudpickle", "copy_from"]
LOSS_RTOL = 1e-12
ASK_RTOL = 1e-10


# ------------------------------------------------------------------ learnt functions (module level: picklable)
def g1_smooth(x, a=1.0):
    return math.sin(3 * a * x) + 0.3 * x


def g1_peak(x, a=1.0):
    return x + a * 0.01 ** 2 / (0.01 ** 2 + (x - 0.1) ** 2)


def g1_step(x, a=1.0):
    return 0.0 if x < 0.3 * a else 1.0


def g1_vec(x, a=1.0):
    return np.array([math.sin(5 * x) * a, 20 * x * x, 1.0])


def gn_smooth(p, a=1.0):
    return float(sum((i + 1) * a * c * c for i, c in enumerate(p)) + math.sin(3 * p[0]))


def gn_ring(p, a=1.0):
    r = math.sqrt(sum(c * c for c in p))
    return float(math.exp(-((r - 0.6 * a) ** 2) / 0.02))


def gn_vec(p, a=1.0):
    return np.array([gn_smooth(p, a), p[0] - p[-1]])


def g_avg(seed, a=1.0):
    return a + random.Random(seed).gauss(0, 1)


def g_avg1d(sx, a=1.0):
    seed, x = sx
    return a * x ** 2 + random.Random(int(seed) * 7919 + hash(round(x, 12)) % 10007).gauss(0, 0.3)


def g_seq(e, a=1.0):
    return a * e * 2.5 if not isinstance(e, (list, tuple)) else a * e[0]


def g_int_sqrt(x, a=1.0):
    return a * math.sqrt(abs(x))


def g_int_peak(x, a=1.0):
    return a / (1e-3 + (x - 0.3) ** 2)


def g_int_kink(x, a=1.0):
    return abs(x - 0.3 * a) + math.sin(20 * x)


def g1_ramp_peak(x, a=1.0, pos=0.3, w=0.02):
    """ramp over (-1, 1) (y-range 2 once both bounds are known) with a narrow peak of height a < 2 found late:
    the y-range then grows by less than the recompute factor 2, so older interval losses stay stale"""
    return float(x + a * w * w / (w * w + (x - pos) ** 2))


def g1_ramp_peak_vec(x, a=1.0, pos=0.3, w=0.02):
    y = g1_ramp_peak(x, a, pos, w)
    return np.array([y, 0.5 * y])


G1 = {"smooth": g1_smooth, "peak": g1_peak, "step": g1_step, "vec": g1_vec}
GN = {"smooth": gn_smooth, "ring": gn_ring, "vec": gn_vec}
GINT = {"sqrt": g_int_sqrt, "peak": g_int_peak, "kink": g_int_kink}


class WithExtra:
    """function for DataSaver: returns {"y": value, "t": tag}"""

    def __init__(self, f):
        self.f = f

    def __call__(self, x):
        y = self.f(x)
        return {"y": y, "t": ("tag", repr(x)[:40]), "n": len(repr(x))}


# ------------------------------------------------------------------ construction
BASE_KINDS = ["l1d", "lnd2", "lnd3", "avg", "avg1d", "seq", "int"]


def gen_cfg(rng, kind, quick):
    a = rng.choice([1.0, 0.5, 2.0, -1.5])
    if kind == "l1d":
        return {"kind": kind, "f": rng.choice(list(G1)), "a": a, "bounds": rng.choice([(-1.0, 1.0), (0.0, 1.0), (-3.0, 7.5)]),
                "loss": rng.choice(["default", "default", "uniform", "triangle", "curvature", "resolution"]),
                "factor": rng.choice([1, 1, 2]), "n": rng.randint(3, 30 if quick else 60)}
    if kind in ("lnd2", "lnd3", "l2d"):
        hole = {"corner_hole": rng.random() < 0.4} if kind == "l2d" else {}
        return {**hole, "kind": kind, "f": rng.choice(list(GN)), "a": a, "loss": rng.choice(["default", "uniform"]),
                "n": rng.randint(6, 22 if quick else 45) if kind != "lnd3" else rng.randint(10, 20 if quick else 35)}
    if kind == "avg":
        return {"kind": kind, "a": a, "atol": rng.choice([0.01, 0.1]), "rtol": rng.choice([0.01, 1.0]),
                "min_npoints": rng.choice([2, 5]), "n": rng.randint(2, 30)}
    if kind == "avg1d":
        return {"kind": kind, "a": a, "bounds": (-1.0, 1.0), "n": rng.randint(10, 150 if quick else 600),
                # small min_samples: locations with exactly one, two, three samples exist when the snapshot is taken
                "min_samples": rng.choice([1, 2, 2, 3, 5, 50]), "delta": rng.choice([0.2, 0.5])}
    if kind == "seq":
        return {"kind": kind, "a": a, "elems": rng.choice(["int", "list"]), "ntotal": rng.choice([3, 5, 10, 25]),
                "n": rng.randint(1, 25)}
    if kind == "int":
        return {"kind": kind, "f": rng.choice(list(GINT)), "a": a, "tol": rng.choice([1e-6, 1e-9]),
                "n": rng.randint(20, 90 if quick else 250)}
    raise ValueError(kind)


def make_base(cfg, a=None, extra=False):
    import adaptive
    from adaptive.learner import learner1D as m1, learnerND as mn
    kind = cfg["kind"]
    a = cfg["a"] if a is None else a
    wrap = (lambda f: WithExtra(f)) if extra else (lambda f: f)
    if kind == "l1d":
        loss = {"default": None, "uniform": m1.uniform_loss, "triangle": m1.triangle_loss,
                "curvature": m1.curvature_loss_function(),
                "resolution": m1.resolution_loss_function(min_length=0.01, max_length=1.0)}[cfg["loss"]]
        l = adaptive.Learner1D(wrap(functools.partial(G1[cfg["f"]], a=a)), tuple(cfg["bounds"]), loss_per_interval=loss)
        l._recompute_losses_factor = cfg["factor"]
        return l
    if kind in ("lnd2", "lnd3"):
        d = 2 if kind == "lnd2" else 3
        loss = {"default": None, "uniform": mn.uniform_loss}[cfg["loss"]]
        return adaptive.LearnerND(wrap(functools.partial(GN[cfg["f"]], a=a)), ((-1.0, 1.0),) * d, loss_per_simplex=loss)
    if kind == "l2d":
        return adaptive.Learner2D(wrap(functools.partial(GN[cfg["f"]], a=a)), ((-1.0, 1.0), (-1.0, 1.0)))
    if kind == "avg":
        return adaptive.AverageLearner(wrap(functools.partial(g_avg, a=a)), atol=cfg["atol"], rtol=cfg["rtol"],
                                       min_npoints=cfg["min_npoints"])
    if kind == "avg1d":
        l = adaptive.AverageLearner1D(wrap(functools.partial(g_avg1d, a=a)), tuple(cfg["bounds"]),
                                      delta=cfg.get("delta", 0.2), min_samples=cfg.get("min_samples", 50))
        l._recompute_losses_factor = 1
        return l
    if kind == "seq":
        seq = list(range(100, 100 + cfg["ntotal"])) if cfg["elems"] == "int" or extra else \
            [[i, 2 * i] for i in range(cfg["ntotal"])]
        return adaptive.SequenceLearner(wrap(functools.partial(g_seq, a=a)), seq)
    if kind == "int":
        return adaptive.IntegratorLearner(wrap(functools.partial(GINT[cfg["f"]], a=a)), (0.0, 1.0), tol=cfg["tol"])
    raise ValueError(kind)


def make(cfg):
    """cfg["wrap"] in (None, "balancing", "datasaver")."""
    import adaptive
    w = cfg.get("wrap")
    if w is None:
        return make_base(cfg)
    if w == "datasaver":
        return adaptive.DataSaver(make_base(cfg, extra=True), arg_picker=operator.itemgetter("y"))
    if w == "balancing":
        kids = [make_base(cfg, a=cfg["a"] * s) for s in cfg["scales"]]
        return adaptive.BalancingLearner(kids, strategy=cfg["strategy"])
    raise ValueError(w)


def base_of(l, cfg):
    return l.learner if cfg.get("wrap") == "datasaver" else l


def set_factor(l, cfg):
    """`new()` does not carry _recompute_losses_factor; the property speaks of learners with exact
    recomputation enabled, so enable it on the copy as the suite does."""
    kind = cfg["kind"]
    if kind not in ("l1d", "avg1d"):
        return
    fac = 1 if kind == "avg1d" else cfg["factor"]
    kids = l.learners if cfg.get("wrap") == "balancing" else [base_of(l, cfg)]
    for k in kids:
        k._recompute_losses_factor = fac


# ------------------------------------------------------------------ histories
def progress(l):
    try:
        return l.nsamples            # AverageLearner1D resamples: count samples, not locations
    except AttributeError:
        return l.npoints


def ask_any(l, cfg, rng, k):
    """One request for points.  BalancingLearner cannot ask an IntegratorLearner child
    (IntegratorLearner.tell_pending() takes no point -> TypeError in BalancingLearner.tell_pending):
    there the children are asked directly and the results are told through the wrapper."""
    if cfg.get("wrap") == "balancing" and cfg["kind"] == "int":
        i = rng.randrange(len(l.learners))
        pts, imps = l.learners[i].ask(k)
        return [(i, p) for p in pts], imps
    return l.ask(k)


def ask_tentative(l, cfg, rng, k):
    """A non-committing ask (the answer is discarded)."""
    try:
        if cfg.get("wrap") == "balancing" and cfg["kind"] == "int":
            l.learners[rng.randrange(len(l.learners))].ask(k, tell_pending=False)
        else:
            l.ask(k, tell_pending=False)
    except RuntimeError as e:
        if "No way to improve" not in str(e):
            raise


def unsolicited_point(l, cfg, rng):
    """An in-domain point the learner never handed out (None where the learner type accepts none:
    IntegratorLearner.tell raises for an abscissa it did not choose itself)."""
    kind = cfg["kind"]
    if kind == "int":
        return None
    if cfg.get("wrap") == "balancing":
        i = rng.randrange(len(l.learners))
        p = _unsolicited_base(l.learners[i], kind, rng)
        return None if p is None else (i, p)
    return _unsolicited_base(base_of(l, cfg), kind, rng)


def _unsolicited_base(k, kind, rng):
    if kind == "l1d":
        lo, hi = k.bounds
        x = lo + (hi - lo) * (rng.randint(1, 63) / 64.0 if rng.random() < 0.5 else rng.uniform(0.01, 0.99))
        return None if x in k.data or x in k.pending_points else x
    if kind in ("lnd2", "lnd3", "l2d"):
        d = 3 if kind == "lnd3" else 2
        p = tuple(round(rng.uniform(-0.9, 0.9), 3) for _ in range(d))
        return None if p in k.data or p in k.pending_points else p
    if kind == "avg":
        sd = k.n_requested + rng.randint(1, 4)          # leaves a gap in the seeds
        return None if sd in k.data or sd in k.pending_points else sd
    if kind == "avg1d":
        x = round(rng.uniform(-0.95, 0.95), 3)
        return None if x in k.data else (0, x)
    if kind == "seq":
        free = [i for i in range(len(k.sequence)) if i not in k.data and i not in k.pending_points]
        if not free:
            return None
        i = rng.choice(free)                             # not the next index in line: leaves a hole
        return (i, k.sequence[i])
    return None


def drive(l, cfg, rng, info=None):
    """A history that ends with nothing pending: committing asks of 1..5 points with partial, out-of-order
    delivery; non-committing asks ask(n, tell_pending=False) in between; remove_unfinished() after a partial
    delivery (asked points stay unevaluated: holes in a SequenceLearner's indices, missing end points / corners);
    unsolicited tells of in-domain points that were never asked; a closing phase: one more committing BATCH ask
    (n > 1), delivered completely or partly + remove_unfinished(), then possibly one or two non-committing asks
    as the very last operations before the snapshot.  Returns the list of (point, value) in delivery order."""
    info = info if info is not None else {}
    info.update({"tentative": 0, "trailing_tentative": 0, "last_commit_n": 0, "discards": 0, "unsolicited": 0})
    f = l.function
    wait, hist = [], []
    target = cfg["n"]
    stuck = 0
    can_discard = cfg["kind"] != "int"      # IntegratorLearner.remove_unfinished is a no-op: points would stay in flight

    def deliver(k):
        for _ in range(k):
            p = wait.pop()
            y = f(p)
            l.tell(p, y)
            hist.append((p, y))

    def discard():
        l.remove_unfinished()
        info["discards"] += bool(wait)
        wait.clear()

    def finish_round():
        """all outstanding results arrive, or only some of them and the rest is discarded"""
        if can_discard and wait and rng.random() < 0.3:
            rng.shuffle(wait)
            deliver(rng.randint(0, len(wait) - 1))
            discard()
        else:
            deliver(len(wait))

    def commit(k):
        try:
            pts, _ = ask_any(l, cfg, rng, k)
        except RuntimeError as e:      # IntegratorLearner: "No way to improve the integral estimate"
            if "No way to improve" in str(e):
                return None
            raise
        if pts:
            info["last_commit_n"] = len(pts)
        return list(pts)

    if cfg.get("corner_hole"):
        # Learner2D: the snapshot is taken while a corner of the domain is unevaluated and sits in the stack
        # BEHIND interior candidates (remove_unfinished puts a missing corner back at the end of the stack)
        target = 0
        pts = commit(rng.choice([5, 6])) or []
        base = (lambda q: q[1]) if cfg.get("wrap") == "balancing" else (lambda q: q)
        corners = [q for q in pts if all(abs(abs(c) - 1.0) < 1e-12 for c in base(q))]
        held = rng.choice(corners) if corners else None
        wait += [q for q in pts if q is not held]
        rng.shuffle(wait)
        deliver(len(wait))
        wait += commit(rng.choice([1, 2])) or []
        deliver(len(wait))
        if held is not None:
            wait.append(held)
            discard()
        for _ in range(rng.choice([0, 0, 1, 2])):
            q = unsolicited_point(l, cfg, rng)
            if q is not None:
                y = f(q)
                l.tell(q, y)
                hist.append((q, y))
                info["unsolicited"] += 1
    rounds = 0
    while progress(l) < target and stuck < 3 and rounds < 40 * max(1, target):
        rounds += 1
        if rng.random() < 0.2 and progress(l) > 0:
            ask_tentative(l, cfg, rng, rng.choice([1, 2, 3]))
            info["tentative"] += 1
        if rng.random() < 0.12:
            p = unsolicited_point(l, cfg, rng)
            if p is not None:
                y = f(p)
                l.tell(p, y)
                hist.append((p, y))
                info["unsolicited"] += 1
        pts = commit(rng.choice([1, 1, 2, 3, 5]))
        if pts is None:
            break
        if not pts:
            stuck += 1
        wait += pts
        if not wait:
            continue
        rng.shuffle(wait)
        deliver(rng.randint(0 if len(wait) > 1 else 1, len(wait)))
        if can_discard and wait and rng.random() < 0.12:
            discard()
    finish_round()
    # closing phase
    if not cfg.get("corner_hole") and rng.random() < 0.7:
        pts = commit(rng.choice([2, 3, 4, 5]))
        if pts:
            wait += pts
            rng.shuffle(wait)
            finish_round()
    if cfg["kind"] == "avg1d" and rng.random() < 0.5:
        # two unsolicited samples at a fresh location: the snapshot is taken while a location has exactly two
        # samples (with the default min_samples = 50 an ask-driven run is almost never in that state)
        x = round(rng.uniform(-0.95, 0.95), 3)
        child = rng.randrange(len(l.learners)) if cfg.get("wrap") == "balancing" else None
        for sd in (0, 1):
            p = (sd, x) if child is None else (child, (sd, x))
            y = f(p)
            l.tell(p, y)
            hist.append((p, y))
    if rng.random() < 0.6 and progress(l) > 0:
        for _ in range(rng.choice([1, 1, 2])):
            ask_tentative(l, cfg, rng, rng.choice([1, 2, 3]))
            info["tentative"] += 1
            info["trailing_tentative"] += 1
    return hist


def outstanding(l, cfg):
    """Points handed out and not yet delivered.  (IntegratorLearner.pending_points also holds the points
    still waiting in its own stack, which were never handed out.)"""
    kids = l.learners if cfg.get("wrap") == "balancing" else [base_of(l, cfg)]
    n = 0
    for k in kids:
        pend = set(k.pending_points)
        if cfg["kind"] == "int":
            pend -= set(k._stack)
        n += len(pend)
    return n


# ------------------------------------------------------------------ observation
def same_val(a, b):
    if isinstance(a, dict) and isinstance(b, dict):
        return set(a.keys()) == set(b.keys()) and all(same_val(a[k], b[k]) for k in a)
    if isinstance(a, (list, tuple)) and isinstance(b, (list, tuple)):
        return len(a) == len(b) and all(same_val(x, y) for x, y in zip(a, b))
    try:
        return bool(np.array_equal(np.asarray(a), np.asarray(b), equal_nan=True)) and np.shape(a) == np.shape(b)
    except TypeError:
        return bool(np.array_equal(np.asarray(a), np.asarray(b))) and np.shape(a) == np.shape(b)


def close_val(a, b, rtol):
    a, b = np.asarray(a, dtype=float), np.asarray(b, dtype=float)
    if a.shape != b.shape:
        return False
    with np.errstate(invalid="ignore"):
        ok = (a == b) | (np.isnan(a) & np.isnan(b)) | (np.abs(a - b) <= rtol * np.maximum(np.abs(a), np.abs(b)))
    return bool(np.all(ok))


def data_of(l, cfg):
    """The learner's data in a comparable form (exact comparison with same_val)."""
    kind, w = cfg["kind"], cfg.get("wrap")
    if w == "balancing":
        return [data_of(c, dict(cfg, wrap=None)) for c in l.learners]
    if w == "datasaver":
        return {"learner": data_of(l.learner, dict(cfg, wrap=None)), "extra_data": dict(l.extra_data)}
    if kind == "avg1d":
        return {"samples": {x: dict(s) for x, s in l._data_samples.items()}}
    if kind == "seq":
        return {"data": list(l.data.items())}           # a SortedDict: order matters
    if kind == "int":
        return {"data": dict(l.data), "nivals": len(l.ivals), "npending": len(l.pending_points)}
    if kind == "avg":
        return {"data": dict(l.data), "npoints": l.npoints}
    return {"data": dict(l.data)}


def means_of(l, cfg):
    """Derived values compared up to rounding: AverageLearner1D.data (running means vs batch means) and the
    IntegratorLearner's igral / err (sums over a SET of intervals: the summation order follows object ids)."""
    w = cfg.get("wrap")
    if cfg["kind"] == "int":
        kids = l.learners if w == "balancing" else [base_of(l, cfg)]
        return [{"igral": float(k.igral), "err": float(k.err)} for k in kids]
    if cfg["kind"] != "avg1d":
        return None
    if w == "balancing":
        return [dict(c.data) for c in l.learners]
    return dict(base_of(l, cfg).data)


def means_close(a, b):
    if a is None:
        return True
    if isinstance(a, list):
        return len(a) == len(b) and all(means_close(x, y) for x, y in zip(a, b))
    return set(a) == set(b) and all(close_val(a[k], b[k], 1e-12) for k in a)


def norm_points(pts):
    out = []
    for p in pts:
        out.append(p)
    return out


def points_equal(a, b, rtol):
    """ask answers: exact when rtol == 0, else coordinates to rtol; structure must agree."""
    if len(a) != len(b):
        return False
    for p, q in zip(a, b):
        if not _pt_eq(p, q, rtol):
            return False
    return True


def _pt_eq(p, q, rtol):
    if isinstance(p, (tuple, list)) and isinstance(q, (tuple, list)):
        return len(p) == len(q) and all(_pt_eq(x, y, rtol) for x, y in zip(p, q))
    if isinstance(p, (int, np.integer)) and isinstance(q, (int, np.integer)):
        return int(p) == int(q)
    try:
        return same_val(p, q) if rtol == 0 else close_val(p, q, rtol)
    except (TypeError, ValueError):
        return p == q


def l2d_trusted_prefix(cfg, stacks, pts):
    """How many leading suggestions come out of the stacks that were part of the pickled state."""
    left = list(stacks)
    n = 0
    for p in pts:
        i = p[0] if cfg.get("wrap") == "balancing" else 0
        if left[i] <= 0:
            break
        left[i] -= 1
        n += 1
    return n


def demands(cfg, mech):
    """What the property demands of this (learner, mechanism): (loss: None|'exact'|'close', ask: likewise)."""
    kind = cfg["kind"]
    if mech in ("pickle", "cloudpickle"):
        # IntegratorLearner.loss() sums over a set of interval objects (iteration order = object ids, which
        # differ between any two processes/copies): equal up to the rounding of that sum
        return ("close" if kind == "int" else "exact"), (None if kind == "avg1d" else "exact")
    # file / copy_from: only for learners whose state is a function of their data
    if kind == "l1d" and cfg["factor"] != 1:
        return None, None
    if kind == "l2d":
        return None, None               # not in the property's list (its stack of cached suggestions is not data)
    if cfg.get("wrap") == "balancing" and cfg.get("strategy") == "cycle":
        return "close", None            # the position in the cycle is not a function of the data
    return "close", (None if kind == "avg1d" else "close")


def restore(l, cfg, mech, workdir, tag):
    """Produce a restored copy through one mechanism."""
    if mech == "pickle":
        try:
            return pickle.loads(pickle.dumps(l))
        except (AttributeError, pickle.PicklingError) as e:
            # Learner1D.__getstate__ hands loss_per_interval to the pickler as it is; the shipped
            # curvature_loss_function() / resolution_loss_function() return local closures, which the
            # standard pickler cannot serialise by design (cloudpickle can): no restored learner exists,
            # the property says nothing.  Counted, see the final report of the builder.
            if "local object" in str(e) and cfg.get("loss") in ("curvature", "resolution"):
                return None
            raise
    if mech == "cloudpickle":
        return cloudpickle.loads(cloudpickle.dumps(l))
    c = l.new()
    set_factor(c, cfg)
    if mech == "copy_from":
        c.copy_from(l)
        return c
    compress = mech == "save_gz"
    if cfg.get("wrap") == "balancing":
        names = [str(workdir / f"{tag}_{mech}_{i}.pickle") for i in range(len(l.learners))]
        l.save(names, compress=compress)
        c.load(names, compress=compress)
    else:
        name = str(workdir / f"{tag}_{mech}.pickle")
        l.save(name, compress=compress)
        c.load(name, compress=compress)
    return c


def name_of(cfg):
    base = {"l1d": "Learner1D", "lnd2": "LearnerND(2D)", "lnd3": "LearnerND(3D)", "l2d": "Learner2D",
            "avg": "AverageLearner", "avg1d": "AverageLearner1D", "seq": "SequenceLearner",
            "int": "IntegratorLearner"}[cfg["kind"]]
    w = cfg.get("wrap")
    return base if not w else {"balancing": "BalancingLearner", "datasaver": "DataSaver"}[w] + "[" + base + "]"


def check_case(chk, cfg, seed, stats, workdir, tag):
    """One history, all mechanisms.  Returns True if the history was usable."""
    l, l2 = make(cfg), make(cfg)
    try:
        info = {}
        hist = drive(l, cfg, random.Random(seed), info)
        # copy_from may hand the original's containers to the copy (IntegratorLearner, AverageLearner,
        # Learner2D return them from _get_data as they are); an identical twin of the original, built by
        # replaying the same history, keeps "what the copy suggests" apart from "what happens to two
        # learners that share containers", about which the property says nothing
        drive(l2, cfg, random.Random(seed))
    except Exception as e:        # internal errors of ask/tell under out-of-order delivery belong to C04/C07 (F1, F5, F12)
        key = f"{name_of(cfg)}:{type(e).__name__}"
        stats["skipped_other_finding"][key] = stats["skipped_other_finding"].get(key, 0) + 1
        return False
    if l.npoints == 0:
        return False
    if outstanding(l, cfg):
        stats["skipped_pending"] += 1
        return False
    name = name_of(cfg)
    replay = {"cfg": cfg, "seed": seed}
    missing_end = cfg["kind"] == "l1d" and any(
        b not in k.data for k in (l.learners if cfg.get("wrap") == "balancing" else [base_of(l, cfg)]) for b in k.bounds)
    stats["l1d_histories_lacking_an_end_point"] = stats.get("l1d_histories_lacking_an_end_point", 0) + missing_end
    if cfg["kind"] == "avg1d":
        kk = l.learners if cfg.get("wrap") == "balancing" else [base_of(l, cfg)]
        stats["avg1d_histories_with_a_two_sample_location"] = stats.get("avg1d_histories_with_a_two_sample_location", 0) + \
            any(len(sm) == 2 for k in kk for sm in k._data_samples.values())
    stats["l2d_histories_with_corner_hole"] = stats.get("l2d_histories_with_corner_hole", 0) + bool(cfg.get("corner_hole"))
    stats["histories_with_discard"] = stats.get("histories_with_discard", 0) + (info["discards"] > 0)
    stats["histories_with_unsolicited_tell"] = stats.get("histories_with_unsolicited_tell", 0) + (info["unsolicited"] > 0)
    stats["tentative_asks"] = stats.get("tentative_asks", 0) + info["tentative"]
    stats["histories_ending_with_tentative_ask"] = stats.get("histories_ending_with_tentative_ask", 0) + (info["trailing_tentative"] > 0)
    stats["histories_last_commit_batch"] = stats.get("histories_last_commit_batch", 0) + (info["last_commit_n"] > 1)
    twin_ok = same_val(data_of(l, cfg), data_of(l2, cfg))
    stats["twin_not_identical"] += not twin_ok
    copies, origin = {}, {}
    for mech in MECHS:
        src = l2 if (mech == "copy_from" and twin_ok) else l
        try:
            c = restore(src, cfg, mech, workdir, tag)
            if c is None:
                stats["pickle_closure_loss_not_picklable"] += 1
            else:
                copies[mech] = c
                origin[mech] = src
        except Exception as e:
            chk.fail(f"C13:{name}:{mech} raises", f"{name} {cfg}: {mech} round trip raised {type(e).__name__}: {str(e)[:200]}",
                     dict(replay, mech=mech))
            return True
    d0, m0 = data_of(l, cfg), means_of(l, cfg)
    loss0 = float(l.loss())
    # data first (asks below mutate the learners)
    for mech, c in copies.items():
        stats["roundtrips"] += 1
        d0, m0 = data_of(origin[mech], cfg), means_of(origin[mech], cfg)
        loss0 = float(origin[mech].loss())
        d1 = data_of(c, cfg)
        if not same_val(d0, d1):
            what = _first_diff(d0, d1)
            chk.fail(f"C13:{name}:{mech} data differs", f"{name} {cfg} after {len(hist)} results: {mech}: {what}", dict(replay, mech=mech))
            return True
        if not means_close(m0, means_of(c, cfg)):
            chk.fail(f"C13:{name}:{mech} data differs", f"{name} {cfg}: {mech}: mean values differ beyond rounding", dict(replay, mech=mech))
            return True
        if c.npoints != l.npoints:
            chk.fail(f"C13:{name}:{mech} data differs", f"{name} {cfg}: {mech}: npoints {c.npoints} vs {l.npoints}", dict(replay, mech=mech))
            return True
        want_loss, _ = demands(cfg, mech)
        if want_loss:
            loss1 = float(c.loss())
            ok = same_val(loss0, loss1) if want_loss == "exact" else close_val(loss0, loss1, LOSS_RTOL)
            stats["loss_compared"] += 1
            if not ok and missing_end and mech not in ("pickle", "cloudpickle"):
                chk.fail(SIG_XSCALE, f"{name} {cfg} after {len(hist)} results: {mech}: loss() {loss1!r} vs original {loss0!r}",
                         dict(replay, mech=mech))
                continue
            if not ok:
                chk.fail(f"C13:{name}:{mech} loss differs", f"{name} {cfg} after {len(hist)} results: {mech}: loss() {loss1!r} vs original {loss0!r}",
                         dict(replay, mech=mech))
                return True
    # the next ten suggestions; the copy made by copy_from answers first (it may share containers with
    # its own original, the twin, which is not used any more)
    def ask10(x):
        try:
            if cfg.get("wrap") == "balancing" and cfg["kind"] == "int":
                return [k.ask(10) for k in x.learners]
            return x.ask(10)
        except RuntimeError as e:
            if "No way to improve" not in str(e):
                raise
            return None
        except Exception as e:       # an internal error of ask (other properties' findings): the copy must behave alike
            stats["ask_raises"] += 1
            return ([("raised", type(e).__name__)], [0.0])

    l2d_stacks = None
    if cfg["kind"] == "l2d":
        kids2 = l.learners if cfg.get("wrap") == "balancing" else [base_of(l, cfg)]
        l2d_stacks = [len(k._stack) for k in kids2]
        # F6 (C10): a Learner2D whose cached combined interpolator is stale reports loss(real=False) != loss()
        # with nothing pending; BalancingLearner then ranks its children differently from a fresh copy
        if cfg.get("wrap") == "balancing" and any(not k.pending_points and not same_val(float(k.loss(real=False)), float(k.loss()))
                                                  for k in kids2):
            stats["l2d_skipped_stale_ip_combined_F6"] = stats.get("l2d_skipped_stale_ip_combined_F6", 0) + 1
            return True
    answers = {}
    if "copy_from" in copies and twin_ok:
        answers["copy_from"] = ask10(copies["copy_from"])
    a0 = ask10(l)
    for mech, c in copies.items():
        _, want_ask = demands(cfg, mech)
        if not want_ask:
            continue
        if mech == "copy_from" and not twin_ok:
            continue
        a1 = answers[mech] if mech in answers else ask10(c)
        stats["asks_compared"] += 1
        if (a0 is None) != (a1 is None):
            ok = False
        elif a0 is None:
            ok = True
        else:
            rt = 0 if want_ask == "exact" else ASK_RTOL
            pairs = list(zip(a0, a1)) if isinstance(a0, list) else [(a0, a1)]
            if cfg["kind"] == "l2d" and not isinstance(a0, list):
                # Learner2D: only the suggestions served from the pickled stack are a function of the pickled
                # state.  Beyond it _fill_stack triangulates data + pending_points, a SET whose iteration order
                # differs between original and copy (the reason the property exempts AverageLearner1D), and
                # exactly tied triangles (uniform loss, symmetric data) are then served in a different order.
                n_ok = l2d_trusted_prefix(cfg, l2d_stacks, a0[0])
                stats["l2d_prefix_compared"] = stats.get("l2d_prefix_compared", 0) + n_ok
                a0p, a1p = (list(a0[0])[:n_ok], []), (list(a1[0])[:n_ok], [])
                pairs = [(a0p, a1p)]
            ok = all((x is None) == (y is None) and (x is None or (
                points_equal(list(x[0]), list(y[0]), rt) and
                # "suggestions" are the points; the promised improvements are only sanity-checked, and not at all
                # for Learner2D (they come out of an iterative gradient estimate and, with pending points, of an
                # interpolation over a set: observed to differ in the third digit for identical points)
                (close_val(x[1], y[1], 1e-6) if cfg["kind"] != "l2d" and _numeric(x[1]) and _numeric(y[1]) else True)))
                for x, y in pairs)
        if not ok and cfg.get("strategy") == "cycle" and cfg.get("wrap") == "balancing" and a0 and a1 \
                and not isinstance(a0, list) and [p[0] for p in a0[0]] != [p[0] for p in a1[0]]:
            kids_o, kids_c = [p[0] for p in a0[0]], [p[0] for p in a1[0]]
            if mech in ("pickle", "cloudpickle") and info["trailing_tentative"]:
                chk.fail(SIG_CYCLE_TENTATIVE,
                         f"{name} {cfg} after {len(hist)} results, the last {info['trailing_tentative']} operation(s) before "
                         f"the snapshot being ask(n, tell_pending=False): {mech}: the original continues with children "
                         f"{kids_o}, the restored copy with {kids_c}", dict(replay, mech=mech))
                continue
            if kids_c == [i % len(l.learners) for i in range(len(kids_c))]:
                chk.fail(SIG_CYCLE, f"{name} {cfg} after {len(hist)} results: {mech}: the original continues with children "
                                    f"{kids_o}, the restored copy with {kids_c}", dict(replay, mech=mech))
                continue
        if not ok and missing_end and mech not in ("pickle", "cloudpickle"):
            chk.fail(SIG_XSCALE, f"{name} {cfg} after {len(hist)} results: {mech}: ask(10) = {_short(a1)} vs original {_short(a0)}",
                     dict(replay, mech=mech))
            continue
        if not ok:
            chk.fail(f"C13:{name}:{mech} next suggestions differ",
                     f"{name} {cfg} after {len(hist)} results: {mech}: ask(10) = {_short(a1)} vs original {_short(a0)}", dict(replay, mech=mech))
            return True
    return True


def _numeric(v):
    try:
        np.asarray(v, dtype=float)
        return True
    except (TypeError, ValueError):
        return False


def _short(a):
    return repr(a)[:300]


def _first_diff(a, b, path=""):
    if isinstance(a, dict) and isinstance(b, dict):
        if set(a) != set(b):
            return f"{path}: keys differ: missing {list(set(a) - set(b))[:3]}, extra {list(set(b) - set(a))[:3]} ({len(a)} vs {len(b)} entries)"
        for k in a:
            if not same_val(a[k], b[k]):
                return _first_diff(a[k], b[k], f"{path}[{k!r}]")
    if isinstance(a, (list, tuple)) and isinstance(b, (list, tuple)):
        if len(a) != len(b):
            return f"{path}: {len(a)} vs {len(b)} entries"
        for i, (x, y) in enumerate(zip(a, b)):
            if not same_val(x, y):
                return _first_diff(x, y, f"{path}[{i}]")
    return f"{path}: {repr(a)[:120]} vs {repr(b)[:120]}"


# ------------------------------------------------------------------ continued run of pickled Learner1D copies
# "A pickled copy ... makes the same later suggestions as the original": besides the asks made directly on the
# restored copy, original and copy are told the same further results and must keep agreeing.  This is demanded
# only in the regime where the unchanged code is deterministic: both end points evaluated and every further value
# inside the current y bounding box, so that _scale does not change and neither learner can reach its recompute
# threshold (the original has _scale <= factor * _oldscale after every tell, the copy _oldscale = _scale).
def continued_cfg(rng, wrap):
    cfg = {"kind": "l1d", "continued": True, "vecf": rng.random() < 0.3, "a": rng.choice([0.9, 1.3, 1.7, 1.9]),
           "pos": rng.choice([0.3, -0.45, 0.62, 0.05]), "w": rng.choice([0.02, 0.01, 0.04]),
           "loss": rng.choice(["default", "default", "triangle"]), "n": rng.randint(20, 45), "wrap": wrap}
    if wrap == "balancing":
        cfg["strategy"] = rng.choice(["loss_improvements", "npoints", "cycle"])
        cfg["poss"] = [cfg["pos"], -cfg["pos"]]
    return cfg


def continued_make(cfg):
    import adaptive
    from adaptive.learner import learner1D as m1

    def one(pos):
        f = functools.partial(g1_ramp_peak_vec if cfg["vecf"] else g1_ramp_peak, a=cfg["a"], pos=pos, w=cfg["w"])
        if cfg["wrap"] == "datasaver":
            f = WithExtra(f)
        loss = None if cfg["loss"] == "default" else m1.triangle_loss
        return adaptive.Learner1D(f, (-1.0, 1.0), loss_per_interval=loss)      # default _recompute_losses_factor = 2

    if cfg["wrap"] == "balancing":
        return adaptive.BalancingLearner([one(p) for p in cfg["poss"]], strategy=cfg["strategy"])
    if cfg["wrap"] == "datasaver":
        return adaptive.DataSaver(one(cfg["pos"]), arg_picker=operator.itemgetter("y"))
    return one(cfg["pos"])


def l1d_children(l, cfg):
    return list(l.learners) if cfg["wrap"] == "balancing" else [l.learner if cfg["wrap"] == "datasaver" else l]


def stale_intervals(k):
    """number of stored interval losses that differ from the loss function at the current scale"""
    return sum(1 for (a, b), v in k.losses.items() if not same_val(float(k._get_loss_in_interval(a, b)), float(v)))


def inside_box(k, y):
    lo, hi = k._bbox[1]
    return bool(np.all(np.asarray(y) >= np.asarray(lo)) and np.all(np.asarray(y) <= np.asarray(hi)))


def continued_build(cfg, seed):
    """The history up to the moment of pickling (deterministic in the seed)."""
    rng = random.Random(seed)
    l = continued_make(cfg)
    f = l.function
    first = True
    while l.npoints < cfg["n"] * (2 if cfg["wrap"] == "balancing" else 1):
        pts, _ = l.ask(2 * len(l1d_children(l, cfg)) if first else rng.randint(1, 6))    # first round: the end points
        first = False
        pts = list(pts)
        rng.shuffle(pts)
        for p in pts:
            l.tell(p, f(p))
    return l


def continued_case(chk, cfg, seed, stats):
    name = name_of(cfg)
    replay = {"cfg": cfg, "seed": seed}
    for mi, mech in enumerate(("pickle", "cloudpickle")):
        o = continued_build(cfg, seed)           # the genuine original, one per mechanism (the run goes on in place)
        kids = l1d_children(o, cfg)
        stale = sum(stale_intervals(k) for k in kids)
        if mi == 0:
            stats["continued_cases"] += 1
            stats["continued_with_stale_losses"] += stale > 0
        ser = pickle if mech == "pickle" else cloudpickle
        c = ser.loads(ser.dumps(o))
        r2 = random.Random(seed + 1)
        for step in range(8):
            cand = list(o.ask(3, tell_pending=False)[0])
            kk = l1d_children(o, cfg)
            pick = None
            for p in cand + [_mid(o, cfg, r2) for _ in range(4)]:
                if p is None:
                    continue
                child = kk[p[0]] if cfg["wrap"] == "balancing" else kk[0]
                x = p[1] if cfg["wrap"] == "balancing" else p
                if x in child.data:
                    continue
                y = o.function(p)
                yy = y["y"] if isinstance(y, dict) else y
                if inside_box(child, yy):
                    pick = (p, y)
                    break
            if pick is None:
                break
            for lr in (o, c):
                lr.tell(*pick)
            stats["continued_steps"] += 1
            lo_, lc_ = float(o.loss()), float(c.loss())
            ao = [o.ask(n, tell_pending=False) for n in (1, 5)]
            ac = [c.ask(n, tell_pending=False) for n in (1, 5)]
            ok_loss = same_val(lo_, lc_)
            ok_ask = all(points_equal(list(x[0]), list(y[0]), 0) and close_val(x[1], y[1], 0) for x, y in zip(ao, ac))
            if not (ok_loss and ok_ask):
                what = f"loss() {lc_!r} vs original {lo_!r}" if not ok_loss else f"ask = {_short(ac)} vs original {_short(ao)}"
                chk.fail(f"C13:{name}:{mech} continued run differs",
                         f"{name} {cfg}: {sum(k.npoints for k in kids)} results ({stale} stale interval losses at pickling time), "
                         f"{mech}, then the same {step + 1} further result(s) told to original and copy (all inside the y bounding "
                         f"box, so no rescale): {what}", dict(replay, mech=mech, steps=step + 1))
                return


def cfg_plain(cfg):
    return {"kind": "l1d", "wrap": cfg["wrap"]}


def _mid(l, cfg, rng):
    kk = l1d_children(l, cfg)
    i = rng.randrange(len(kk))
    xs = sorted(kk[i].data)
    if len(xs) < 2:
        return None
    j = rng.randrange(len(xs) - 1)
    x = xs[j] + (xs[j + 1] - xs[j]) * rng.choice([0.5, 0.25, 0.75])
    return (i, x) if cfg["wrap"] == "balancing" else x


def learner2d_usable():
    import adaptive
    try:
        l = adaptive.Learner2D(functools.partial(gn_smooth, a=1.0), ((-1.0, 1.0), (-1.0, 1.0)))
        for _ in range(4):
            pts, _ = l.ask(3)
            for p in pts:
                l.tell(p, l.function(p))
        l.loss()
        return True, ""
    except Exception as e:
        return False, f"{type(e).__name__}: {str(e)[:160]}"


def plan(chk):
    """(cfg, seed) list: every base learner, BalancingLearner over each, DataSaver over each."""
    quick = chk.quick
    per = {"l1d": (80, 25, 25), "lnd2": (24, 10, 10), "lnd3": (8, 4, 4), "avg": (20, 8, 8), "avg1d": (16, 8, 8),
           "seq": (20, 8, 8), "int": (30, 10, 10)} if quick else \
          {"l1d": (900, 180, 180), "lnd2": (240, 75, 75), "lnd3": (90, 30, 30), "avg": (180, 60, 60),
           "avg1d": (180, 60, 60), "seq": (180, 60, 60), "int": (240, 75, 75)}
    kinds = list(BASE_KINDS)
    ok2d, why = learner2d_usable()
    if ok2d:
        kinds.append("l2d")
        per["l2d"] = per["lnd2"]
    out = []
    for kind in kinds:
        for wi, wrap in enumerate([None, "balancing", "datasaver"]):
            for k in range(per[kind][wi]):
                rng = chk.rng("cfg", kind, wrap, k)
                cfg = gen_cfg(rng, kind, quick)
                if wrap == "balancing":
                    cfg["wrap"] = "balancing"
                    cfg["scales"] = rng.choice([[1.0, 0.5], [1.0, 2.0, -1.0], [1.0]])
                    cfg["strategy"] = rng.choice(["loss_improvements", "loss", "npoints", "cycle"]) if not kind.startswith("lnd") \
                        else rng.choice(["loss_improvements", "loss_improvements", "cycle", "npoints"])
                    # (strategy 'loss' / 'npoints' ask a LearnerND child with tell_pending=True and then call
                    #  tell_pending again: ValueError "Point already in triangulation" -- another property's business)
                    cfg["n"] = min(cfg["n"] * len(cfg["scales"]), 60 if kind != "int" else 200)
                    if kind == "seq":
                        cfg["ntotal"] = cfg["n"] + 25        # a BalancingLearner cannot ask an exhausted child
                elif wrap == "datasaver":
                    cfg["wrap"] = "datasaver"
                out.append((cfg, chk.rng("hist", kind, wrap, k).randrange(2 ** 31)))
    return out, ok2d, why


def run(chk: Check) -> int:
    chk.prove(["theories/Props/C13.vo"], THEOREMS)
    stats = {"roundtrips": 0, "loss_compared": 0, "asks_compared": 0, "skipped_pending": 0,
             "pickle_closure_loss_not_picklable": 0, "twin_not_identical": 0, "ask_raises": 0, "skipped_other_finding": {}, "usable": {}, "histories": 0,
             "continued_cases": 0, "continued_with_stale_losses": 0, "continued_steps": 0}
    cases, ok2d, why = plan(chk)
    if not ok2d:
        chk.fail(SIG_F7, f"Learner2D cannot be driven past its corner points on this platform ({why}); "
                         f"its round trips are therefore not checked", {"cfg": {"kind": "l2d"}, "why": why})
    import warnings
    warnings.filterwarnings("ignore")
    for i, (cfg, seed) in enumerate(cases):
        for attempt in range(5):          # a history that runs into another property's finding is replaced
            usable = check_case(chk, cfg, seed + attempt, stats, chk.work, f"c{i}")
            if usable:
                seed += attempt
                break
        stats["histories"] += 1
        nm = name_of(cfg)
        stats["usable"][nm] = stats["usable"].get(nm, 0) + bool(usable)
        chk.note_case((cfg, seed), usable and cfg["n"] >= 5)
        if usable and i % 37 == 0:
            chk.sample({"learner": nm, "cfg": {k: v for k, v in cfg.items() if k != "kind"}, "mechanisms": MECHS})
        if sum(1 for f in chk.failures if f["signature"] not in (SIG_F7, SIG_CYCLE, SIG_CYCLE_TENTATIVE, SIG_XSCALE)) > 40:
            break
    # continued run of pickled Learner1D copies (and wrappers around Learner1D), default factor 2
    for wrap, count in ((None, 40 if chk.quick else 400), ("balancing", 10 if chk.quick else 80), ("datasaver", 10 if chk.quick else 80)):
        for k in range(count):
            rng = chk.rng("continued", wrap, k)
            cfg = continued_cfg(rng, wrap)
            seed = rng.randrange(2 ** 31)
            continued_case(chk, cfg, seed, stats)
            chk.note_case(("continued", cfg, seed), True)
            if sum(1 for f in chk.failures if "continued run" in f["signature"]) > 10:
                break
    if stats["continued_cases"] and stats["continued_with_stale_losses"] * 2 < stats["continued_cases"]:
        chk.broke("machinery", "continued-run histories rarely carry stale interval losses at pickling time",
                  {k: stats[k] for k in ("continued_cases", "continued_with_stale_losses")})
    for nm, n in stats["usable"].items():
        if n == 0:
            chk.broke("machinery", f"no usable history for {nm}", stats["skipped_other_finding"])
    for f in chk.work.glob("c*_save_*.pickle"):
        f.unlink()
    sigs = {}
    for f in chk.failures:
        sigs[f["signature"]] = sigs.get(f["signature"], 0) + 1
    chk.extra.update({"feature_counts": {k: v for k, v in stats.items()}, "exhaustive": False, "failure_signatures": sigs,
                      "partial": ["C13_l1d: state (loss tables, suggestions) of a restored Learner1D is decided by the oracle, "
                                  "the theorem covers the data dictionary"]})
    chk.log(f"{stats['histories']} histories, {stats['roundtrips']} round trips, loss compared {stats['loss_compared']}, "
            f"asks compared {stats['asks_compared']}, skipped {stats['skipped_other_finding']}; failures {len(chk.failures)}")
    return chk.finish(
        rule="for each learner type that runs here (Learner1D scalar/vector with 5 shipped losses and factor 1 or 2, LearnerND 2D/3D "
             "scalar/vector, AverageLearner, AverageLearner1D, SequenceLearner, IntegratorLearner) and for BalancingLearner "
             "(1-3 children, 4 strategies) and DataSaver around each: an ask-driven history with out-of-order delivery that ends "
             "with nothing pending -- committing asks of 1..5 points, non-committing asks ask(n, tell_pending=False) in between, a "
             "closing committing batch ask (n > 1) fully delivered and, in ~40 % of the histories, one or two non-committing asks "
             "as the last operations before the snapshot (counted) --, then save/load gzip and raw into new(), pickle, cloudpickle, new().copy_from(); data compared "
             "exactly (arrays elementwise, extra_data, per-child data), loss() exactly for pickles and to 1e-12 for file/copy_from "
             "where the state is a function of the data, next ten suggestions exactly for pickles / to 1e-10 otherwise "
             "(AverageLearner1D exempt); continued run: Learner1D with the default factor 2 (and BalancingLearner / DataSaver "
             "around it) on a ramp with a late narrow peak (so that stale interval losses exist at pickling time, counted), "
             "pickled, then original and copy are told the same further results whose values lie inside the y bounding box "
             "(no rescale possible) and loss() and ask(1), ask(5) must stay identical after every tell; histories that hit an internal error of another property's finding (F1, F5, F12) are "
             "skipped and counted; non-trivial = usable history with at least 5 results",
        assumptions=["cloudpickle / gzip / the file system round-trip Python values faithfully (trusted)",
                     "Learner1D restored state beyond the data dictionary: oracle only (C13_l1d `_partial`)"])


def replay(doc) -> int:
    import warnings
    from pathlib import Path
    warnings.filterwarnings("ignore")
    bad = 0
    work = Path("/verif/work/C13")
    work.mkdir(parents=True, exist_ok=True)

    class Sink:
        def __init__(self):
            self.failures = []

        def fail(self, sig, what, rp):
            self.failures.append((sig, what))

    for f in doc.get("failing_inputs", []):
        r = f.get("replay") or {}
        cfg = r.get("cfg", {})
        if cfg.get("kind") == "l2d" and "seed" not in r:
            ok, why = learner2d_usable()
            print("replayed Learner2D usability ->", "usable" if ok else why)
            bad += not ok
            continue
        if "bounds" in cfg:
            cfg["bounds"] = tuple(cfg["bounds"])
        if cfg.get("continued"):
            sink = Sink()
            st = {"continued_cases": 0, "continued_with_stale_losses": 0, "continued_steps": 0}
            continued_case(sink, cfg, r["seed"], st)
            print("replayed continued run", name_of(cfg), cfg, st, "->", sink.failures[:1] or "oracle silent")
            bad += bool(sink.failures)
            continue
        sink = Sink()
        stats = {"roundtrips": 0, "loss_compared": 0, "asks_compared": 0, "skipped_pending": 0,
                 "pickle_closure_loss_not_picklable": 0, "twin_not_identical": 0, "ask_raises": 0, "skipped_other_finding": {}}
        check_case(sink, cfg, r["seed"], stats, work, "replay")
        print("replayed", name_of(cfg), cfg, "->", sink.failures[:1] or "oracle silent")
        bad += bool(sink.failures)
    return 1 if bad else 0
