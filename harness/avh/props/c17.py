"""C17 -- SequenceLearner: every element handed out once, in order; results in order.

proof          : coq/theories/Props/C17.v (model Model/Seq.v)
correspondence : seeded histories on the real SequenceLearner vs the model (vm_compute in Coq)
search         : from-scratch oracle of the property text on the real class
"""
from __future__ import annotations

import itertools
import json

import numpy as np

from .. import coqio as C
from ..core import Check

THEOREMS = {n: "Props.C17" for n in [
    "C17_partition_inv", "C17_ask_increasing_prefix", "C17_short_only_at_end", "C17_once",
    "C17_done_iff_all", "C17_loss_fraction", "C17_result_in_order"]}

PREAMBLE = """From Coq Require Import ZArith PrimFloat List. Import ListNotations.
From AV Require Import Base.Prelude Base.FloatUtil Model.Seq Run.SeqRun.
Open Scope nat_scope."""


def make_sequence(kind: str, n: int):
    if kind == "int":
        return list(range(100, 100 + n))
    if kind == "list":
        return [[i, i + 1] for i in range(n)]
    if kind == "dict":
        return [{"k": i} for i in range(n)]
    if kind == "array":
        return [np.array([i, 2.0 * i]) for i in range(n)]
    if kind == "tuple":
        return tuple((i, str(i)) for i in range(n))
    if kind == "nparray":
        return np.arange(n * 2).reshape(n, 2) if n else np.zeros((0, 2))
    raise ValueError(kind)


KINDS = ["int", "list", "dict", "array", "tuple", "nparray"]


def same_elem(a, b):
    try:
        return bool(np.all(np.asarray(a == b)))
    except Exception:
        return a is b


def gen_history(rng, n, maxlen):
    """Abstract history; concrete indices are chosen while driving the learner."""
    h = []
    L = rng.randint(1, maxlen)
    for _ in range(L):
        r = rng.random()
        if r < 0.30:
            h.append(("ask", rng.choice([0, 1, 1, 2, 3, 5, n, n + 2]), rng.random() < 0.8))
        elif r < 0.72:
            h.append(("tell", rng.choice(["pending", "pending", "pending_last", "todo", "known"])))
        elif r < 0.80:
            h.append(("tell_many", rng.randint(2, 4)))
        elif r < 0.90:
            h.append(("tell_pending", "todo_strict" if rng.random() < 0.93 else "known"))
        else:
            h.append(("remove_unfinished",))
    return h


def obs_of(l):
    try:
        res = [int(v) for v in l.result()]
    except Exception:
        res = None
    return {"data": [(int(k), int(v)) for k, v in l.data.items()],
            "pend": sorted(int(i) for i in l.pending_points),
            "npoints": int(l.npoints), "done": bool(l.done()),
            "loss_real": float(l.loss(real=True)), "loss_exp": float(l.loss(real=False)),
            "result": res}


def obs_term(o):
    return C.app("mkobs",
                 C.lst(C.pair(C.nat(k), C.Z(v)) for k, v in o["data"]),
                 C.lst(C.nat(i) for i in o["pend"]),
                 C.nat(o["npoints"]), C.bool_(o["done"]), C.flt(o["loss_real"]), C.flt(o["loss_exp"]),
                 C.opt(o["result"], lambda r: C.lst(C.Z(v) for v in r)))


def op_term(op):
    k = op[0]
    if k == "ask":
        return C.app("Ask", C.nat(op[1]), C.bool_(op[2]))
    if k == "tell":
        return C.app("Tell", C.nat(op[1]), C.Z(op[2]))
    if k == "tell_pending":
        return C.app("TellPending", C.nat(op[1]))
    return "RemoveUnfinished"


class Oracle:
    """The property text, from scratch, evaluated on what the real class returns."""

    def __init__(self, n, seq):
        self.n, self.seq = n, seq
        self.told, self.pending, self.handed = {}, set(), set()
        self.active = True
        self.errors = []

    def err(self, clause, msg):
        self.errors.append((clause, msg))

    def left(self):
        return [i for i in range(self.n) if i not in self.told and i not in self.pending]

    def on_ask(self, k, commit, ret):
        if not self.active:
            return
        pts, imps = ret
        idx = [p[0] for p in pts]
        exp = self.left()[:k]
        if idx != exp:
            self.err("ask_increasing_prefix", f"ask({k}) returned indices {idx}, expected {exp}")
        for (i, e) in pts:
            if not (0 <= i < self.n) or not same_elem(e, self.seq[i]):
                self.err("ask_element", f"ask returned ({i},{e!r}) which is not element {i}")
        if len(idx) < k and len(self.left()) >= k:
            self.err("short_only_at_end", f"ask({k}) returned {len(idx)} points with {len(self.left())} left")
        if self.n and any(abs(x - 1 / self.n) > 1e-15 for x in imps):
            self.err("ask_improvement", f"loss improvements {imps}")
        if commit:
            dup = self.handed & set(idx)
            if dup:
                self.err("once", f"indices {sorted(dup)} handed out twice without a discard in between")
            self.handed |= set(idx)
            self.pending |= set(idx)

    def on_tell(self, i, v):
        self.told[i] = v
        self.pending.discard(i)

    def on_tell_pending(self, i):
        if i in self.told:
            self.active = False     # outside the property's quantifier (legal)
        self.pending.add(i)

    def on_discard(self):
        self.pending = set()
        self.handed = set()

    def check_state(self, o):
        if not self.active:
            return
        n = self.n
        if dict(o["data"]) != self.told or [k for k, _ in o["data"]] != sorted(self.told):
            self.err("data", f"data {o['data']} != told {sorted(self.told.items())}")
        if o["pend"] != sorted(self.pending):
            self.err("pending", f"pending {o['pend']} != {sorted(self.pending)}")
        alld = len(self.told) == n
        if o["done"] != alld:
            self.err("done_iff_all", f"done()={o['done']} with {len(self.told)}/{n} results")
        lr = 0.0 if n == 0 else (n - len(self.told)) / n
        le = 0.0 if n == 0 else (n - len(self.told) - len(self.pending)) / n
        if o["loss_real"] != lr:
            self.err("loss_fraction", f"loss(real=True)={o['loss_real']} expected {lr}")
        if o["loss_exp"] != le:
            self.err("loss_fraction", f"loss(real=False)={o['loss_exp']} expected {le}")
        if alld and o["result"] != [self.told[i] for i in range(n)]:
            self.err("result_in_order", f"result()={o['result']}")
        if not alld and o["result"] is not None:
            self.err("result_in_order", "result() available before done")


def drive(n, kind, hist, rng, concrete=None):
    """Run the real learner.  `hist` is abstract (indices chosen here) unless
    `concrete` gives the op list.  Returns (ops, outs, obs, oracle)."""
    from adaptive import SequenceLearner
    seq = make_sequence(kind, n)
    l = SequenceLearner(lambda x: 0, seq)
    orc = Oracle(n, seq)
    steps = []     # (op, out_indices, obs or None)
    val = itertools.count(1000)

    def pick(which):
        told = sorted(l.data.keys())
        pend = sorted(l.pending_points)
        todo = [i for i in range(n) if i not in l.data and i not in l.pending_points]
        if which == "pending" and pend:
            return rng.choice(pend)
        if which == "pending_last" and pend:
            return pend[-1]
        if which == "known" and told:
            return rng.choice(told)
        if which == "todo_strict":
            return rng.choice(todo) if todo else (rng.choice(pend) if pend else None)
        if todo:
            return rng.choice(todo)
        if pend:
            return rng.choice(pend)
        if told:
            return rng.choice(told)
        return None

    class _Stop(Exception):
        pass

    def do(op, observe=True):
        out = []
        try:
            if op[0] == "ask":
                ret = l.ask(op[1], tell_pending=op[2])
                out = [int(p[0]) for p in ret[0]]
                orc.on_ask(op[1], op[2], ret)
            elif op[0] == "tell":
                l.tell((op[1], seq[op[1]]), op[2])
                orc.on_tell(op[1], op[2])
            elif op[0] == "tell_pending":
                l.tell_pending((op[1], seq[op[1]]))
                orc.on_tell_pending(op[1])
            else:
                l.remove_unfinished()
                orc.on_discard()
        except Exception as e:      # the learner failed on a legal operation: a failing input, not a driver error
            orc.err("internal_error", f"{op} raised {type(e).__name__}: {e}")
            steps.append((op, [], None))
            raise _Stop()
        o = obs_of(l) if observe else None
        if o is not None:
            orc.check_state(o)
        steps.append((op, out, o))

    if concrete is not None:
        try:
            for op in concrete:
                do(tuple(op))
        except _Stop:
            pass
        return steps, orc
    try:
        return _drive_abstract(hist, pick, do, l, seq, orc, steps, val)
    except _Stop:
        return steps, orc


def _drive_abstract(hist, pick, do, l, seq, orc, steps, val):
    for a in hist:
        if a[0] == "ask":
            do(a)
        elif a[0] == "tell":
            i = pick(a[1])
            if i is not None:
                do(("tell", i, next(val)))
        elif a[0] == "tell_many":
            idx = []
            for _ in range(a[1]):
                i = pick("pending")
                if i is not None and i not in idx:
                    idx.append(i)
            if idx:
                vals = [next(val) for _ in idx]
                try:
                    l.tell_many([(i, seq[i]) for i in idx], vals)
                except Exception as e:
                    orc.err("internal_error", f"tell_many({idx}) raised {type(e).__name__}: {e}")
                    steps.append((("tell", idx[0], vals[0]), [], None))
                    return steps, orc
                for j, (i, v) in enumerate(zip(idx, vals)):
                    orc.on_tell(i, v)
                    o = obs_of(l) if j == len(idx) - 1 else None
                    if o is not None:
                        orc.check_state(o)
                    steps.append((("tell", i, v), [], o))
        elif a[0] == "tell_pending":
            i = pick(a[1])
            if i is not None:
                do(("tell_pending", i))
        else:
            do(a)
    return steps, orc


def case_term(n, steps):
    return C.pair(C.nat(n), C.lst(
        (C.tup(op_term(op), C.lst(C.nat(i) for i in out), C.opt(o, obs_term)) for op, out, o in steps),
        sep=";\n  "))


def nontrivial(steps):
    ooo = disc = short = False
    pend = []
    for op, out, o in steps:
        if op[0] == "ask" and op[2]:
            pend += out
            if len(out) < op[1]:
                short = True
        elif op[0] == "tell":
            if pend and op[1] in pend and op[1] != min(pend):
                ooo = True
            if op[1] in pend:
                pend.remove(op[1])
        elif op[0] == "remove_unfinished":
            if pend:
                disc = True
            pend = []
    return ooo and (disc or short)


def run(chk: Check) -> int:
    chk.prove(["theories/Props/C17.vo", "theories/Run/SeqRun.vo"], THEOREMS)
    ncases = 300 if chk.quick else 3000
    maxlen = 30 if chk.quick else 120
    cases, metas = [], []
    hist_ops = {"ask": 0, "tell": 0, "tell_pending": 0, "remove_unfinished": 0}
    sizes = {}

    def add(n, kind, steps, orc, origin):
        cases.append(case_term(n, steps))
        metas.append({"n": n, "kind": kind, "ops": [list(s[0]) for s in steps], "origin": origin})
        chk.note_case((n, [s[0] for s in steps]), nontrivial(steps))
        for s in steps:
            hist_ops[s[0][0]] += 1
        b = f"len<={10 * (len(steps) // 10 + 1)}"
        sizes[b] = sizes.get(b, 0) + 1
        if len(steps) > 4:
            chk.sample({"n": n, "elements": kind, "ops": [list(s[0]) for s in steps][:12]})
        for clause, msg in orc.errors[:1]:
            chk.fail(f"C17:{clause}", f"SequenceLearner(n={n}, elements={kind}): {msg}",
                     {"n": n, "kind": kind, "ops": [list(s[0]) for s in steps]})

    # corpus first
    corpus = sorted((chk.work.parents[1] / "corpus" / "C17").glob("*.json"))
    for f in corpus:
        d = json.loads(f.read_text())
        steps, orc = drive(d["n"], d["kind"], None, chk.rng("corpus"), concrete=d["ops"])
        add(d["n"], d["kind"], steps, orc, f.name)
    for k in range(ncases):
        rng = chk.rng("case", k)
        n = rng.choice([0, 1, 2, 3, 4, 5, 7, 10, 16, 25, 40]) if chk.quick else rng.randint(0, 60)
        kind = rng.choice(KINDS)
        steps, orc = drive(n, kind, gen_history(rng, n, maxlen), rng)
        add(n, kind, steps, orc, f"seed{chk.seed}/{k}")
    exhaustive = 0
    if not chk.quick:
        # every completion order of <= 5 elements, with a discard + re-ask at every position
        for n in range(1, 6):
            for perm in itertools.permutations(range(n)):
                for cut in range(n + 1):
                    ops = [("ask", n, True)] + [("tell", i, 500 + i) for i in perm[:cut]] + \
                          [("remove_unfinished",), ("ask", n, True)] + [("tell", i, 600 + i) for i in perm[cut:]]
                    steps, orc = drive(n, "list", None, None, concrete=ops)
                    add(n, "list", steps, orc, "exhaustive")
                    exhaustive += 1
    mism, legal, errors = chk.coq_cases("cases", PREAMBLE, "case", cases, "check", "is_legal", shard=200 if chk.quick else 60)
    for e in errors:
        chk.broke("correspondence", "Model/Seq.v cases could not be evaluated", e)
    for c, s in mism[:5]:
        m = metas[c]
        chk.broke("correspondence", f"Model/Seq.v vs SequenceLearner: case {m['origin']} step {s}",
                  {"n": m["n"], "kind": m["kind"], "ops": m["ops"][:s + 1]})
    chk.extra.update({"op_histogram": hist_ops, "length_histogram": sizes,
                      "legal_histories_per_coq": legal, "cases_compared_in_coq": len(cases),
                      "mismatches": len(mism), "exhaustive_small_scope_cases": exhaustive,
                      "exhaustive": False})
    chk.log(f"correspondence: {len(cases)} cases, {len(mism)} mismatches, {legal} legal; oracle failures {len(chk.failures)}")
    return chk.finish(
        rule="histories generated by driving the real SequenceLearner (ask sizes 0..n+2, out-of-order / unsolicited / repeated tells, "
             "tell_many, tell_pending, discards; six element types); non-trivial = at least one out-of-order tell and (a discard with "
             "pending points or a short ask); distinct by op list",
        assumptions=["hand-written model Model/Seq.v tied to the code by the sampled correspondence only",
                     "values are integer tags; element types only matter on the Python side"])


def replay(doc) -> int:
    bad = 0
    for f in doc.get("failing_inputs", []) + [b for b in doc.get("no_longer_checks", []) if isinstance(b.get("detail"), dict)]:
        r = f.get("replay") or f.get("detail")
        steps, orc = drive(r["n"], r["kind"], None, None, concrete=r["ops"])
        print("replayed", r["n"], r["kind"], len(steps), "ops ->", orc.errors[:3] or "oracle silent")
        bad += bool(orc.errors)
    return 1 if bad else 0
