"""C02 -- Learner1D: ask places new points where they most reduce the worst loss.

proof          : coq/theories/Props/C02.v about `ask_points`/`ask` of Model/L1D.v, for every well-formed state and every n
                 (generic number structure with explicit laws; closed for exact rationals; greedy exchange lemma + refinement)
correspondence : Model/L1D.v executed with IEEE doubles vs the real Learner1D.ask, bit for bit (every returned point and
                 improvement), on ask-heavy histories: probe asks `ask(n, tell_pending=False)` after every state change
search         : from-scratch oracle on the real class written from the property text (count, distinct, in domain, fresh,
                 end points first, uniform grid on the empty learner, equal subdivision, improvements, optimality of the
                 allocation against brute force and an independent threshold search, pending set after a committing ask)
"""
from __future__ import annotations

import bisect
import itertools
import json
import math
import re
import warnings

from .. import impl_l1d as I
from ..core import Check

# --------------------------------------------------------------------------------------------------
# theorems of coq/theories/Props/C02.v (proofs in Proofs/L1DAskProofs.v); name -> logical path of the stating module
THEOREMS = {n: "Props.C02" for n in [
    "C02_greedy_minimises_max",            # abstract exchange lemma (DESIGN A.2)
    "C02_wf_executable", "C02_wf_from_structure",
    "C02_count", "C02_bounds_first", "C02_missing_spec", "C02_empty_uniform", "C02_empty_uniform_exact",
    "C02_equal_subdivision", "C02_intervals",
    "C02_loop_is_greedy",                  # refinement: ask_loop is the greedy process
    "C02_optimal",                         # under key_antitone
    "C02_fresh_distinct_in_domain",        # under LinLaws (exact arithmetic)
    "C02_commit_pending",
    "C02_laws_inhabited", "C02_xq_key_form", "C02_xq_optimal", "C02_xq_fresh_distinct_in_domain",   # closed for exact rationals
    "C02_example_ok", "C02_example_answer"]}
VO_TARGETS = ["theories/Props/C02.vo", "theories/Run/L1DRun.vo", "theories/Run/L1DAskRun.vo"]
# Coq-side: every state at which the case asks satisfies the hypothesis [wfb] of the theorems (non-vacuity measure)
LEGAL_FN = "wf_case"
PREAMBLE = I.PREAMBLE.replace("Run.L1DRun.", "Run.L1DRun Run.L1DAskRun.")
# --------------------------------------------------------------------------------------------------

INF = math.inf
NMAX = 25


# ================================================================== the oracle (independent of the Coq model)
def r12(x):
    """The implementation's rounding of a loss to 12 digits."""
    return int(x * 1e12 + 0.5) / 1e12


class Snap:
    """What the property may refer to: the learner's state just before the ask."""

    def __init__(self, l):
        self.lo, self.hi = float(l.bounds[0]), float(l.bounds[1])
        self.known = {float(x) for x in l.data}
        self.pend = {float(x) for x in l.pending_points}
        self.lc = dict(l.losses_combined)
        self.real = dict(l.losses)
        self.dx_eps = 2 * max(abs(self.lo), abs(self.hi)) * 2.0 ** -52
        self.missing = sorted(b for b in (self.lo, self.hi) if b not in self.known and b not in self.pend)
        self.P = sorted(self.known | self.pend | set(self.missing))
        self.N = len(self.P) - 1        # number of intervals (outer ones included while an end point is missing)

    def legal(self):
        return all(self.lo <= x <= self.hi for x in self.P)

    def interval_losses(self):
        """[(a, b, L)] with L = inf for unknown / outer intervals."""
        res = []
        for a, b in zip(self.P[:-1], self.P[1:]):
            outer = (a == self.lo and self.lo in self.missing) or (b == self.hi and self.hi in self.missing)
            res.append((a, b, INF if outer else float(self.lc.get((a, b), INF))))
        return res


def narrow(a, b, k):
    """Interval too narrow (relative to floating-point resolution) to be cut into k distinct parts."""
    return (b - a) <= 16 * k * max(math.ulp(a), math.ulp(b))


def key_fn(a, b, L, xscale):
    if math.isinf(L):
        w = (b - a) / xscale
        return lambda k: r12(w / k)
    return lambda k: r12(L / k)


def opt_threshold(keys, npts):
    """Smallest achievable max-key with npts interior points: threshold search (not a greedy)."""
    cands = sorted({kf(k) for kf in keys for k in range(1, npts + 2)})

    def feasible(T):
        used = 0
        for kf in keys:
            k = 1
            while kf(k) > T:
                k += 1
                used += 1
                if used > npts:
                    return False
        return True
    lo, hi = 0, len(cands) - 1          # the largest candidate (max key at k = 1) is always feasible
    while lo < hi:
        mid = (lo + hi) // 2
        if feasible(cands[mid]):
            hi = mid
        else:
            lo = mid + 1
    return cands[lo]


def opt_brute(keys, npts):
    """Exhaustive search over all allocations of npts points to len(keys) intervals."""
    N = len(keys)
    tab = [[kf(k) for k in range(1, npts + 2)] for kf in keys]
    best = INF
    for bars in itertools.combinations(range(npts + N - 1), N - 1):
        prev, cost = -1, 0.0
        for i, bpos in enumerate(bars + (npts + N - 1,)):
            m = bpos - prev - 1
            prev = bpos
            c = tab[i][m]
            if c > cost:
                cost = c
                if cost >= best:
                    break
        if cost < best:
            best = cost
    return best


def check_ask(s: Snap, n: int, pts, imps, info: dict):
    """Returns None or (clause, message) -- the first violated clause; the names of all violated clauses that could
    still be evaluated go to info["clauses"].  `info` also receives facts for the evidence."""
    errs = _check_ask(s, n, pts, imps, info)
    info["clauses"] = [c for c, _ in errs]
    return errs[0] if errs else None


def _check_ask(s: Snap, n: int, pts, imps, info: dict):
    errs = []
    lo, hi, nm = s.lo, s.hi, len(s.missing)
    taken = s.known | s.pend
    # ---- a. count
    if len(pts) != n or len(imps) != n:
        return errs + [("count", f"ask({n}) returned {len(pts)} points and {len(imps)} improvements")]
    if n == 0:
        return errs
    # ---- in the domain
    for p in pts:
        if not (lo <= p <= hi):
            return errs + [("in_domain", f"ask({n}) returned {p!r} outside [{lo}, {hi}]")]
    # ---- c. end points first
    if n <= nm:
        if list(pts) != s.missing[:n] or any(i != INF for i in imps):
            return errs + [("bounds_first", f"ask({n}) with missing end points {s.missing} returned {pts} / {imps}")]
        return errs
    if not taken:
        grid = [lo + (hi - lo) * i / (n - 1) for i in range(n)]
        ok = pts[0] == lo and pts[-1] == hi and all(abs(p - g) <= 1e-12 * (hi - lo) for p, g in zip(pts, grid)) \
            and all(p < q for p, q in zip(pts, pts[1:]))
        if not ok or any(i != INF for i in imps):
            return errs + [("empty_uniform", f"empty learner: ask({n}) returned {pts} / {imps[:4]}.. instead of the uniform grid")]
        return errs
    if list(pts[:nm]) != s.missing or any(i != INF for i in imps[:nm]):
        return errs + [("bounds_first", f"ask({n}): missing end points {s.missing} are not the prefix of {pts[:3]} (improvements {imps[:3]})")]
    ip, ii = list(pts[nm:]), list(imps[nm:])
    P = s.P
    K = n + 1

    def near_narrow(p):
        j = bisect.bisect_left(P, p)
        c = []
        if j < len(P) and P[j] == p:
            if j >= 1 and narrow(P[j - 1], P[j], K):
                c.append(j - 1)
            if j + 1 < len(P) and narrow(P[j], P[j + 1], K):
                c.append(j)
        elif 0 < j < len(P) and narrow(P[j - 1], P[j], K):
            c.append(j - 1)
        return c
    # ---- b. fresh, distinct (except below floating-point resolution)
    seen = set(s.missing)
    for p in ip:
        if p in taken:
            if near_narrow(p):
                info["resolution_exempt"] = True
            else:
                errs.append(("fresh", f"ask({n}) returned {p!r} which is already {'evaluated' if p in s.known else 'pending'}"))
        if p in seen:
            if near_narrow(p):
                info["resolution_exempt"] = True
            else:
                errs.append(("distinct", f"ask({n}) returned {p!r} twice: {pts}"))
        seen.add(p)
    # ---- d. equal subdivision: group the interior points by interval
    groups, used, cur = [], set(), None
    for p, im in zip(ip, ii):
        j = bisect.bisect_left(P, p)
        if j < len(P) and P[j] == p:
            cands = near_narrow(p)
        else:
            cands = [j - 1]
        if cur is not None and cur in cands:
            groups[-1][1].append(p)
            groups[-1][2].append(im)
            continue
        cands = [c for c in cands if c not in used]
        if not cands:
            return errs + [("equal_subdivision", f"ask({n}): points of one interval are not contiguous / not inside an interval: {pts}")]
        cur = cands[0]
        used.add(cur)
        groups.append((cur, [p], [im]))
    ivs = s.interval_losses()
    alloc = [1] * len(ivs)
    for idx, gp, gi in groups:
        a, b, L = ivs[idx]
        m = len(gp)
        k = m + 1
        alloc[idx] = k
        step = (b - a) / k
        exp = [a + step * i for i in range(1, k)]
        if gp != exp and not all(abs(p - e) <= 1e-12 * (b - a) for p, e in zip(gp, exp)):
            errs.append(("equal_subdivision", (f"ask({n}): interval ({a!r}, {b!r}) received {gp} instead of its {k} equal parts {exp}")))
        if any(x != gi[0] for x in gi):
            errs.append(("improvements", f"ask({n}): points {gp} of one interval carry different improvements {gi}"))
        if math.isnan(L):
            info["nan_loss"] = True
        elif math.isinf(L):
            if gi[0] != INF:
                errs.append(("improvements", f"ask({n}): interval ({a!r}, {b!r}) of unknown loss cut in {k}: improvement {gi[0]!r}, expected inf"))
        elif not abs(gi[0] - L / k) <= 1e-9 * abs(L / k):
            errs.append(("improvements", (f"ask({n}): interval ({a!r}, {b!r}) of loss {L!r} cut in {k}: improvement {gi[0]!r}, "
                                    f"expected {L / k!r}")))
    # ---- e. optimality of the allocation
    Ls = [L for _, _, L in ivs]
    if any(math.isnan(L) for L in Ls):
        info["nan_loss"] = True
        return errs
    if any(L < 0 for L in Ls):
        info["negative_loss"] = True
        return errs
    if any(1e290 < L < INF for L in Ls):
        info["huge_loss"] = True
        return errs
    xscale = hi - lo
    keys = [key_fn(a, b, L, xscale) for a, b, L in ivs]
    npts = n - nm
    cost = max(kf(k) for kf, k in zip(keys, alloc))
    opt = opt_threshold(keys, npts)
    info["threshold"] = True
    if len(ivs) <= 6 and npts <= 8:
        ob = opt_brute(keys, npts)
        info["brute"] = True
        if ob != opt:
            return errs + [("MACHINERY", f"oracle self-test: brute force optimum {ob!r} != threshold optimum {opt!r} ({ivs}, {npts})")]
    tol = 2e-12 + 1e-9 * opt
    if cost > opt + tol:
        return errs + [("optimal", (f"ask({n}): allocation {[(a, b, k) for (a, b, _), k in zip(ivs, alloc) if k > 1]} over intervals "
                           f"{ivs} leaves largest expected loss {cost!r}; {opt!r} is achievable"))]
    if cost < opt - tol:
        return errs + [("MACHINERY", f"oracle self-test: returned allocation cost {cost!r} below the computed optimum {opt!r}")]
    return errs


def check_after(s: Snap, l, commit, pts):
    if commit:
        want = s.pend | (set(pts) - s.known)
        if set(l.pending_points) != want or set(l.data) != s.known:
            return "pending_after_ask", (f"after ask(.., tell_pending=True) -> {pts}: pending {sorted(l.pending_points)} "
                                         f"!= previous {sorted(s.pend)} + returned points")
    else:
        if set(l.data) != s.known or set(l.pending_points) != s.pend or dict(l.losses_combined) != s.lc \
                or dict(l.losses) != s.real:
            return "probe_changed_state", "ask(.., tell_pending=False) changed data/pending_points/losses"
    return None


def ask_features(s: Snap, n, feats):
    """Count which situations of the property's quantifier this ask exercises."""
    nm = len(s.missing)
    empty = not s.known and not s.pend

    def hit(k):
        feats[k] = feats.get(k, 0) + 1
    if n == 0:
        hit("n_zero")
    elif n <= nm:
        hit("n_le_missing")
    if empty:
        hit("empty_n1" if n == 1 else "empty_n2" if n == 2 else "empty_n3_25" if n >= 3 else "empty_n0")
    if n > s.N:
        hit("n_gt_intervals")
    if nm == 1:
        other = s.hi if s.missing[0] == s.lo else s.lo
        if other in s.pend:
            hit("end_pending_other_missing")
        elif other in s.known:
            hit("end_known_other_missing")
    if not s.known and s.pend:
        hit("pending_only_no_data")
    mixed = False
    if n > nm and not empty and s.legal():
        ivs = s.interval_losses()
        xs = s.hi - s.lo
        try:
            k1 = [key_fn(a, b, L, xs)(1) for a, b, L in ivs]
        except (OverflowError, ValueError):
            k1 = []
        if len(set(k1)) < len(k1):
            hit("ties")
        inner_inf = [1 for a, b, L in ivs if math.isinf(L) and (a, b) in s.lc]
        if inner_inf:
            hit("infinite_loss_interval")
        if any(b - a < s.dx_eps for a, b, _ in ivs):
            hit("tiny_interval")
        if any((a, b) not in s.real and math.isfinite(L) for a, b, L in ivs):
            hit("pending_cuts_evaluated_interval")
        ninf = sum(math.isinf(L) for _, _, L in ivs)
        if len(ivs) >= 3 and 0 < ninf < len(ivs):
            mixed = True
            hit("mixed_finite_and_unknown")
    return mixed


# ================================================================== generation
def gen_cfg(rng):
    cfg = {"func": rng.choice(list(I.FUNCS)), "bounds": list(rng.choice(I.BOUNDS)),
           "loss": rng.choice(I.LOSSES + ["resolution_max"]), "factor": rng.choice([1, 2, 2])}
    return fix_cfg(cfg)


def fix_cfg(cfg):
    if cfg["loss"] == "abs_min_log" and cfg["func"] in ("step", "neg", "vec_step"):
        cfg["loss"] = "curvature"       # log of 0 / negative values: nan losses, outside the property
    return cfg


def scripted(rng, cfg):
    """A hand-made prefix producing one of the situations named by the property; returns (name, ops)."""
    lo, hi = cfg["bounds"]
    X = lambda t: float(lo + (hi - lo) * t)
    T = lambda x: ("tell", float(x), I.yval(cfg, float(x)))
    TP = lambda x: ("tell_pending", float(x))
    q = lambda: rng.randint(1, 15) / 16.0
    name = rng.choice(["pending_only", "end_pending_other_missing", "end_known_other_missing", "tiny", "uniform_ties",
                       "const_ties", "pending_outside", "cut", "batch", "remove_unfinished", "equal_width"])
    if name == "pending_only":
        ts = sorted({q() for _ in range(rng.randint(1, 4))})
        ops = [TP(X(t)) for t in ts]
        if rng.random() < 0.4:
            ops.append(TP(rng.choice([lo, hi])))
    elif name == "end_pending_other_missing":
        ops = [TP(rng.choice([lo, hi])), T(X(q()))]
        if rng.random() < 0.6:
            ops.append(T(X(q())))
    elif name == "end_known_other_missing":
        ops = [T(rng.choice([lo, hi])), T(X(q()))]
        if rng.random() < 0.5:
            ops.append(TP(X(q())))
    elif name == "tiny":
        x = X(q())
        x2 = math.nextafter(x, INF) if rng.random() < 0.7 else x + 0.5 * 2 * max(abs(lo), abs(hi)) * 2.0 ** -52
        ops = [T(lo), T(hi), T(x), T(x2)]
    elif name == "uniform_ties":
        cfg["loss"] = "uniform"
        m = rng.choice([2, 4, 8])
        ops = [T(X(i / m)) for i in range(m + 1)]
        rng.shuffle(ops)
    elif name == "const_ties":
        cfg["func"], cfg["loss"] = "const", rng.choice(["default", "triangle", "curvature"])
        ops = [T(lo), T(hi)] + [T(X(t)) for t in sorted({q() for _ in range(3)})]
    elif name == "pending_outside":
        ops = [T(X(0.4375)), T(X(0.625)), TP(X(0.125)), TP(X(0.875))]
        if rng.random() < 0.5:
            ops.append(T(X(0.5)))
    elif name == "cut":
        ops = [T(lo), T(hi), T(X(0.5)), TP(X(rng.choice([0.125, 0.2, 0.25]))), TP(X(0.3125))]
    elif name == "batch":
        ts = sorted({q() for _ in range(rng.randint(3, 5))})
        ops = [TP(lo), TP(hi), ("tell_many", [(X(t), I.yval(cfg, X(t))) for t in ts], rng.random() < 0.5 or len(ts) < 3)]
    elif name == "remove_unfinished":
        ops = [T(lo), T(hi), T(X(q())), ("ask", rng.randint(2, 6), True), ("remove_unfinished",)]
    else:       # equal_width: pending points cut an evaluated interval in equal parts (equal interpolated losses)
        ops = [T(lo), T(hi), TP(X(0.25)), TP(X(0.5)), TP(X(0.75))]
    return name, ops


def in_bounds(op, lo, hi):
    if op[0] in ("tell", "tell_pending"):
        return lo <= op[1] <= hi
    if op[0] == "tell_many":
        return all(lo <= x <= hi for x, _ in op[1])
    return True


def is_batch(l, op):
    return op[0] == "tell_many" and (op[2] or (len(op[1]) > 0.5 * len(l.data) and len(op[1]) > 2))


class CaseResult:
    def __init__(self):
        self.steps = []
        self.err = None             # (clause, message, index of the op)
        self.feats = {}
        self.nhist = {}
        self.Nhist = {}
        self.ophist = {}
        self.nontrivial = False
        self.asks = self.brute = self.threshold = 0
        self.clauses = {}           # every violated clause that could still be evaluated (not only the first)


class ProbePlan:
    """Which non-committing request sizes to insert after a state change."""

    def __init__(self, rng, per_state, all_n):
        self.rng, self.per_state, self.all_n = rng, per_state, all_n
        self.pool = []
        self.small = 0

    def draw(self):
        if not self.pool:
            self.pool = list(range(NMAX + 1))
            self.rng.shuffle(self.pool)
        return self.pool.pop()

    def sizes(self, l):
        if self.all_n:
            return list(range(NMAX + 1))
        N = len(set(l.data) | set(l.pending_points) | set(l.bounds)) - 1
        out = [self.small % 4, self.draw()]
        self.small += 1
        if self.per_state >= 3:
            out.append(N + self.rng.randint(1, 3))
        for _ in range(self.per_state - 3):
            out.append(self.draw())
        return out


def run_case(cfg, rng=None, nstate=0, ops=None, prefix=(), plan=None):
    """Drive the real learner; the oracle looks at every ask.  With `ops` the list is replayed as is."""
    l, rec = I.make_learner(cfg)
    lo, hi = float(l.bounds[0]), float(l.bounds[1])
    R = CaseResult()
    last_state_op = [None]

    def execute(op):
        """returns True when the op changed the state"""
        kind = op[0] if op[0] != "ask" else ("ask_commit" if op[2] else "ask_probe")
        R.ophist[kind] = R.ophist.get(kind, 0) + 1
        if op[0] != "ask":
            batch = is_batch(l, op)
            had_pending = bool(l.pending_points)
            out = I.apply_op(l, op)
            rec.on = False
            o = I.obs_of(l)
            rec.on = True
            R.steps.append((op, out, o))
            last_state_op[0] = "batch" if batch else ("remove_unfinished" if op[0] == "remove_unfinished" and had_pending
                                                      else op[0])
            return True
        n, commit = op[1], op[2]
        s = Snap(l)
        info = {}
        try:
            out = I.apply_op(l, op)
        except OverflowError:
            raise
        except Exception as e:       # noqa: BLE001 -- a request on a legal state must be answered
            R.steps.append((op, ([], []), None))
            R.err = ("raised", f"ask({n}, tell_pending={commit}) raised {type(e).__name__}: {e}", len(R.steps) - 1)
            return False
        changed = commit and n > 0
        if changed:
            rec.on = False
            o = I.obs_of(l)
            rec.on = True
        else:
            o = None
        R.steps.append((op, out, o))
        R.asks += 1
        R.nhist[n] = R.nhist.get(n, 0) + 1
        R.Nhist[s.N] = R.Nhist.get(s.N, 0) + 1
        if ask_features(s, n, R.feats) and n > len(s.missing):
            R.nontrivial = True
        if last_state_op[0] in ("batch", "remove_unfinished") and n > 0:
            R.feats["after_" + last_state_op[0]] = R.feats.get("after_" + last_state_op[0], 0) + 1
        if s.legal():
            e = check_ask(s, n, out[0], out[1], info) or check_after(s, l, commit, out[0])
            R.brute += bool(info.get("brute"))
            for c in dict.fromkeys(info.get("clauses", [])):
                R.clauses[c] = R.clauses.get(c, 0) + 1
            R.threshold += bool(info.get("threshold"))
            for k in ("resolution_exempt", "nan_loss", "negative_loss", "huge_loss"):
                if info.get(k):
                    R.feats[k] = R.feats.get(k, 0) + 1
            if e:
                R.err = (e[0], e[1], len(R.steps) - 1)
        else:
            R.feats["illegal_state_skipped"] = R.feats.get("illegal_state_skipped", 0) + 1
        if changed:
            last_state_op[0] = "ask"
        return changed

    def probes():
        for n in plan.sizes(l):
            execute(("ask", int(n), False))
            if R.err:
                return

    if ops is not None:
        for item in ops:
            execute(I.norm_op(item))
            if R.err:
                break
        return l, rec, R
    probes()                                      # the empty learner
    done = 0
    for op in prefix:
        if R.err:
            break
        if execute(op):
            done += 1
            probes()
    guard = 0
    while done < nstate and not R.err and guard < 4 * nstate + 20:
        guard += 1
        op = I.gen_next_op(rng, l, cfg)
        if not in_bounds(op, lo, hi):
            continue
        if execute(op) and not R.err:
            done += 1
            probes()
    return l, rec, R


# ================================================================== the check
def retry_killed(chk, shard, mism, legal, errors):
    """Shards whose coqc was killed by a signal (out-of-memory killer on a loaded machine) are evaluated once
    more, one at a time; everything else is passed through unchanged."""
    from .. import coqio
    from ..core import coqc_file, split_evals
    left = []
    for e in errors:
        m = re.match(r"(cases_(\d+)\.v): rc=(-9|137|-15|143):", e)
        if not m:
            left.append(e)
            continue
        chk.log(f"{m.group(1)} was killed (rc={m.group(3)}); evaluating it again")
        rc, out, _ = coqc_file(chk.work / m.group(1), 1800)
        if rc != 0:
            left.append(f"{m.group(1)}: rc={rc} (second attempt): {out[-800:]}")
            continue
        parts = split_evals(out)
        k = int(m.group(2)) * shard
        mism = sorted(mism + [(k + c, st) for c, st in coqio.parse_pairs(parts[0])])
        if LEGAL_FN:
            legal += coqio.parse_nat(parts[1])
    return mism, legal, left


def run(chk: Check) -> int:
    warnings.filterwarnings("ignore", category=RuntimeWarning)      # log(0) inside abs_min_log_loss
    if THEOREMS:
        chk.prove(VO_TARGETS, THEOREMS)
    else:       # placeholder until the proof builder lists the theorems (Check.prove cannot audit an empty list)
        from ..core import make
        rc, out = make(VO_TARGETS)
        if rc != 0:
            chk.broke("proof", "build of " + " ".join(VO_TARGETS) + " failed", "\n".join(out.splitlines()[-25:]))
    quick = chk.quick
    ncases = 320 if quick else 1500
    maxstate = 25 if quick else 60
    cases, metas = [], []
    tot = {"feats": {}, "nhist": {}, "Nhist": {}, "ophist": {}, "asks": 0, "brute": 0, "threshold": 0, "scripted": {},
           "skipped_overflow": 0, "clauses": {}}

    def merge(dst, src):
        for k, v in src.items():
            dst[k] = dst.get(k, 0) + v

    def add(cfg, l, rec, R, origin):
        ops = [I.op_json(s[0]) for s in R.steps]
        if R.err and R.err[0] == "raised":
            pass                        # no answer to compare in Coq
        else:
            cases.append(I.case_term(l, rec, R.steps))
            metas.append({"cfg": cfg, "ops": ops, "origin": origin})
        merge(tot["feats"], R.feats)
        merge(tot["nhist"], R.nhist)
        merge(tot["Nhist"], R.Nhist)
        merge(tot["ophist"], R.ophist)
        merge(tot["clauses"], R.clauses)
        tot["asks"] += R.asks
        tot["brute"] += R.brute
        tot["threshold"] += R.threshold
        chk.note_case((cfg, ops), R.nontrivial)
        if R.nontrivial and len(R.steps) > 8:
            chk.sample({"cfg": cfg, "ops": ops[:10], "origin": origin})
        if R.err:
            clause, msg, at = R.err
            if clause == "MACHINERY":
                chk.broke("machinery", "C02 oracle self-test failed", {"what": msg, "cfg": cfg, "ops": ops[:at + 1]})
            else:
                chk.fail(f"C02:{clause}", f"Learner1D({cfg}) after {at} ops: {msg}", {"cfg": cfg, "ops": ops[:at + 1]})

    for f in sorted((chk.work.parents[1] / "corpus" / "C02").glob("*.json")):
        d = json.loads(f.read_text())
        l, rec, R = run_case(d["cfg"], ops=d["ops"])
        add(d["cfg"], l, rec, R, f.name)
    for k in range(ncases):
        rng = chk.rng("case", k)
        cfg = gen_cfg(rng)
        prefix, pname = (), None
        if rng.random() < 0.28:
            pname, prefix = scripted(rng, cfg)
            cfg = fix_cfg(cfg)
        all_n = (not quick) and k % 8 == 0
        nstate = rng.randint(2, maxstate if not all_n else 14)
        plan = ProbePlan(rng, per_state=5 if quick else rng.choice([4, 6, 9]), all_n=all_n)
        try:
            l, rec, R = run_case(cfg, rng, nstate, prefix=prefix, plan=plan)
        except OverflowError:
            tot["skipped_overflow"] += 1
            continue        # loss * 1e12 overflows int(): outside the property (DESIGN C01 N)
        if pname:
            tot["scripted"][pname] = tot["scripted"].get(pname, 0) + 1
        add(cfg, l, rec, R, f"seed{chk.seed}/{k}" + (f"/{pname}" if pname else ""))
    chk.log(f"implementation side: {len(cases)} cases, {tot['asks']} asks checked by the oracle "
            f"({tot['brute']} also by brute force), failures {len(chk.failures)}")
    # ------------------------------------------------------------------ correspondence (comparison inside Coq)
    shard = 4     # small shards: ~1 GB per coqc at most
    mism, legal, errors = chk.coq_cases("cases", PREAMBLE, "case", cases, "check", LEGAL_FN, shard=shard)
    mism, legal, errors = retry_killed(chk, shard, mism, legal, errors)
    for e in errors:
        chk.broke("correspondence", "Model/L1D.v cases could not be evaluated", e[-600:])
    for c, s in mism[:5]:
        m = metas[c]
        chk.broke("correspondence", f"Model/L1D.v vs Learner1D: case {m['origin']} step {s} ({m['ops'][s][0]})",
                  {"cfg": m["cfg"], "ops": m["ops"][:s + 1]})
    feats = tot["feats"]
    sig_hist = {}
    for f in chk.failures:
        sig_hist[f["signature"]] = sig_hist.get(f["signature"], 0) + 1
    required = ["ties", "infinite_loss_interval", "pending_only_no_data", "end_pending_other_missing",
                "end_known_other_missing", "n_gt_intervals", "n_zero", "n_le_missing", "empty_n1", "empty_n2",
                "empty_n3_25", "tiny_interval", "after_remove_unfinished", "after_batch",
                "pending_cuts_evaluated_interval", "mixed_finite_and_unknown"]
    for k in required:
        feats.setdefault(k, 0)
    not_hit = [k for k in required if feats[k] == 0]
    if not_hit and not chk.failures:
        chk.broke("machinery", "C02 generator no longer reaches required situations", not_hit)
    chk.extra.update({
        "op_histogram": tot["ophist"],
        "n_histogram": {str(k): v for k, v in sorted(tot["nhist"].items())},
        "intervals_at_ask_histogram": {str(k): v for k, v in sorted(tot["Nhist"].items())},
        "feature_counts": dict(sorted(feats.items())),
        "scripted_prefixes": tot["scripted"],
        "asks_checked_by_oracle": tot["asks"],
        "asks_optimality_threshold_reference": tot["threshold"],
        "asks_optimality_brute_force": tot["brute"],
        "skipped_overflow_cases": tot["skipped_overflow"],
        "oracle_failure_signatures": sig_hist,
        "oracle_violated_clauses_all": tot["clauses"],
        "cases_compared_in_coq": len(cases), "mismatches": len(mism), "exhaustive": False})
    if LEGAL_FN:
        # cases in which EVERY state at which ask was called satisfies the theorems' hypothesis wfb (evaluated in Coq)
        chk.extra["cases_legal_in_coq"] = legal
        chk.extra["cases_all_asked_states_wf_in_coq"] = f"{legal}/{len(cases)}"
        chk.log(f"theorem hypothesis wfb holds at every asked state in {legal}/{len(cases)} cases (evaluated in Coq)")
    chk.log(f"correspondence: {len(cases)} cases, {len(mism)} mismatches; oracle failures {len(chk.failures)}; {feats}")
    return chk.finish(
        rule="histories generated by driving the real Learner1D (8 function shapes, 5 bounds, 7 shipped losses, factor 1 or 2; "
             "tell/tell_many(batch and incremental)/tell_pending/remove_unfinished/committing asks, in-bounds points only, "
             "batches only once both end points are known or pending); ~28% of the cases start with a scripted prefix (pending "
             "points only, one end point pending/known and the other missing, tiny interval, tied losses, pending points outside "
             "the evaluated range or cutting an evaluated interval, batch, remove_unfinished); after every state change (and on "
             "the empty learner) non-committing probe asks with n in 0..25 (small n, a cycling n, n > #intervals; thorough: all "
             "n in 0..25 on every 8th case); every ask is judged by the oracle and replayed bit for bit in the Coq model; "
             "non-trivial = the case contains an ask with n > #missing end points on a state with >= 3 intervals of which at "
             "least one has unknown/infinite and one finite loss; distinct by (config, op list)",
        assumptions=["hand-written model Model/L1D.v tied to learner1D.py by the sampled bit-exact correspondence",
                     "loss_per_interval is an oracle: the model looks up the recorded answers by exact arguments",
                     "optimality/distinctness theorems are over exact numbers (order laws, keys antitone in the number of "
                     "parts, i.e. non-negative losses); the float run is validated by the oracle and the correspondence, "
                     "intervals below floating-point resolution are exempt from distinct/fresh",
                     "oracle compares max rounded keys with tolerance 2e-12 + 1e-9*opt (the code rounds losses to 12 digits and "
                     "computes L/k by a recurrence)",
                     "an infinite value returned by the loss function is ranked by width like an unknown interval (C01:F14)"])


def replay(doc) -> int:
    bad = 0
    items = [f.get("replay") for f in doc.get("failing_inputs", [])] + \
            [b.get("detail") for b in doc.get("no_longer_checks", []) if isinstance(b.get("detail"), dict)]
    if "cfg" in doc and "ops" in doc:
        items.append(doc)
    for r in items:
        if not r or "cfg" not in r:
            continue
        l, rec, R = run_case(r["cfg"], ops=r["ops"])
        last = R.steps[-1] if R.steps else None
        print("replayed", r["cfg"], len(R.steps), "ops ->", (f"C02:{R.err[0]}: {R.err[1]}" if R.err else "oracle silent"))
        if last and last[0][0] == "ask":
            print("  last op", last[0], "->", last[1])
        bad += bool(R.err)
    return 1 if bad else 0
