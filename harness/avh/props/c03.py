"""C03 -- Triangulation: the simplices always tile the convex hull of the points.

proof          : coq/theories/Props/C03.v (model Model/Tri.v): index consistency, exact
                 (deleted, added) report, rejected insertion unchanged, new simplices contain the
                 new vertex, vertices appended once -- for ALL outcomes of the geometric predicates
correspondence : the real Triangulation (dims 2-4) is driven on lattice points, centroids, edge
                 midpoints, co-circular sets, exterior points, duplicates, right / wrong / empty
                 hints, transform diag(1, r), and from initial point sets whose first dim+1 points are
                 affinely dependent with exterior points facing that facet; every predicate outcome is recorded by wrapping the
                 methods from this process; the Coq model replays the insertions with the recorded
                 answers and compares simplices, vertex_to_simplices, hull, (deleted, added) and the
                 ValueErrors inside Coq (vm_compute).  The recorded predicate answers are tied to
                 exact rational arithmetic with the code's own tolerances (decisions with a tiny
                 margin are discarded and counted).
search/oracle  : exact `fractions.Fraction` oracle of the property text on the real object
                 (the geometric half, which the proof does not reach -- level "partial").
                 An insertion refused as 'Candidate vertex is inside the hull' is compared with the
                 exact convex hull of the points (clause exterior_point_rejected); a hull-extension
                 reference point lying in a facet hyperplane does not make a case "fragile".
"""
from __future__ import annotations

import itertools
import json
import math
import re
from fractions import Fraction as Fr

import numpy as np

from .. import coqio as C
from .. import impl_tri as X
from ..core import Check

THEOREMS = {n: "Props.C03" for n in [
    "C03_index_consistent", "C03_report_exact", "C03_reject_unchanged",
    "C03_every_new_simplex_has_pt", "C03_vertices_appended_once",
    "C03_old_facets_stay_le2", "C03_first_overlap_at_new_vertex", "C03_simplices_sorted_nodup",
    "C03_closed_cavity_keeps_hull_property", "C03_link_manifold_keeps_hull_property",
    "C03_hull_property_gives_link_manifold"]}

PREAMBLE = """From Coq Require Import List. Import ListNotations.
From AV Require Import Base.Prelude Model.Tri Run.TriRun.
Open Scope nat_scope."""

MSG = {"Point lies outside of the specified simplex.": "OutsideSimplex",
       "Point already in triangulation.": "AlreadyVertex",
       "Candidate vertex is inside the hull.": "InsideHull"}

# a decision whose exact margin is below this is "not robustly that of exact
# arithmetic": the case's tolerance-dependent geometric verdicts are discarded (and counted)
GEOMETRIC = ("volumes_sum_to_hull", "delaunay", "facet_in_at_most_two", "every_point_a_vertex", "internal_error",
             "degenerate_simplex")
# after a gap insertion only these are discarded: the volume clause holds "up to the sliver tolerance", Delaunay is
# promised for general position
TOLERANCE_QUALIFIED = ("volumes_sum_to_hull", "delaunay")
# NOT covered by the sliver tolerance of C03, hence reported also after a gap insertion, whatever the margins of the
# predicate decisions were: a facet that belongs to more than two simplices, and add_point raising
# RuntimeError('Broken triangulation') or any other internal error.  (On a history that met the trigger of F31 / F32
# they are attributed to that finding, like every geometric clause.)  An orphaned vertex after a gap insertion is
# reported too: as F33 when its trigger is met, see _after_step.
ALWAYS_REPORTED_AFTER_GAP = ("facet_in_at_most_two", "internal_error")
# after one of these the object is no triangulation any more: the case ends there
BROKEN_OBJECT = ("reject_unchanged", "state_unreadable", "index_consistent", "every_point_a_vertex", "facet_in_at_most_two",
                 "degenerate_simplex", "internal_error", "report_exact", "vertices_appended_once")
# genuine defect of the unchanged tree found by this check (signature for known_findings.json)
F31 = ("F31 Triangulation.bowyer_watson drops the flat simplex over a cavity facet that is coplanar with the new point "
       "and shared with a surviving simplex; the hanging facet makes later insertions overlap")
F33 = ("F33 a vertex attached only by sliver simplices (a point within 1e-7 of a hull facet in barycentric terms) loses its "
       "last simplex when that sliver is deleted and its flat replacements are suppressed: the vertex belongs to no simplex")
F32 = ("F32 Triangulation.point_in_cicumcircle: the (1+1e-8) tolerance puts a simplex into the cavity although the new "
       "point is outside its circumsphere; under strongly anisotropic transforms the cavity is not star-shaped and "
       "the new simplices overlap")

# candidates found once 'facet_in_at_most_two' / 'internal_error' were reported after a gap insertion (NOT listed in
# known_findings.json by this module: until they are, the thorough tier reports them as violations)
F34 = ("F34 sliver simplices left behind by a point inserted within 1e-7 (barycentric) of a hull facet: a later insertion "
       "whose cavity or visible hull touches such a sliver decides circumsphere / orientation / flatness on it by rounding "
       "noise and keeps only part of the star: the new simplices overlap and a facet belongs to more than two simplices")
F35 = ("F35 Triangulation.locate_point: fast_2d_point_in_simplex divides by the simplex area computed from untranslated "
       "coordinates; for a sliver simplex far from the origin the area evaluates to 0.0 and add_point raises "
       "ZeroDivisionError")
F36 = ("F36 add_point of a duplicate of an existing vertex with the empty hint simplex=() is accepted by _extend_hull (that "
       "path has no duplicate test) when sliver simplices left by a point within 1e-7 of a hull facet make hull faces "
       "visible from the vertex itself: the original vertex is orphaned")
# candidate (not listed by this module): the duplicate test of add_point only looks at the LOCATED simplex
F37 = ("F37 add_point of a duplicate of an existing vertex (hint None or a simplex) is accepted after a point within 1e-7 of "
       "a hull facet was inserted: the vertex hangs on a facet of, or lies within the 1e-8 location tolerance of, a simplex "
       "that does not have it; locate_point returns that simplex and the duplicate test (the reduced simplex is a single "
       "vertex) never sees the vertex: the point is a vertex twice")

FRAGILE = {"circ": 1e-11, "orient": 1e-9, "flat": 1e-3, "reduce": 1e-11, "locate": 1e-11}
# a point whose exact orientation margin against a hull facet hyperplane (|det| / product of the row norms) is at
# least this is "robustly" on that side: 1000 x the threshold below which an orientation decision counts as fragile
ROBUST_SIDE = 1e-6


# ---------------------------------------------------------------------------
def simp(s):
    return tuple(int(i) for i in s)


def rel_volume(pts):
    """the code's flatness measure, exactly: volume / (mean |edge vector entries|) ** dim"""
    d = len(pts) - 1
    vecs = [X.sub(q, pts[0]) for q in pts[1:]]
    avg = sum(abs(x) for row in vecs for x in row) / (d * d)
    return X.volume(pts) / avg ** d if avg else Fr(0)


def nondegenerate(tri):
    P = [X.fr_point(p) for p in tri.vertices]
    return all(X.volume([P[i] for i in s]) != 0 for s in tri.simplices)


def shift(p, off):
    return tuple(float(x) + o for x, o in zip(p, off))


def initial_points(rng, d, family, off=None):
    pts = initial_points0(rng, d, family)
    return [shift(p, off) for p in pts] if off else pts


def initial_points0(rng, d, family):
    if family == "simplex":        # one lattice simplex: Delaunay in every metric
        while True:
            pts = [tuple(float(rng.randint(0, 3)) for _ in range(d)) for _ in range(d + 1)]
            if len(set(pts)) == d + 1 and X.simplex_det([X.fr_point(p) for p in pts]) != 0:
                return pts
    if family == "unit":
        return [tuple(0.0 for _ in range(d))] + [tuple(1.0 if i == j else 0.0 for i in range(d)) for j in range(d)]
    if family == "box":            # corners of a box: co-spherical in every diagonal metric
        ext = [float(rng.choice([1, 1, 2, 3])) for _ in range(d)]
        return [tuple(c) for c in itertools.product(*[(0.0, e) for e in ext])]
    if family == "lattice":        # several lattice points; only used with the Euclidean metric
        n0 = rng.choice([d + 2, d + 3])
        pts = set()
        while len(pts) < n0:
            pts.add(tuple(float(rng.randint(0, 3)) for _ in range(d)))
        return sorted(pts)
    if family == "dyadic":         # general position with high probability
        return [tuple(rng.randint(0, 64) / 64.0 for _ in range(d)) for _ in range(d + 1)]
    if family in FLAT_FIRST:
        return flat_first_points(rng, d, family)
    raise ValueError(family)


# Initial configurations of MORE than d+1 points whose FIRST d+1 points are affinely dependent: they all lie in one
# hull facet hyperplane {x_a = min}.  (Triangulation(coords) accepts any number of points and only needs all of them to
# span the space; nothing makes vertices[:d+1] a simplex.)
#   boxprod   : corners of a box in itertools.product order (what LearnerND feeds in), d = 3, 4; co-spherical in
#               every diagonal metric
#   grid      : a full lattice grid in lexicographic order (2-D: >= 3 points per column; 3-D: 2 x 2 x 3); weakly
#               Delaunay in every diagonal metric
#   flatfirst : d+1 or d+2 lattice points spanning the hyperplane x_a = 0 first ("three collinear points first",
#               "four coplanar points first"), then 1-3 lattice points with x_a > 0; Euclidean metric only
# in each case with the axes permuted at random, so the flat is not always x_0 = min
FLAT_FIRST = ("boxprod", "grid", "flatfirst")


def flat_first_points(rng, d, family):
    perm = list(range(d))
    rng.shuffle(perm)

    def permuted(pts):
        return [tuple(float(p[perm[i]]) for i in range(d)) for p in pts]

    if family == "boxprod":
        ext = [float(rng.choice([1, 1, 2, 3])) for _ in range(d)]
        return permuted(itertools.product(*[(0.0, e) for e in ext]))
    if family == "grid":
        counts = {2: rng.choice([(2, 3), (2, 4), (3, 3)]), 3: (2, 2, 3)}[d]
        ext = [float(rng.choice([1, 1, 2])) for _ in range(d)]
        return permuted(itertools.product(*[[e * j for j in range(c)] for e, c in zip(ext, counts)]))
    # flatfirst: points of the hyperplane x_0 = 0 that span it, then points strictly on one side of it
    while True:
        base, nbase = set(), rng.choice([d + 1, d + 1, d + 2])
        while len(base) < nbase:
            base.add((0,) + tuple(rng.randint(0, 3) for _ in range(d - 1)))
        base = sorted(base)
        rng.shuffle(base)
        proj = [X.fr_point(q[1:]) for q in base]
        if d == 2:
            spans = len(set(proj)) > 1
        else:
            spans = any(X.simplex_det(list(c)) != 0 for c in itertools.combinations(proj, d))
        if spans:
            break
    tops, ntops = set(), rng.choice([1, 1, 2, 3])
    while len(tops) < ntops:
        tops.add((rng.randint(1, 3),) + tuple(rng.randint(0, 3) for _ in range(d - 1)))
    return permuted(base + sorted(tops))


def choose_facing(rng, tri, d):
    """an exterior point beyond a face of the bounding box of the current vertices -- "facing": beyond the hyperplane
    x_a = const that holds the first d+1 vertices; "beyond_face": beyond a random face.  The other coordinates lie
    within the box (the point sees essentially that face only) or, "_oblique", in the box widened by 2 (it sees
    several hull facets of different kinds)."""
    V = [tuple(float(x) for x in v) for v in tri.vertices]
    lo = [min(v[i] for v in V) for i in range(d)]
    hi = [max(v[i] for v in V) for i in range(d)]
    first = V[:d + 1]
    flat_axes = [i for i in range(d) if all(v[i] == first[0][i] for v in first)]
    if flat_axes and rng.random() < 0.65:
        a = rng.choice(flat_axes)
        side = -1 if first[0][a] - lo[a] <= hi[a] - first[0][a] else 1
        kind = "facing"
    else:
        a, side, kind = rng.randrange(d), rng.choice([-1, 1]), "beyond_face"
    t = rng.choice([0.5, 1.0, 2.0, 3.0])
    oblique = rng.random() < 0.4
    p = []
    for i in range(d):
        if i == a:
            p.append((lo[a] if side < 0 else hi[a]) + side * t)
        elif oblique:
            p.append(lo[i] - 2.0 + rng.randint(0, 2 * int(hi[i] - lo[i] + 4)) / 2.0)
        else:
            p.append(lo[i] + (hi[i] - lo[i]) * rng.randint(1, 7) / 8.0)
    return kind + ("_oblique" if oblique else ""), tuple(float(x) for x in p)


CIRCLE5 = [(3, 4), (4, 3), (5, 0), (0, 5), (-3, 4), (-4, 3), (-5, 0), (0, -5), (3, -4), (4, -3), (-3, -4), (-4, -3), (0, 0)]


def choose_point(rng, tri, d, family, off=None):
    kind, p = choose_point0(rng, tri, d, family)
    if off and kind in ("lattice", "far", "cocirc", "dyadic", "dyadic_far"):
        p = shift(p, off)
    return kind, p


def choose_point0(rng, tri, d, family):
    kind = rng.choice(["lattice", "lattice", "centroid", "midpoint", "far", "dup", "facepoint", "cocirc", "gap", "hullpoint"]
                      if family != "dyadic" else ["dyadic", "dyadic", "dyadic", "dyadic_far", "centroid", "dup", "gap"])
    S = sorted(tri.simplices)
    if not S and kind in ("centroid", "midpoint", "facepoint", "gap", "hullpoint"):
        kind = "lattice" if family != "dyadic" else "dyadic"      # a broken (empty) triangulation: the oracle reports it
    if kind == "lattice":
        p = tuple(float(rng.randint(-1, 4)) for _ in range(d))
    elif kind == "centroid":
        s = rng.choice(S)
        p = tuple(float(x) for x in np.mean([tri.vertices[i] for i in s], axis=0))
    elif kind == "midpoint":
        s = rng.choice(S)
        a, b = rng.sample(list(s), 2)
        p = tuple(float(x) for x in (np.array(tri.vertices[a]) + np.array(tri.vertices[b])) / 2)
    elif kind == "facepoint":      # dyadic point on a facet
        s = rng.choice(S)
        f = rng.sample(list(s), d)
        w = [rng.choice([1, 1, 2]) for _ in f]
        tot = sum(w)
        while tot & (tot - 1):
            w[0] += 1
            tot += 1
        p = tuple(float(x) for x in sum(np.array(tri.vertices[i]) * wi for i, wi in zip(f, w)) / tot)
    elif kind in ("gap", "hullpoint"):
        # a hull facet f of a simplex (f, v).  "hullpoint": a point of the facet (on the hull boundary);
        # "gap": just outside it, barycentric coordinate of v = -2e-8 (not located inside with the 1e-8
        # tolerance, and the simplex it would span is flatter than the 1e-8 sliver tolerance)
        cnt = {}
        for s_ in S:
            for f in itertools.combinations(s_, d):
                cnt.setdefault(f, []).append(s_)
        hullf = sorted(f for f, ss in cnt.items() if len(ss) == 1)
        f = rng.choice(hullf)
        v = next(i for i in cnt[f][0] if i not in f)
        c = np.mean([tri.vertices[i] for i in f], axis=0)
        lam = -2e-8 if kind == "gap" else 0.0
        p = tuple(float(x) for x in c + lam * (np.array(tri.vertices[v]) - c))
    elif kind == "far":
        p = tuple(float(rng.randint(-6, 8)) for _ in range(d))
    elif kind == "cocirc":
        if d == 2:
            p = tuple(float(x) for x in rng.choice(CIRCLE5))
        else:
            p = tuple(float(rng.choice([0, 1, 2])) for _ in range(d))   # corners / centres of unit cells
    elif kind == "dyadic":
        p = tuple(rng.randint(0, 64) / 64.0 for _ in range(d))
    elif kind == "dyadic_far":
        p = tuple(rng.randint(-64, 128) / 64.0 for _ in range(d))
    else:
        p = tuple(tri.vertices[rng.randrange(len(tri.vertices))])
    return kind, p


def choose_hint(rng, tri, p, kind=""):
    r = rng.random()
    if kind in ("hullpoint", "dup", "centroid", "gap") and r < 0.25:
        return "empty", ()      # simplex=() for a point that is not outside: the hull extension must fail cleanly
    if r < 0.40:
        return "none", None
    try:
        cont = sorted(simp(s) for s in tri.simplices if tri.point_in_simplex(p, s))
    except Exception:  # noqa: BLE001  (a degenerate simplex: let the real add_point / the oracle report it)
        return "none", None
    if r < 0.80:
        return ("containing", rng.choice(cont)) if cont else ("empty", ())
    if r < 0.92:
        others = sorted(simp(s) for s in tri.simplices if simp(s) not in cont)
        return ("wrong", rng.choice(others)) if others else ("none", None)
    return "empty", ()


def transform_of(rng, d, family, quick):
    """identity, diag with axis ratio <= 100, and -- a metric need not normalise to the unit box -- the same
    multiplied by a small length scale (circumradii far below 1 in the metric)"""
    if family in ("lattice", "flatfirst") or rng.random() < 0.35:
        diag = None
    else:
        r = rng.choice([2.0, 4.0, 10.0, 100.0, 0.5, 0.01, 3.0])
        diag = [1.0] * d
        for k in rng.sample(range(d), rng.randint(1, d - 1)):
            diag[k] = r
    if rng.random() < 0.3:
        sc = rng.choice([1e-6, 1e-7, 3e-8])
        diag = [sc * x for x in (diag or [1.0] * d)]
    return diag


def offset_of(rng, d):
    """translation of the whole point set away from the origin (the property is translation invariant);
    4-D stays below 100 where the general circumsphere formula of the code is still accurate"""
    if rng.random() < 0.55:
        return [0.0] * d
    mag = rng.choice({2: [10.0, 1000.0, 1e4, 3e4], 3: [10.0, 300.0, 1000.0, 1e4], 4: [10.0, 50.0, 100.0]}[d])
    if rng.random() < 0.5:
        return [mag] * d
    return [mag if rng.random() < 0.7 else float(rng.choice([0, 200, 7])) for _ in range(d)]


# ---------------------------------------------------------------------------
class Oracle:
    """The property text on the real object, exact arithmetic."""

    def __init__(self, d, T):
        self.d, self.T = d, T
        self.TF = X.fr_matrix(np.diag(T)) if T is not None else None
        self.errors = []          # (clause, message, step)
        self.fragile = 0          # predicate decisions with a tiny exact margin
        self.fragile_kinds = {}
        self.pred_mismatch = []   # recorded predicate != exact predicate with a robust margin
        self.pred_checked = 0
        self.min_margin = {}
        self.sliver = Fr(0)
        self.would_fail_fragile = 0
        self.discarded = {}       # clause|after_gap / clause|no_gap -> verdicts not reported because of fragility
        self.hanging = None       # (step, facet): trigger of finding F31, see GEOMETRIC / F31 below
        self.tolerated = None     # (step, simplex): trigger of finding F32
        self.raw = []             # every clause that tripped, also the unreported ones: (clause, step)
        self.near_degenerate = False   # a 'gap' point (2e-8 outside a hull facet) was inserted
        self.bad_reference = None      # (step, facet, reference point): see check_predicates
        self.bad_reference_decisions = 0
        self.inside_hull_judged = 0    # 'Candidate vertex is inside the hull' rejections compared with the exact hull
        self.exterior_rejected = 0     # ... of a point that is robustly OUTSIDE the exact hull (reported or discarded)

    def err(self, clause, msg, step):
        self.raw.append((clause, step))
        if clause in GEOMETRIC:
            # "every point is a vertex of some simplex" is not qualified by the sliver tolerance: after a gap
            # insertion it is reported (as F33 when its trigger is met, see _after_step), never discarded
            if self.near_degenerate and clause in ALWAYS_REPORTED_AFTER_GAP:
                discard = False
            else:
                discard = self.fragile or (self.near_degenerate and clause in TOLERANCE_QUALIFIED)
            if discard:
                # decisions with a tiny exact margin / a point placed 2e-8 outside a facet: the regime of the
                # documented 1e-8 tolerances, never reported (counted)
                self.would_fail_fragile += 1
                k = clause + ("|after_gap" if self.near_degenerate else "|no_gap")
                self.discarded[k] = self.discarded.get(k, 0) + 1
                return
            if self.hanging is not None:
                # DESIGN 4.7: on a history that met the trigger of the finding the geometric clauses are
                # attributed to it (any other clause is still reported under its own name)
                clause, msg = F31, (f"{msg}; at step {self.hanging[0]} bowyer_watson suppressed the flat simplex over the "
                                    f"cavity facet {self.hanging[1]} which is shared with a surviving simplex")
                self.errors.append((clause, msg, step))
                return
            if self.tolerated is not None:
                clause, msg = F32, (f"{msg}; at step {self.tolerated[0]} point_in_cicumcircle accepted simplex "
                                    f"{self.tolerated[1]} whose circumsphere does not contain the point (within 1e-8)")
                self.errors.append((clause, msg, step))
                return
            if self.near_degenerate and self.fragile and clause == "facet_in_at_most_two":
                # reported, under its own signature: a gap insertion earlier in the history AND a predicate decision
                # with a tiny exact margin (the trigger; exactly the verdicts that used to be discarded as fragile)
                kinds = ", ".join(f"{k}: {v}" for k, v in sorted(self.fragile_kinds.items()))
                self.errors.append((F34, f"{msg}; a point was inserted 2e-8 outside a hull facet earlier and {self.fragile} "
                                         f"predicate decisions had a tiny exact margin ({kinds})", step))
                return
            if self.near_degenerate and clause == "internal_error" and "ZeroDivisionError" in msg and self.d == 2:
                self.errors.append((F35, f"{msg}; a point was inserted 2e-8 outside a hull facet earlier", step))
                return
            if self.bad_reference is not None:
                msg += self._bad_reference_note()
        self.errors.append((clause, msg, step))

    def _bad_reference_note(self):
        st, face, center = self.bad_reference
        return (f"; at step {st} _extend_hull decided the visibility of hull facet {face} against the reference point "
                f"{tuple(center)}, which lies in the hyperplane of that facet (not strictly inside the hull)")

    def note_hanging(self, tri, a, step):
        """trigger of F31: a candidate simplex (cavity facet + new point) was suppressed as flat although the facet
        also belongs to a simplex that survives the insertion (the new point is coplanar with an interior facet of
        the cavity boundary): the survivor keeps a facet that is no facet of its new neighbours"""
        if self.hanging is not None:
            return
        pt = a.nverts_before
        hull_cands = {tuple(sorted(simp(f) + (pt,))) for f, _c, v1, v2, _s in a.orient if v1 == -v2}
        d = self.d
        live = set()
        for s in tri.simplices:
            for f in itertools.combinations(simp(s), d):
                live.add(f)
        for s, fl in a.flat:
            s = simp(s)
            if fl and pt in s and s not in hull_cands:
                f = tuple(i for i in s if i != pt)
                if f in live:
                    self.hanging = (step, f)
                    return

    def _pred(self, kind, recorded, exact, margin, what, step):
        self.pred_checked += 1
        if exact is None or margin < FRAGILE[kind]:
            self.fragile += 1
            self.fragile_kinds[kind] = self.fragile_kinds.get(kind, 0) + 1
            return
        if recorded != exact:
            self.pred_mismatch.append((kind, what, recorded, exact, margin, step))
        else:
            self.min_margin[kind] = min(self.min_margin.get(kind, 1.0), margin)

    def check_predicates(self, a: X.AddRec, verts_after, step):
        """tie the recorded predicate outcomes to exact arithmetic with the code's tolerances"""
        P = [X.fr_point(p) for p in verts_after]
        pt = X.fr_point(a.point)
        nb = min(a.nverts_before, len(P))
        cstar = tuple(sum(q[i] for q in P[:nb]) / nb for i in range(self.d)) if nb and a.orient else None
        for pt_index, s, res in a.circ:
            if max(s) >= len(P) or pt_index >= len(P):
                continue
            ex, m, outside = X.x_in_circ(P[pt_index], [P[i] for i in s], self.TF, detail=True)
            self._pred("circ", res, ex, m, f"point_in_cicumcircle({pt_index}, {s})", step)
            if res and outside and ex and m >= FRAGILE["circ"] and pt_index not in s and self.tolerated is None:
                # trigger of F32: the (1 + eps) tolerance declares a simplex bad although the point is
                # strictly outside its circumsphere
                self.tolerated = (step, simp(s))
        for s, res in a.flat:
            pts = [P[i] if i < len(P) else pt for i in s]
            ex, m = X.x_flat(pts)
            if res and ex is not None and (ex or m < FRAGILE["flat"]):
                # the documented sliver tolerance: a candidate whose relative volume is below 1e-8
                self.sliver += X.volume(pts)
            self._pred("flat", res, ex, m, f"_simplex_is_almost_flat({s})", step)
        for face, center, v1, v2, same in a.orient:
            if not same or any(i is None for i in face):
                self.pred_mismatch.append(("orient", f"unpaired orientation calls {face}", v1, v2, 0, step))
                continue
            fp = [P[i] for i in face]
            e1, m1 = X.x_orientation(fp, X.fr_point(center))
            e2, m2 = X.x_orientation(fp, pt)
            if e1 == 0 or m1 < FRAGILE["orient"]:
                # The reference point of _extend_hull ("guaranteed to lie strictly within the hull") is the code's own
                # choice, not part of the input.  When it lies in the hyperplane of the facet although the facet is
                # robustly away from the exact centroid of all vertices (which IS strictly inside the hull), the tiny
                # margin says nothing about the input being near a tolerance: the decision is not counted as fragile,
                # so the geometric clauses stay in force for the case.  (Never met on a valid triangulation with the
                # centroid of the hull vertices as reference.)
                es, ms = X.x_orientation(fp, cstar) if cstar is not None else (0, 0.0)
                if es != 0 and ms >= ROBUST_SIDE:
                    self.bad_reference_decisions += 1
                    if self.bad_reference is None:
                        self.bad_reference = (step, simp(face), tuple(float(x) for x in center))
                    if not (e2 == 0 and m2 == 0.0):
                        self._pred("orient", v2, e2, m2, f"orientation(face {face}, new point)", step)
                    continue
            self._pred("orient", v1, e1, m1, f"orientation(face {face}, centre)", step)
            if e2 == 0 and m2 == 0.0:
                # the new point lies exactly in the facet's hyperplane: the sign computed in floating
                # point is rounding noise, and immaterial (the candidate simplex is flat)
                self.fragile_kinds["orient_coplanar"] = self.fragile_kinds.get("orient_coplanar", 0) + 1
            else:
                self._pred("orient", v2, e2, m2, f"orientation(face {face}, new point)", step)
        if a.reduce is not None:
            s, res = a.reduce
            if len(s) == self.d + 1:
                ex, m = X.x_reduce(pt, s, [P[i] for i in s])
                self._pred("reduce", sorted(res), None if ex is None else sorted(ex), m,
                           f"get_reduced_simplex({a.point}, {s})", step)

    def after_step(self, tri, before, out, ret, step, volume=True, rec=None):
        after = X.snapshot(tri)
        if out in ("OutsideSimplex", "AlreadyVertex", "InsideHull"):
            # a rejected insertion leaves the COMPLETE state unchanged
            if before != after:
                what = []
                if before[0] != after[0]:
                    what.append(f"vertices {len(before[0])} -> {len(after[0])}")
                if before[1] != after[1]:
                    what.append("simplices")
                if before[2] != after[2]:
                    what.append(f"vertex_to_simplices ({len(before[2])} -> {len(after[2])} entries)")
                self.err("reject_unchanged", f"rejected insertion ({out}) changed the triangulation: " + ", ".join(what), step)
        try:
            if out == "InsideHull" and rec is not None:
                self.judge_inside_hull(before, rec, step)
            self._after_step(tri, before, after, out, ret, step, volume, rec)
        except Exception as e:  # noqa: BLE001  (a corrupted object can make the inspection itself fail)
            self.err("state_unreadable", f"inspecting the triangulation after add_point ({out}) raised "
                                         f"{type(e).__name__}: {str(e)[:80]}", step)

    def judge_inside_hull(self, before, rec, step):
        """C03: "after any sequence of point insertions (... or outside the current hull, with or without a hint simplex)
        ... every point is a vertex of some simplex"; only a duplicate may be rejected.  An insertion refused with
        'Candidate vertex is inside the hull' is compared with the exact convex hull of the vertices (computed from the
        points alone, independent of the simplices and of every recorded predicate): refusing a point that is strictly
        outside that hull by a robust margin is a failure.  Not judged in the regime of the documented sliver tolerance:
        a candidate simplex over a visible facet was suppressed as almost flat in this call, or a point was placed 2e-8
        outside a facet earlier (counted in `discarded`)."""
        P = [X.fr_point(q) for q in before[0]]
        outside, m, comb = X.x_outside_hull(P, X.fr_point(rec.point))
        self.inside_hull_judged += 1
        if not outside or m < ROBUST_SIDE:
            return
        self.exterior_rejected += 1
        clause = "exterior_point_rejected"
        self.raw.append((clause, step))
        hint = "simplex=None" if rec.hint is None else f"simplex={tuple(rec.hint)}"
        msg = (f"add_point({tuple(float(x) for x in rec.point)}, {hint}) was refused with 'Candidate vertex is inside the "
               f"hull' although the point is strictly outside the convex hull of the {len(P)} vertices: it lies beyond the "
               f"hull facet through vertices {tuple(comb)} (exact orientation margin {m:.3g}); "
               f"{len(rec.orient)} hull facets were tested, {sum(1 for _f, _c, v1, v2, _s in rec.orient if v1 == -v2)} "
               f"found visible")
        if self.near_degenerate or any(fl for _s, fl in rec.flat):
            self.would_fail_fragile += 1
            k = clause + ("|after_gap" if self.near_degenerate else "|flat_candidate")
            self.discarded[k] = self.discarded.get(k, 0) + 1
            return
        if self.hanging is not None:      # DESIGN 4.7, as for the geometric clauses
            clause, msg = F31, (f"{msg}; at step {self.hanging[0]} bowyer_watson suppressed the flat simplex over the "
                                f"cavity facet {self.hanging[1]} which is shared with a surviving simplex")
        elif self.tolerated is not None:
            clause, msg = F32, (f"{msg}; at step {self.tolerated[0]} point_in_cicumcircle accepted simplex "
                                f"{self.tolerated[1]} whose circumsphere does not contain the point (within 1e-8)")
        elif self.bad_reference is not None:
            msg += self._bad_reference_note()
        self.errors.append((clause, msg, step))

    def _after_step(self, tri, before, after, out, ret, step, volume, rec):
        if out == "Accepted" and rec is not None:
            self.note_hanging(tri, rec, step)
        if out != "Broken":
            for clause, msg in X.structure_errors(tri):
                if clause == "every_point_a_vertex" and self.near_degenerate and not self.fragile \
                        and self.hanging is None and self.tolerated is None:
                    v = int(msg.split()[1])
                    held = sorted(simp(x) for x in before[2][v]) if v < len(before[2]) else []
                    if held and all(rel_volume([X.fr_point(before[0][i]) for i in x]) < Fr(1, 10 ** 6) for x in held):
                        # (a point 2e-8 outside a facet spans slivers of relative volume 1e-8 .. a few 1e-7 with it)
                        self.errors.append((F33, f"{msg}; before this insertion it was attached only by the sliver simplices "
                                                 f"{held} (relative volume < 1e-6)", step))
                        self.raw.append((clause, step))
                        continue
                self.err(clause, msg, step)
        if out == "Accepted":
            dl, ad = {simp(s) for s in ret[0]}, {simp(s) for s in ret[1]}
            b = {simp(s) for s in before[1]}
            a_ = {simp(s) for s in after[1]}
            if dl != b - a_ or ad != a_ - b:
                self.err("report_exact", f"add_point returned deleted={sorted(dl)} added={sorted(ad)} but the simplex set "
                                         f"lost {sorted(b - a_)} and gained {sorted(a_ - b)}", step)
            if after[0][:-1] != before[0] or len(after[0]) != len(before[0]) + 1:
                self.err("vertices_appended_once", "vertex list not extended by exactly the new point", step)
            n = len(before[0])
            if any(n not in s for s in ad):
                self.err("every_new_simplex_has_pt", f"a created simplex does not contain the new vertex {n}", step)
            # C03_old_facets_stay_le2 / C03_first_overlap_at_new_vertex (proved for the model, for every outcome of
            # every predicate): a facet WITHOUT the new vertex that was in at most two simplices is in at most two
            # afterwards.  Read off the real object; independent of all tolerances, never discarded.
            cb, ca = {}, {}
            for ss, cnt in ((b, cb), (a_, ca)):
                for s in ss:
                    for f in itertools.combinations(s, self.d):
                        cnt[f] = cnt.get(f, 0) + 1
            self.old_facets_checked = getattr(self, "old_facets_checked", 0) + len(ca)
            for f, c in ca.items():
                if c > 2 and n not in f and cb.get(f, 0) <= 2:
                    self.err("old_facet_overlap", f"facet {f} without the new vertex {n} was in {cb.get(f, 0)} simplices and is "
                                                  f"in {c} after the insertion (theorem C03_old_facets_stay_le2 of the model)", step)
                    break
        elif out not in ("OutsideSimplex", "AlreadyVertex", "InsideHull"):
            self.err("internal_error", f"add_point raised {out}", step)
        if volume:
            for clause, msg in X.tiling_errors(tri, self.sliver):
                self.err(clause, msg, step)

    def final(self, tri, step, general):
        # empty circumspheres in the metric: for points in general position this is THE Delaunay property;
        # for degenerate inputs the same test (no vertex strictly inside, by more than 1e-6) is the weak
        # Delaunay property every triangulation produced by Bowyer-Watson must still have
        # Not applied once a genuine sliver (non-zero volume, relative volume < 1e-8) was suppressed or a point was
        # placed 1e-8-close to a facet on purpose: that is the regime of the documented sliver tolerance, where
        # C03 promises the tiling only up to that tolerance and Delaunay only for points in general position.
        if (general or len(tri.vertices) <= 12) and self.sliver == 0 and not self.near_degenerate:
            for clause, msg in X.delaunay_errors(tri, self.TF):
                self.err(clause, msg, step)


# ---------------------------------------------------------------------------
def drive(d, init_pts, T, family, rng=None, nins=0, inserts=None, volume_every_step=True, off=None, facing=()):
    """Run the real Triangulation.  Either `inserts` (concrete replay) or rng/nins (generation; at the step numbers in
    `facing` the point comes from choose_facing, with hint None or ())."""
    from adaptive.learner.triangulation import Triangulation
    tri = Triangulation([tuple(p) for p in init_pts])
    if not nondegenerate(tri):
        return None
    Tm = np.diag(T) if T is not None else None
    orc = Oracle(d, T)
    allpts = [tuple(p) for p in tri.vertices]
    init_simplices = sorted(simp(s) for s in tri.simplices)
    for clause, msg in X.structure_errors(tri) + X.tiling_errors(tri):
        orc.err(clause, "initial triangulation: " + msg, -1)
    steps, concrete = [], []
    todo = inserts if inserts is not None else range(nins)
    for k, item in enumerate(todo):
        if inserts is not None:
            kind, p, hk, hint = item["kind"], tuple(item["p"]), item["hint_kind"], item["hint"]
            hint = None if hint is None else tuple(hint)
        else:
            try:
                if k in facing:
                    kind, p = choose_facing(rng, tri, d)
                    hk, hint = rng.choice([("none", None), ("empty", ())])
                else:
                    kind, p = choose_point(rng, tri, d, family, off)
                    hk, hint = choose_hint(rng, tri, p, kind)
            except Exception as e:  # noqa: BLE001
                orc.err("state_unreadable", f"reading the triangulation raised {type(e).__name__}: {str(e)[:80]}", k - 1)
                break
        if kind == "gap":
            orc.near_degenerate = True
        concrete.append({"kind": kind, "p": list(p), "hint_kind": hk, "hint": None if hint is None else list(hint)})
        before = X.snapshot(tri)
        ret = None
        with X.Recorder() as rec:
            try:
                ret = tri.add_point(p, hint, Tm)
                out = "Accepted"
            except ValueError as e:
                out = MSG.get(str(e), "ValueError: " + str(e)[:60])
            except RuntimeError as e:
                out = "Broken" if "Broken triangulation" in str(e) else "RuntimeError: " + str(e)[:60]
            except Exception as e:  # noqa: BLE001
                out = type(e).__name__ + ": " + str(e)[:60]
        a = rec.adds[0]
        pid = len(allpts)
        allpts.append(p)
        nraw = len(orc.raw)
        try:        # first: the triggers of the known findings are found among the predicate outcomes
            orc.check_predicates(a, list(tri.vertices) if out == "Accepted" else list(before[0]) + [p], k)
        except Exception as e:  # noqa: BLE001
            orc.err("state_unreadable", f"inspecting the predicates of add_point ({out}) raised "
                                        f"{type(e).__name__}: {str(e)[:80]}", k)
        dup_of = None
        if out == "Accepted":
            dup_of = next((i for i, q in enumerate(before[0]) if tuple(float(x) for x in q) == tuple(float(x) for x in p)), None)
        if dup_of is not None:
            # C03: "a rejected insertion (duplicate point) leaves the triangulation unchanged" presupposes that a duplicate
            # IS rejected.  Attributed to F36 only on a history with a gap insertion (its trigger); the case ends here.
            orphans = [v for v, ss in enumerate(tri.vertex_to_simplices) if not ss]
            msg = (f"add_point({p}, simplex={hint}) was accepted although the point equals vertex {dup_of}: the vertex list "
                   f"now holds it twice (new vertex {len(before[0])}); vertices without a simplex afterwards: {orphans}")
            orc.raw.append(("duplicate_accepted", k))
            if orc.hanging is not None:       # DESIGN 4.7: the object was no valid triangulation any more
                sig, msg = F31, (f"{msg}; at step {orc.hanging[0]} bowyer_watson suppressed the flat simplex over the cavity "
                                 f"facet {orc.hanging[1]} which is shared with a surviving simplex")
            elif orc.tolerated is not None:
                sig, msg = F32, (f"{msg}; at step {orc.tolerated[0]} point_in_cicumcircle accepted simplex {orc.tolerated[1]} "
                                 f"whose circumsphere does not contain the point (within 1e-8)")
            elif orc.near_degenerate and hint is not None and len(hint) == 0:
                sig = F36
            elif orc.near_degenerate:
                sig = F37
            else:
                sig = "duplicate_accepted"      # without a gap insertion: reported under its own name
            orc.errors.append((sig, msg, k))
        else:
            orc.after_step(tri, before, out, ret, k, volume=volume_every_step or k == len(todo) - 1, rec=a)
        try:
            obs = observe(tri)
        except Exception as e:  # noqa: BLE001
            orc.err("state_unreadable", f"inspecting the triangulation after add_point ({out}) raised "
                                        f"{type(e).__name__}: {str(e)[:80]}", k)
            obs = None
        if obs is not None:
            steps.append({"pid": pid, "hint": hint, "rec": a, "out": out,
                          "ret": None if ret is None else ({simp(s) for s in ret[0]}, {simp(s) for s in ret[1]}),
                          "obs": obs, "kind": kind, "hint_kind": hk,
                          "path": path_of(a, out)})
        corrupt = dup_of is not None or any(c in BROKEN_OBJECT for c, _s in orc.raw[nraw:])
        if obs is None or corrupt or out not in ("Accepted", "OutsideSimplex", "AlreadyVertex", "InsideHull", "Broken"):
            break       # the object is no longer a triangulation: the rest of the history says nothing more
    general = False
    try:
        general = family == "dyadic" and len(tri.vertices) <= 11 and \
            X.general_position([X.fr_point(p) for p in tri.vertices], orc.TF)
        orc.final(tri, len(steps) - 1, general)
    except Exception as e:  # noqa: BLE001
        orc.err("state_unreadable", f"inspecting the final triangulation raised {type(e).__name__}: {str(e)[:80]}",
                len(steps) - 1)
    return {"d": d, "init": [list(p) for p in init_pts], "T": T, "family": family, "inserts": concrete,
            "steps": steps, "oracle": orc, "init_simplices": init_simplices,
            "n0": len(init_pts), "general": general, "tri": tri}


def path_of(a, out):
    if out != "Accepted":
        return out
    return "hull_extension" if a.orient else "interior"


def observe(tri):
    """simplices, index and hull; the vertex list is compared as point ids kept by case_term"""
    try:
        hull = sorted(int(i) for i in tri.hull)
    except RuntimeError:
        hull = None
    return {"simplices": sorted(simp(s) for s in tri.simplices),
            "v2s": [sorted(simp(s) for s in ss) for ss in tri.vertex_to_simplices], "hull": hull}


# ---------------------------------------------------------------------------
def s_term(s):
    return C.lst(C.nat(i) for i in s)


def tbl_term(items):
    seen, out = set(), []
    for s, b in items:
        if s not in seen:
            seen.add(s)
            out.append(C.pair(s_term(s), C.bool_(b)))
    return C.lst(out)


def obs_term(o, verts):
    return C.app("mkobs", C.lst(C.nat(i) for i in verts), C.lst(s_term(s) for s in o["simplices"]),
                 C.lst(C.lst(s_term(s) for s in ss) for ss in o["v2s"]),
                 C.opt(o["hull"], lambda h: C.lst(C.nat(i) for i in h)))


def out_term(st):
    if st["out"] == "Accepted":
        dl, ad = st["ret"]
        return C.app("Accepted", C.lst(s_term(s) for s in sorted(dl)), C.lst(s_term(s) for s in sorted(ad)))
    if st["out"] == "Broken":
        return "Broken"
    return C.app("Rejected", st["out"])


def case_term(run):
    verts = list(range(run["n0"]))
    items = []
    for st in run["steps"]:
        if st["out"] not in ("Accepted", "OutsideSimplex", "AlreadyVertex", "InsideHull", "Broken"):
            break
        a = st["rec"]
        if st["out"] == "Accepted":
            verts = verts + [st["pid"]]
        vis = [(simp(f), v1 == -v2) for f, _c, v1, v2, _s in a.orient if all(i is not None for i in f)]
        r = C.app("mkr", s_term(simp(a.locate or ())), C.lst(C.nat(int(i)) for i in (a.reduce[1] if a.reduce else [])),
                  tbl_term(vis), tbl_term([(simp(s), b) for s, b in a.flat]),
                  tbl_term([(simp(s), b) for _p, s, b in a.circ]))
        op = C.app("RAdd", C.nat(st["pid"]), C.opt(st["hint"], lambda h: s_term(simp(h))), r)
        items.append(C.tup(op, out_term(st), C.app("Some", obs_term(st["obs"], verts))))
    init = C.pair(C.lst(C.nat(i) for i in range(run["n0"])), C.lst(s_term(s) for s in run["init_simplices"]))
    return C.tup(C.nat(run["d"]), init, C.lst(items, sep=";\n  "))


def spec_of(run):
    return {"d": run["d"], "init": run["init"], "T": run["T"], "family": run["family"], "inserts": run["inserts"]}


def nontrivial(run):
    hull = any(st["path"] == "hull_extension" for st in run["steps"])
    big = any(st["out"] == "Accepted" and len(st["ret"][0]) >= 2 for st in run["steps"])
    rej = any(st["out"] in ("OutsideSimplex", "AlreadyVertex", "InsideHull") for st in run["steps"])
    return hull and big and rej


# ---------------------------------------------------------------------------
def run(chk: Check) -> int:
    chk.prove(["theories/Props/C03.vo", "theories/Run/TriRun.vo"], THEOREMS)
    ncases = 320 if chk.quick else 3000
    cases, metas = [], []
    hist = {"kind": {}, "path": {}, "dim": {}, "family": {}, "hint": {}, "transform": {}, "metric_scale": {}, "offset": {}}
    tot = {"steps": 0, "pred_checked": 0, "fragile_decisions": 0, "fragile_cases": 0, "general_position_cases": 0,
           "degenerate_initial_skipped": 0, "would_fail_but_fragile": 0, "hull_extension_deleting_old_simplices": 0}
    fragile_kinds, min_margin, discarded = {}, {}, {}

    def bump(h, k):
        hist[h][str(k)] = hist[h].get(str(k), 0) + 1

    def add(run_, origin):
        orc = run_["oracle"]
        cases.append(case_term(run_))
        metas.append({"origin": origin, "spec": spec_of(run_)})
        chk.note_case((run_["d"], run_["init"], run_["T"], [(i["p"], i["hint"]) for i in run_["inserts"]]), nontrivial(run_))
        bump("dim", run_["d"])
        bump("family", run_["family"])
        bump("transform", "identity" if run_["T"] is None else "diag ratio %g" % (max(run_["T"]) / min(run_["T"])))
        bump("metric_scale", "1" if run_["T"] is None else "%g" % min(min(run_["T"]), 1.0))
        far = max(abs(x) for x in run_["init"][0])
        bump("offset", "<10" if far < 10 else "10..99" if far < 100 else "100..999" if far < 1000 else
             "1e3..1e4" if far < 1e4 else ">=1e4")
        for st in run_["steps"]:
            bump("kind", st["kind"])
            bump("path", st["path"])
            bump("hint", st["hint_kind"])
            a = st["rec"]
            if st["path"] == "hull_extension":
                if st["ret"][0]:
                    tot["hull_extension_deleting_old_simplices"] += 1
        tot["steps"] += len(run_["steps"])
        tot["pred_checked"] += orc.pred_checked
        tot["old_facets_checked"] = tot.get("old_facets_checked", 0) + getattr(orc, "old_facets_checked", 0)
        tot["fragile_decisions"] += orc.fragile
        tot["inside_hull_rejections_compared_with_exact_hull"] = \
            tot.get("inside_hull_rejections_compared_with_exact_hull", 0) + orc.inside_hull_judged
        tot["robustly_exterior_points_rejected"] = tot.get("robustly_exterior_points_rejected", 0) + orc.exterior_rejected
        tot["hull_reference_point_in_facet_hyperplane"] = \
            tot.get("hull_reference_point_in_facet_hyperplane", 0) + orc.bad_reference_decisions
        tot["fragile_cases"] += bool(orc.fragile)
        tot["general_position_cases"] += bool(run_["general"])
        tot["would_fail_but_fragile"] += orc.would_fail_fragile
        for k, v in orc.fragile_kinds.items():
            fragile_kinds[k] = fragile_kinds.get(k, 0) + v
        for k, v in orc.min_margin.items():
            min_margin[k] = min(min_margin.get(k, 1.0), v)
        for k, v in orc.discarded.items():
            discarded[k] = discarded.get(k, 0) + v
        if len(run_["steps"]) >= 4 and run_["T"] is not None:
            chk.sample({"dim": run_["d"], "initial": run_["init"], "transform_diag": run_["T"],
                        "insertions": [(i["kind"], i["p"], i["hint_kind"]) for i in run_["inserts"]][:8],
                        "outcomes": [st["path"] for st in run_["steps"]][:8]})
        for clause, msg, step in orc.errors[:1]:
            spec = spec_of(run_)
            spec["inserts"] = spec["inserts"][:step + 1]
            chk.fail(f"C03:{clause}", f"Triangulation dim={run_['d']} transform={run_['T']} step {step}: {msg}", spec)
        for kind, what, rec_, ex, m, step in orc.pred_mismatch[:1]:
            spec = spec_of(run_)
            spec["inserts"] = spec["inserts"][:step + 1]
            chk.broke("correspondence", f"geometric predicate differs from exact arithmetic with the documented tolerances: "
                                        f"{what} returned {rec_}, exact {ex} (margin {m:.3g}); case {origin}", spec)

    corpus = sorted((chk.work.parents[1] / "corpus" / "C03").glob("*.json"))
    for f in corpus:
        dsc = json.loads(f.read_text())
        r = drive(dsc["d"], dsc["init"], dsc["T"], dsc.get("family", "lattice"), inserts=dsc["inserts"])
        if r is not None:
            add(r, f.name)

    def generated(rng, origin, flat):
        """one generated case; `flat`: an initial configuration whose first d+1 points are affinely dependent,
        followed by exterior insertions facing the hull facet through them (see FLAT_FIRST / choose_facing)"""
        d = rng.choice([2, 2, 3, 3, 4])
        facing = ()
        if flat:
            family = rng.choice({2: ["grid", "flatfirst"], 3: ["boxprod", "grid", "flatfirst"],
                                 4: ["boxprod", "flatfirst", "flatfirst"]}[d])
        else:
            family = rng.choice(["simplex", "simplex", "unit", "box", "lattice", "dyadic"])
            if family == "box" and d == 4:
                family = "simplex"
        T = transform_of(rng, d, family, chk.quick)
        off = offset_of(rng, d)
        init = initial_points(rng, d, family, off)
        if flat:
            nmax = {2: 6, 3: 5, 4: 3}[d] if chk.quick else {2: 10, 3: 8, 4: 5}[d]
            nins = rng.randint(2, nmax)
            first = 0 if rng.random() < 0.6 else rng.randint(1, min(2, nins - 1))
            facing = {first} | {j for j in range(first + 1, nins) if rng.random() < 0.35}
        else:
            nmax = {2: 9, 3: 7, 4: 5}[d] if chk.quick else {2: 14, 3: 10, 4: 7}[d]
            if family == "box":
                nmax = max(2, nmax - 2 ** d // 2)
            nins = rng.randint(2, nmax)
        try:
            return drive(d, init, T, family, rng=rng, nins=nins, volume_every_step=(d < 4 or not chk.quick), off=off,
                         facing=facing)
        except ValueError:
            return None     # scipy refused the initial points
        except Exception as e:  # noqa: BLE001  (fail closed, but keep going with the other cases)
            chk.fail("C03:internal_error", f"Triangulation dim={d} transform={T}: driving the case raised "
                                           f"{type(e).__name__}: {str(e)[:100]}",
                     {"d": d, "init": [list(q) for q in init], "T": T, "family": family, "inserts": [], "seed_case": origin})
            return None

    # a fixed share on top of the ordinary cases (their random streams are untouched): 48 of 368 quick, 400 of 3400 thorough
    nflat = 48 if chk.quick else 400
    for salt, want, flat in (("case", ncases, False), ("flatfirst", nflat, True)):
        k = made = 0
        while made < want:
            origin = f"seed{chk.seed}/{k}" if not flat else f"seed{chk.seed}/flatfirst{k}"
            r = generated(chk.rng(salt, k), origin, flat)
            k += 1
            if r is None:
                tot["degenerate_initial_skipped"] += 1
                continue
            made += 1
            if flat:
                tot["flat_first_cases"] = tot.get("flat_first_cases", 0) + 1
                tot["flat_first_exterior_insertions_accepted"] = tot.get("flat_first_exterior_insertions_accepted", 0) + sum(
                    st["kind"].startswith(("facing", "beyond_face")) and st["path"] == "hull_extension" for st in r["steps"])
            add(r, origin)
    mism, legal, errors = chk.coq_cases("cases", PREAMBLE, "case", cases, "check", "is_legal", shard=40,
                                        extra=["sum3 (map cavity_stats_of cases)"])
    # inside Coq, on the recorded predicate outcomes: how many accepted insertions inside the hull started from a state
    # with the hull property, for how many of them the premise of C03_closed_cavity_keeps_hull_property held (the
    # reported cavity has a closed pseudo-manifold boundary) -- for those the theorem PROVES the hull property of the
    # result -- and how many results have the hull property
    cav = [0, 0, 0]
    for parts in getattr(chk, "last_extra", []):
        m = re.search(r"\((\d+),\s*(\d+),\s*(\d+)\)", " ".join(parts[0].split())) if parts else None
        if m:
            cav = [a + int(b) for a, b in zip(cav, m.groups())]
    if cav[1] > cav[2]:
        chk.broke("proof", "C03_closed_cavity_keeps_hull_property contradicted by an evaluation of the model", cav)
    for e in errors:
        chk.broke("correspondence", "Model/Tri.v cases could not be evaluated", e)
    for c, s in mism[:5]:
        m = metas[c]
        spec = dict(m["spec"])
        spec["inserts"] = spec["inserts"][:s + 1]
        chk.broke("correspondence", f"Model/Tri.v vs Triangulation: case {m['origin']} step {s}", spec)
    if legal != len(cases):
        chk.broke("correspondence", f"only {legal} of {len(cases)} generated histories are legal for the model "
                                    "(a located / hinted simplex was not in the triangulation)", "")
    chk.extra.update({"histograms": hist, "totals": tot, "fragile_decisions_by_predicate": fragile_kinds,
                      "smallest_robust_margin_by_predicate": min_margin, "fragility_thresholds": FRAGILE,
                      "verdicts_discarded_as_fragile_by_clause": discarded,
                      "interior_insertions_from_hull_property_states_per_coq": cav[0],
                      "of_these_closed_cavity_premise_held_so_theorem_applies": cav[1],
                      "of_these_result_has_hull_property": cav[2],
                      "legal_histories_per_coq": legal, "cases_compared_in_coq": len(cases), "mismatches": len(mism),
                      "exhaustive": False,
                      "not_proved": "C03_tiling_partial: facet multiplicity <= 2 AT THE NEW VERTEX (facets without it: proved, "
                                    "C03_old_facets_stay_le2), volumes = hull volume, Delaunay -- decided per run by the "
                                    "exact oracle only"})
    chk.log(f"correspondence: {len(cases)} cases / {tot['steps']} insertions, {len(mism)} mismatches, {legal} legal; "
            f"predicates tied to exact arithmetic: {tot['pred_checked']} ({tot['fragile_decisions']} fragile discarded); "
            f"oracle failures {len(chk.failures)}")
    return chk.finish(
        level="proof",
        rule="real Triangulation driven in dims 2-4 from one lattice simplex / unit simplex / box corners / several lattice "
             "points (Euclidean only) / dyadic general-position points, 2..14 insertions of lattice points, centroids, edge "
             "midpoints, dyadic facet points, co-circular lattice points, far exterior points and duplicates, with no hint, a "
             "containing simplex, a wrong simplex or the empty hint, transform identity or diag with ratio <= 100, optionally "
             "times a small length scale (1e-6 .. 3e-8: circumradii far below 1 in the metric), whole point set optionally "
             "translated by 10 .. 3e4 (4-D: <= 100) from the origin; plus a fixed share (48 quick / 400 thorough cases) "
             "constructed from MORE than dim+1 points whose first dim+1 points are affinely dependent (box corners in "
             "itertools.product order, full lattice grids in lexicographic order, collinear / coplanar points first; axes "
             "permuted) followed by exterior points beyond the hull facet through those first points and beyond other "
             "faces of the bounding box (straight or oblique, simplex=None or simplex=()) mixed with the ordinary insertions; "
             "an insertion refused as 'inside the hull' is compared with the exact convex hull of the points; "
             "non-trivial = at least one hull extension, one insertion deleting >= 2 simplices and one rejection; distinct by "
             "(points, hints, transform)",
        assumptions=["PARTIAL: the Coq theorems cover the combinatorial bookkeeping for all predicate outcomes, incl. facet "
                     "multiplicity <= 2 for every facet that does not contain the vertex being inserted (so an overlap can "
                     "only start at the new vertex; read off the real object after every accepted insertion as clause "
                     "'old_facet_overlap'); multiplicity at the new vertex, volumes and Delaunay are checked per run by the "
                     "exact-rational oracle only",
                     "hand-written model Model/Tri.v tied to the code by the sampled correspondence (predicate outcomes "
                     "recorded from the real run) and by the exact-arithmetic tie of each recorded predicate",
                     "domain: the triangulation the point is inserted into is Delaunay in the metric used (single initial "
                     "simplex, box corners, or Euclidean metric); scipy's initial Delaunay is trusted and must be "
                     "non-degenerate",
                     "cases containing a predicate decision with a tiny exact margin are excluded from the geometric "
                     "verdicts (counted in totals.fragile_cases)"])


def replay(doc) -> int:
    bad = 0
    items = doc.get("failing_inputs", []) + [b for b in doc.get("no_longer_checks", []) if isinstance(b.get("detail"), dict)]
    for f in items:
        r = f.get("replay") or f.get("detail")
        run_ = drive(r["d"], r["init"], r["T"], r.get("family", "lattice"), inserts=r["inserts"])
        if run_ is None:
            print("initial triangulation degenerate")
            continue
        orc = run_["oracle"]
        print("replayed dim", r["d"], "transform", r["T"], len(run_["steps"]), "insertions ->",
              orc.errors[:3] or orc.pred_mismatch[:2] or "oracle silent")
        bad += bool(orc.errors or orc.pred_mismatch)
    return 1 if bad else 0
