"""C06 -- Runners account for every failed evaluation: bounded retries, nothing lost.

proof          : coq/theories/Props/C06.v (model Model/Runner.v, proofs Proofs/RunnerProofs.v)
correspondence : the REAL runners under the controlled scheduler with FAULT PLANS (which evaluation of
                 which point raises); recorded traces replayed through the model inside Coq
search         : from-scratch oracle of the property text (evaluation counts, retry-before-new, told
                 once with the first success, failed / to_retry / tracebacks, the RuntimeError)
"""
from __future__ import annotations

import itertools

from .. import impl_runner as I
from .. import impl_runner_oracle as O
from ..core import Check

THEOREMS = {n: "Props.C06" for n in [
    "C06_bounded_retries", "C06_retry_before_new", "C06_told_once_first_success", "C06_failed_listed",
    "C06_failed_for_ever", "C06_raise_or_continue"]}
ORACLES = [O.oracle_c06, O.oracle_c05]


def nontrivial(rec, ft):
    return ft["nretry"] > 0 and (ft["exhausted"] or ft["nfail"] >= 2)


def fault_spec(kind, ntasks, total, retries, raise_, faults, goal=None):
    return {"kind": kind, "learner": "mock", "total": total, "goal": total if goal is None else goal, "ntasks": ntasks,
            "ncores": 1, "retries": retries, "raise": raise_, "log": False, "allow_cancel": False,
            "shutdown_executor": False, "faults": faults}


def random_fault_spec(rng, big):
    spec = I.random_spec(rng, faults=False, cancel=rng.random() < 0.3, big=big,
                         learner=rng.choice(["mock"] * 5 + ["Learner1D", "SequenceLearner", "AverageLearner"]))
    R = spec["retries"]
    style = rng.choice(["iid", "iid", "stubborn", "first_attempt", "all_but_last"])
    npts = spec["total"] + 3 if spec["learner"] in ("mock", "SequenceLearner") else 3 * spec["total"] + 6
    p = rng.choice([0.15, 0.3, 0.5])
    for pt in range(npts):
        for att in range(1, R + 3):
            if style == "iid":
                bad = rng.random() < p
            elif style == "stubborn":
                bad = pt % 3 == 0
            elif style == "first_attempt":
                bad = att == 1 and rng.random() < 0.7
            else:
                bad = att <= R and rng.random() < 0.6
            if bad:
                spec["faults"][f"{pt}:{att}"] = True
    return spec


def run(chk: Check) -> int:
    chk.prove(["theories/Props/C06.vo", "theories/Run/RunnerRun.vo"], THEOREMS)
    col = I.Collector(chk, "C06", ORACLES, nontrivial)
    for name, doc in I.corpus_docs("C06"):
        col.add(I.rerun(doc), name)
    n = 1500 if chk.quick else 10000
    for k in range(n):
        if col.enough():
            break
        rng = chk.rng("case", k)
        col.add(I.safe_run(col, random_fault_spec(rng, not chk.quick), I.RandomSched(rng), f"seed{chk.seed}/{k}"), f"seed{chk.seed}/{k}")
    # exhaustive fault plans: every assignment of success/failure to the first retries+1 evaluations of
    # each point, both raise settings, all runner kinds; every schedule (subsets, one order) for each
    exh = {}
    if chk.quick:
        plans = [(kind, nt, T, R, rz) for kind in I.KINDS for (nt, T, R) in ((2, 2, 0), (2, 2, 1), (2, 3, 0), (3, 2, 1), (2, 2, 2))
                 for rz in (True, False)]
    else:
        plans = [(kind, nt, T, R, rz) for kind in I.KINDS for nt in (1, 2, 3) for T in (1, 2, 3)
                 for R in (0, 1, 2) for rz in (True, False) if (R + 1) * T <= 6 and nt <= T + 1]
    for kind, nt, T, R, rz in plans:
        # attempts 1..retries+1 are all that correct code ever starts; a retries+2-nd evaluation (started only
        # by over-retrying code, which the evaluation count and the model catch at its submission) succeeds
        keys = [f"{pt}:{att}" for pt in range(T) for att in range(1, R + 2)]
        cnt = 0
        for bits in itertools.product((False, True), repeat=len(keys)):
            if col.enough():
                break
            faults = {k: True for k, b in zip(keys, bits) if b}
            spec = fault_spec(kind, nt, T, R, rz, faults)
            for rec in I.enumerate_scheds(lambda s, spec=spec: I.safe_run(col, spec, s, "exhaustive"), orders="sub", cancel=False, limit=20000):
                cnt += 1
                col.add(rec, f"exhaustive {kind} ntasks={nt} points={T} retries={R} raise={rz} faults={sorted(faults)} #{cnt}",
                        coq=(cnt % (1 if chk.quick else 3) == 0))
                if rec is None or rec.machinery or col.enough():
                    break
        exh[f"{kind} ntasks={nt} points={T} retries={R} raise={rz}"] = cnt
    col.flush()
    st = col.stats
    chk.extra.update(st)
    chk.extra.update({"exhaustive_fault_plans_x_schedules_per_config": exh,
                      "exhaustive_small_scope_cases": sum(exh.values()), "exhaustive": False})
    chk.log(f"runs {st['runs']} (exhaustive {sum(exh.values())}), compared in Coq {st['compared_in_coq']}, "
            f"mismatches {st['mismatches']}, oracle failures {st['oracle_failures']}")
    return chk.finish(
        rule="real runners under the controlled scheduler with fault plans (iid / stubborn points / first attempt fails / all but the "
             "last allowed attempt fail), retries 0..3, both raise settings, random schedules; plus every success/failure assignment "
             "to the first retries+1 evaluations of each point for small runs, every completion subset; non-trivial = at least one "
             "retried evaluation and (a point exhausted its retries or >= 2 failures); distinct by (spec, schedule)",
        assumptions=["hand-written model Model/Runner.v tied to adaptive/runner.py by the sampled + small-scope-exhaustive correspondence",
                     "traceback texts are not modelled (the oracle checks that the stored traceback names the exception)",
                     "a no-raise run whose learner has nothing left would spin (BlockingRunner) / raise ValueError from "
                     "asyncio.wait([]) (AsyncRunner): the scenario goal stops such runs, outside the property's statement"])


def replay(doc) -> int:
    return I.replay_failures(doc, ORACLES)
