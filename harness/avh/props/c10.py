"""C10 -- Telling is faithful bookkeeping: data, pending set and re-tells.

proof          : coq/theories/Props/C10.v about Model/Seq.v, Model/L1D.v, Model/Avg.v, Model/Avg1D.v + Avg1DPend.v,
                 Model/DataSaver.v and Model/Balancing.v (from the same clauses of the wrapped learners), Model/Integrator.v,
                 Model/LND.v: data = told points with the last / first told value; told is not pending; asked is pending
                 until told or discarded; npoints = distinct told points; re-tell is a no-op; discard empties pending and
                 equalises the two losses -- for ALL histories of the stated domains; clauses a model cannot express (values
                 of Integrator / LearnerND, loss of AverageLearner1D) are left out and the theorem is named _partial;
                 the known findings F20, F22, F24 are _refuted witnesses on the models
correspondence : Seq, L1D, Avg, Avg1D+pending, LearnerND (with re-tells) vs the real classes on histories rich in re-tells
                 (same and different values), unsolicited points, tell_pending of arbitrary points, batches and discards,
                 compared step by step inside Coq; Integrator / Balancing / DataSaver models by C07 / C15 / C18
search         : from-scratch bookkeeping oracle on the REAL classes, every learner type and both wrappers, after every op
"""
from __future__ import annotations

import concurrent.futures as cf
import json
import random
import warnings

from .. import impl_generic as G
from .. import impl_l1d as I
from ..core import Check, NPROC
from . import c09, c17

THEOREMS = {n: "Props.C10" for n in [
    "C10_seq_data_exact", "C10_seq_data_determined", "C10_seq_told_not_pending", "C10_seq_data_pending_disjoint",
    "C10_seq_asked_is_pending", "C10_seq_npoints", "C10_seq_retell_noop", "C10_seq_discard",
    "C10_order_laws_Z", "C10_l1d_inv", "C10_l1d_data_exact", "C10_l1d_batch_overwrites", "C10_l1d_told_not_pending",
    "C10_l1d_data_pending_disjoint", "C10_l1d_asked_is_pending", "C10_l1d_npoints", "C10_l1d_retell_noop", "C10_l1d_discard",
    "C10_avg_data_exact", "C10_avg_told_not_pending", "C10_avg_data_pending_disjoint", "C10_avg_asked_is_pending",
    "C10_avg_npoints", "C10_avg_retell_noop", "C10_avg_discard",
    "C10_eqlaws_Z", "C10_avg1d_data_exact", "C10_avg1d_told_exact", "C10_avg1d_told_not_pending",
    "C10_avg1d_data_pending_disjoint", "C10_avg1d_commit_hands_out_told_refuted", "C10_avg1d_asked_is_pending",
    "C10_avg1d_nsamples", "C10_avg1d_retell_noop", "C10_avg1d_discard_partial",
    "C10_ds_observables_are_childs", "C10_ds_told_not_pending", "C10_ds_asked_is_pending", "C10_ds_extra_exact",
    "C10_ds_retell_noop", "C10_ds_retell_overwrites_extra", "C10_ds_discard", "C10_ds_extra_overwritten_refuted",
    "C10_bal_data_after_tell", "C10_bal_told_not_pending", "C10_bal_npoints", "C10_bal_retell_noop", "C10_bal_discard",
    "C10_bal_discard_losses", "C10_bal_asked_is_pending",
    "C10_int_inv", "C10_int_data_exact_partial", "C10_int_tell_bookkeeping", "C10_int_asked_is_pending",
    "C10_int_retell_points_partial",
    "C10_lnd_data_exact_partial", "C10_lnd_told_not_pending", "C10_lnd_data_pending_disjoint", "C10_lnd_ask_bookkeeping",
    "C10_lnd_asked_is_pending", "C10_lnd_retell_noop", "C10_lnd_discard", "C10_lnd_ask_hands_out_told_refuted"]}

SIG_F5 = "C10:F5 LearnerND.ask after remove_unfinished raises AssertionError"
SIG_F11 = "C10:F11 AverageLearner.loss(real=False) ZeroDivisionError with pending points and no data"
SIG_F7 = "C10:F7 Learner2D unusable on numpy>=2.x/scipy>=1.15 (choose_point_in_triangle raises)"
SIG_F20 = ("C10:F20 DataSaver.tell of a known point overwrites extra_data although the wrapped learner keeps the first value "
           "(extra_data no longer belongs to data)")
SIG_F22 = ("C10:F22 AverageLearner1D.ask hands out an already told (seed, x) after samples with non-consecutive seeds and "
           "marks it pending (told point in pending_points)")
SIG_F25 = "C10:F25 AverageLearner1D keeps offering (seed, bound) while that sample is only pending"
SIG_F24 = ("C10:F24 LearnerND without a triangulation hands out a random point that is already told (not checked against data; its "
           "private RNG is rolled back by ask(tell_pending=False)) and marks it pending")
SIG_F2 = ("C10:F2 BalancingLearner.remove_unfinished does not invalidate the loss caches (C15:F2): loss(real=False) != "
          "loss(real=True) afterwards although every child reports equal losses")
SIG_F23 = ("C10:F23 AverageLearner1D.tell_many with several samples at one abscissa (tell_many_at_point) leaves the told "
           "(seed, x) in pending_points")
SIG_F10 = ("C10:F10 Learner2D.ask(tell_pending=False) truncates _stack to stack_size and drops corner points re-queued by "
           "remove_unfinished: the corners are neither evaluated, pending nor queued, loss(real=False) raises ValueError('No points given')")
SIG_F6 = ("C10:F6 Learner2D.remove_unfinished leaves the combined interpolator (_ip_combined) stale: loss(real=False) != "
          "loss(real=True) after a discard")
SIG_F21 = ("C10:F21 AverageLearner1D.tell_many_at_point re-tells: a known seed is overwritten and counted again "
           "(tell ignores it; nsamples exceeds the number of distinct samples)")


# vector-valued outputs (zero vectors among the told values) and a 3-D LearnerND behind both wrappers
EXTRA_SPECS = [{"kind": "L1D", "vec": True}, {"kind": "LND", "vec": True}, {"kind": "DS", "child": {"kind": "LND", "dim": 3}},
               {"kind": "Bal", "child": {"kind": "LND", "dim": 3, "loss": "uniform"}, "nchild": 2, "strategy": "loss_improvements"}]

# domains whose axes have DIFFERENT ranges, overlapping and disjoint (code that takes the range of the wrong axis, e.g. when
# clipping a candidate, is invisible on a square / cube), plain and behind both wrappers
BOX_A, BOX_B, BOX_C = [[0.0, 1.0], [2.0, 3.0]], [[-3.0, -2.0], [0.5, 1.5]], [[0.0, 2.0], [-1.0, 3.0]]
BOX_SPECS_ND = [{"kind": "LND", "bounds": BOX_A}, {"kind": "LND", "dim": 3, "bounds": [[10.0, 12.0], [-1.0, 1.0], [0.25, 0.5]]},
                {"kind": "Bal", "child": {"kind": "LND", "bounds": BOX_B}, "nchild": 2, "strategy": "loss"}]
BOX_SPECS_2D = [{"kind": "L2D", "bounds": BOX_A}, {"kind": "L2D", "bounds": BOX_B}, {"kind": "L2D", "bounds": BOX_C},
                {"kind": "DS", "child": {"kind": "L2D", "bounds": BOX_A}},
                {"kind": "Bal", "child": {"kind": "L2D", "bounds": BOX_B}, "nchild": 2, "strategy": "npoints"}]


def has_ds(spec):
    """Is there a DataSaver anywhere in the (possibly nested) configuration?"""
    return spec["kind"] == "DS" or spec["kind"] == "Bal" and has_ds(spec["child"])


def sig(spec, clause):
    return f"C10:{G.spec_name(c09._sig_spec(spec))}:{clause}"


class Oracle:
    """The property text, from scratch, on what the real object exposes."""

    def __init__(self, ad, spec):
        self.ad, self.spec = ad, spec
        self.told = {}          # key -> canonical stored value
        self.pending = set()    # keys handed out by committing asks / tell_pending, not told, not discarded
        self.errors = []        # (signature, message)
        self.stop = False
        self.rehanded = set()   # told keys that a committing ask handed out again
        self.open_bounds = set()
        self.no_tri_leaf = False  # before the last ask: some LearnerND leaf had no triangulation (F24's precondition)
        self.after_f22 = False    # F22 fired: from here on only the clause that is independent of it is judged (check_just_told)

    def err(self, signature, msg):
        if all(s != signature for s, _ in self.errors):
            self.errors.append((signature, msg))

    # -- bookkeeping of what the caller did
    def note_tell(self, p, v):
        k = self.ad.key(self.ad.point(p))
        sv = self.ad.stored(v)
        if k not in self.told or not self.ad.keeps_first:
            self.told[k] = sv
        self.pending.discard(k)
        return k

    def note_ask(self, out):
        for p in out[1]:
            k = self.ad.key(self.ad.point(p))
            if k not in self.told:
                self.pending.add(k)
            else:
                self.rehanded.add(k)

    def check_ask(self, op, out):
        """Nothing to check: C10 does not demand that one ask returns distinct points (C02, C04, C16 and C17 state
        that for the learners they cover).  An earlier version compared the answer for duplicates and raised
        'ask-distinct' / F25 (AverageLearner1D re-offers a bound whose sample is only pending): that demanded
        more than the property says and was removed as a false alarm (DESIGN 13.16)."""
        return

    def _is_unevaluated_bound(self, k):
        if self.spec["kind"] == "Bal":
            return (k[1], k[2][2]) in self.open_bounds
        return (None, k[2]) in self.open_bounds

    def note_open_bounds(self, l):
        """Before an ask: the bounds of every AverageLearner1D leaf that have no evaluated sample yet."""
        self.open_bounds = set()
        if G.base_kind(self.spec) != "Avg1D":
            return
        top_bal = self.spec["kind"] == "Bal"
        kids = [(i if top_bal else None, b) for i, (a, b) in enumerate(c09.leaves(self.ad, l))]     # innermost learners (any nesting)
        for i, c in kids:
            for b in c.bounds:
                if b not in c.data:
                    self.open_bounds.add((i, G.canon(float(b))))

    def note_tell_pending(self, p):
        k = self.ad.key(self.ad.point(p))
        if k not in self.told:
            self.pending.add(k)

    def note_discard(self):
        if not self.ad.discard_noop:
            self.pending = set()

    # -- the clauses
    def check_just_told(self, l, op):
        """IMMEDIATELY after tell / tell_many of a point p -- a first tell, a re-tell, also of a point that a listed finding
        (F22) had made pending although it has a value -- p is not in pending_points.  Independent of F22: judged on every
        history, also after an F22 event."""
        if op[0] not in ("tell", "tell_many"):
            return
        ad = self.ad
        pts = [op[1]] if op[0] == "tell" else list(op[1])
        try:
            pend = set(ad.pending(l))
        except Exception:  # noqa: BLE001  (reported by check_state)
            return
        bad = [p for p in pts if ad.key(ad.point(p)) in pend]
        if bad:
            self.err(sig(self.spec, "told-still-pending-after-tell"),
                     f"{G.spec_name(self.spec)}: told point still pending after tell: {G.short(op)} left {G.short(bad[0])} in pending_points")

    def check_state(self, l, op, snap):
        if self.after_f22:
            return
        ad, name = self.ad, G.spec_name(self.spec)
        if G.is_exc(snap["data"]) or isinstance(snap["data"], tuple) and snap["data"][:1] == ("exc",):
            self.err(sig(self.spec, "data-raises"), f"{name}: reading data raised {G.short(snap['data'])} after {G.short(op)}")
            self.stop = True
            return
        data = dict(ad.data_items(l))
        if data != self.told:
            missing = [k for k in self.told if k not in data]
            extra = [k for k in data if k not in self.told]
            wrong = [k for k in self.told if k in data and data[k] != self.told[k]]
            what = (f"told points missing from data: {G.short(missing[:2])}" if missing else
                    f"data holds points never told: {G.short(extra[:2])}" if extra else
                    f"data[{G.short(wrong[0])}] = {G.short(data[wrong[0]])} but the value told {'first' if ad.keeps_first else 'last'} "
                    f"was {G.short(self.told[wrong[0]])}")
            self.err(sig(self.spec, "data-exact"), f"{name} after {G.short(op)}: {what}")
        pend = set(ad.pending(l))
        bad = [k for k in self.told if k in pend]
        if bad and G.base_kind(self.spec) == "Avg1D" and all(k in self.rehanded for k in bad):
            self.err(SIG_F22, f"{name} after {G.short(op)}: the committing ask returned {G.short(bad[0])}, which already has a value, "
                              f"and marked it pending")
            self.after_f22 = True       # the history goes on; only check_just_told keeps judging
        elif bad and G.base_kind(self.spec) == "LND" and all(k in self.rehanded for k in bad):
            self.err(SIG_F24, f"{name} after {G.short(op)}: the committing ask returned {G.short(bad[0])}, which already has a value, "
                              f"and marked it pending")
            self.stop = True
        elif bad and G.base_kind(self.spec) == "Avg1D" and op[0] == "tell_many" and self._same_x_batch(op, bad):
            self.err(SIG_F23, f"{name} after {G.short(op)}: told point {G.short(bad[0])} is still in pending_points")
            self.stop = True
        elif bad:
            self.err(sig(self.spec, "told-not-pending"), f"{name} after {G.short(op)}: told point {G.short(bad[0])} is still in pending_points")
        lost = [k for k in self.pending if k not in pend]
        if lost:
            self.err(sig(self.spec, "asked-is-pending"),
                     f"{name} after {G.short(op)}: point {G.short(lost[0])} handed out by a committing ask (or marked by tell_pending) "
                     f"and neither told nor discarded is not in pending_points")
        exp_n = ad.count_points(list(self.told))
        if snap["npoints"] != exp_n:
            self.err(sig(self.spec, "npoints"), f"{name} after {G.short(op)}: npoints = {G.short(snap['npoints'])} but {exp_n} distinct points were told")
        self.check_extras(l, op)
        le = snap["loss_exp"]
        if isinstance(le, tuple) and le[:1] == ("exc",):
            if le[1] == "ZeroDivisionError" and G.base_kind(self.spec) == "Avg":
                self.err(SIG_F11, f"{name} after {G.short(op)}: loss(real=False) raised ZeroDivisionError "
                                  f"(npoints={G.short(snap['npoints'])}, {len(pend)} pending)")
            elif G.base_kind(self.spec) == "L2D" and self._l2d_corners_lost(l):
                self.err(SIG_F10, f"{name} after {G.short(op)}: loss(real=False) raised {G.short(le)}; a Learner2D has corner points that are "
                                  f"neither in data, nor pending, nor on its stack")
                self.stop = True
            else:
                self.err(sig(self.spec, "loss-raises"), f"{name} after {G.short(op)}: loss(real=False) raised {G.short(le)}")

    def _l2d_corners_lost(self, l):
        for a, b in c09.leaves(self.ad, l):
            if a.spec["kind"] == "L2D" and any(p not in b.data and p not in b.pending_points and p not in b._stack for p in b._bounds_points):
                return True
        return False

    def _same_x_batch(self, op, bad):
        pts = [self._leaf_point(p) for p in op[1]]
        xs = [p[1] for p in pts]
        return any(xs.count(x) > 1 for x in xs)

    def _leaf_point(self, p):
        ad = self.ad
        while ad.spec["kind"] in ("Bal", "DS"):
            if ad.spec["kind"] == "Bal":
                p = p[1]
            ad = ad.child
        return p

    def check_extras(self, l, op):
        """Learner-specific records that must agree with the told samples."""
        ad, name = self.ad, G.spec_name(self.spec)
        for a, b in c09.leaves(ad, l):
            if a.spec["kind"] == "Avg1D":
                nsmp = sum(len(s) for s in b._data_samples.values())
                if b.nsamples != nsmp:
                    self.err(SIG_F21 if op[0] == "tell_many" else sig(self.spec, "nsamples"),
                             f"{name} after {G.short(op)}: nsamples = {b.nsamples} but {nsmp} distinct (seed, x) samples are stored")
                    self.stop = True
                for x, smp in b._data_samples.items():
                    m = sum(smp.values()) / len(smp)
                    if abs(b.data[x] - m) > 1e-9 * (1 + abs(m)):
                        self.err(SIG_F21 if op[0] == "tell_many" else sig(self.spec, "mean"),
                                 f"{name} after {G.short(op)}: data[{x}] = {b.data[x]!r} is not the mean {m!r} of its {len(smp)} samples")
                        self.stop = True
                        break
            if a.spec["kind"] == "Avg":
                vals = list(b.data.values())
                if b.npoints != len(vals) or abs(b.sum_f - sum(vals)) > 1e-9 * (1 + abs(sum(vals))):
                    self.err(sig(self.spec, "running-sums"),
                             f"{name} after {G.short(op)}: npoints/sum_f = {b.npoints}/{b.sum_f!r} but data has {len(vals)} values summing to {sum(vals)!r}")

    def check_retell(self, op, before, after, same_value):
        ad, name = self.ad, G.spec_name(self.spec)
        d = G.diff_snap(before, after)
        if self.spec["kind"] == "Bal" or G.base_kind(self.spec) == "L2D":
            d = [k for k in d if k not in ("loss_real", "loss_exp", "child_exp")]     # cached; the freshly computed losses are compared
        if not d:
            return
        if has_ds(self.spec) and all(k == "extras" or k.endswith(".extra_data") for k in d) and ad.keeps_first and not same_value:
            self.err(SIG_F20, f"{name}: re-tell {G.short(op)} of a known point left data unchanged but replaced extra_data of that point")
            return
        k = d[0]
        self.err(sig(self.spec, "retell-noop"),
                 f"{name}: re-telling a known point ({'same' if same_value else 'different'} value) {G.short(op)} changed {k}: "
                 f"{G.short(before[k])} -> {G.short(after[k])}")

    def check_discard(self, l, op, before, after):
        ad, name = self.ad, G.spec_name(self.spec)
        if ad.discard_noop:
            d = G.diff_snap(before, after)
            if d:
                self.err(sig(self.spec, "discard-noop"), f"{name}: remove_unfinished changed {d[0]} (documented no-op)")
            return
        if after["pending"] != ():     # canonical empty tuple
            self.err(sig(self.spec, "discard-empties"), f"{name}: pending_points after remove_unfinished: {G.short(after['pending'])}")
        lr, le = after["loss_real"], after["loss_exp"]
        if isinstance(le, tuple) and le[:1] == ("exc",) or isinstance(lr, tuple) and lr[:1] == ("exc",):
            return      # reported by check_state
        if lr != le and self.spec["kind"] == "Bal" and after["fresh_real"] == after["fresh_exp"] and le != after.get("child_exp"):
            self.err(SIG_F2, f"{name}: after remove_unfinished loss(real=False) = {G.short(le)} but loss(real=True) = {G.short(lr)}; "
                             f"the children all report {G.short(after['fresh_exp'])}")
        elif lr != le and G.base_kind(self.spec) == "L2D" and after.get("fresh_exp") == after.get("fresh_real"):
            self.err(SIG_F6, f"{name}: after remove_unfinished loss(real=False) = {G.short(le)} but loss(real=True) = {G.short(lr)} "
                             f"(equal once _ip_combined is rebuilt)")
        elif lr != le:
            self.err(sig(self.spec, "discard-loss"),
                     f"{name}: after remove_unfinished loss(real=False) = {G.short(le)} but loss(real=True) = {G.short(lr)}")


def classify_ask_exception(spec, out, discarded_since_ask):
    """Exceptions of ask are outside C10 except the two listed defects."""
    kind = G.base_kind(spec)
    if out[1] == "AssertionError" and kind == "LND" and "Could not find a simplex" in out[2]:
        return SIG_F5
    if out[1] == "ZeroDivisionError" and kind == "Avg" and any("average_learner.py:mean" in w or "average_learner.py:loss" in w for w in out[3]):
        return SIG_F11
    return None


def run_case(args):
    spec, seed, nops = args[:3]
    directed = len(args) > 3 and args[3]
    warnings.filterwarnings("ignore")
    ad = G.adapter(spec)
    rng = random.Random(seed)
    # (nested wrappers: about every seventh ask is a tentative one -- it must not disturb what the innermost learners hold)
    fragile = (spec["kind"] == "Bal" and G.wrapper_depth(spec) < 2) or G.base_kind(spec) == "Int"
    w = {"commit": 1.0 if fragile else 0.85, "ask": 0.26, "tell": 0.34, "tell_many": 0.09, "tell_pending": 0.08, "retell": 0.14}
    l = ad.make()
    orc = Oracle(ad, spec)
    H, handed = [], []
    stats = {"retell_same": 0, "retell_alt": 0, "unsolicited": 0, "discard_with_pending": 0, "batch": 0}
    snap = G.snapshot(ad, l, fresh=True)
    script = None
    if directed == "hull":
        script = G.hull_ops(ad, l, rng)
    elif directed == "switch":
        script = G.switch_ops(ad, l, rng)
    elif directed:
        script = G.directed_ops(ad, l, rng)
    out = None
    for _ in range(nops):
        op = None
        if script is not None:
            try:
                op = script.send(out) if out is not None or H else next(script)
            except StopIteration:
                script = None
        if op is None:
            op = G.gen_op(ad, l, rng, handed, w)
        before = snap
        known_before = {ad.key(ad.point(p)) for p in G.known_points(ad, l)} if op[0] in ("tell", "tell_many") else set()
        zero_before = op[0] in ("tell", "tell_many") and any(
            G.is_falsy(G.told_value(ad, l, p)) for p in G.known_points(ad, l)
            if ad.key(ad.point(G.plain(p))) in {ad.key(ad.point(q)) for q in ([op[1]] if op[0] == "tell" else op[1])})
        if op[0] == "ask":
            orc.no_tri_leaf = any(a.spec["kind"] == "LND" and b.tri is None for a, b in c09.leaves(ad, l))
            orc.note_open_bounds(l)
        out = G.apply_op(ad, l, op)
        H.append(op)
        if G.is_exc(out):
            if op[0] == "ask":
                s = classify_ask_exception(spec, out, None)
                if s:
                    orc.err(s, f"{G.spec_name(spec)} after {len(H) - 1} ops: {G.short(op)} raised {out[1]}: {out[2]}")
                elif op[1] == 0:
                    H.pop()
                    continue
            else:
                orc.err(sig(spec, f"{op[0]}-raises-{out[1]}"),
                        f"{G.spec_name(spec)} after {len(H) - 1} ops: {G.short(op)} raised {out[1]}: {out[2]} at {out[3][-2:]}")
            break
        c09.track_handed(ad, op, out, handed)
        retell = None
        if op[0] == "ask":
            orc.check_ask(op, out)
            if op[2]:
                orc.note_ask(out)
        elif op[0] == "tell":
            k = ad.key(ad.point(op[1]))
            if k in known_before:
                same = orc.told.get(k) == ad.stored(op[2])
                retell = same
                stats["retell_same" if same else "retell_alt"] += 1
            elif k not in orc.pending:
                stats["unsolicited"] += 1
            orc.note_tell(op[1], op[2])
        elif op[0] == "tell_many":
            stats["batch"] += 1
            ks = [ad.key(ad.point(p)) for p in op[1]]
            if all(k in known_before for k in ks):
                retell = True
            for p, v in zip(op[1], op[2]):
                orc.note_tell(p, v)
        elif op[0] == "tell_pending":
            orc.note_tell_pending(op[1])
        elif op[0] == "remove_unfinished":
            stats["discard_with_pending"] += bool(orc.pending)
            orc.note_discard()
        snap = G.snapshot(ad, l, fresh=True)
        orc.check_state(l, op, snap)
        orc.check_just_told(l, op)
        if retell is not None and (retell or ad.keeps_first) and not orc.after_f22:
            orc.check_retell(op, before, snap, retell)
        if op[0] == "remove_unfinished" and not orc.after_f22:
            orc.check_discard(l, op, before, snap)
        if orc.stop or len(orc.errors) >= 3:
            break
        if retell is not None:
            stats["retell_of_zero"] = stats.get("retell_of_zero", 0) + bool(zero_before)
    fails = [{"signature": s, "what": m, "replay": {"spec": spec, "ops": H}} for s, m in orc.errors]
    return {"spec": spec, "len": len(H), "fails": fails, "stats": stats, "ops": H[:10], "kinds": [op[0] for op in H],
            "ntold": len(orc.told)}


def replay_case(spec, ops):
    """Re-run a concrete history under the oracle (corpus / --replay)."""
    warnings.filterwarnings("ignore")
    ad = G.adapter(spec)
    l = ad.make()
    orc = Oracle(ad, spec)
    snap = G.snapshot(ad, l, fresh=True)
    for i, op in enumerate(ops):
        before = snap
        known_before = {ad.key(ad.point(p)) for p in G.known_points(ad, l)} if op[0] in ("tell", "tell_many") else set()
        if op[0] == "ask":
            orc.no_tri_leaf = any(a.spec["kind"] == "LND" and b.tri is None for a, b in c09.leaves(ad, l))
            orc.note_open_bounds(l)
        out = G.apply_op(ad, l, op)
        if G.is_exc(out):
            if op[0] == "ask":
                s = classify_ask_exception(spec, out, None)
                if s:
                    orc.err(s, f"{G.spec_name(spec)} after {i} ops: {G.short(op)} raised {out[1]}: {out[2]}")
            else:
                orc.err(sig(spec, f"{op[0]}-raises-{out[1]}"), f"{G.spec_name(spec)} after {i} ops: {G.short(op)} raised {out[1]}: {out[2]}")
            break
        retell = None
        if op[0] == "ask":
            orc.check_ask(op, out)
        if op[0] == "ask" and op[2]:
            orc.note_ask(out)
        elif op[0] == "tell":
            k = ad.key(ad.point(op[1]))
            if k in known_before:
                retell = orc.told.get(k) == ad.stored(op[2])
            orc.note_tell(op[1], op[2])
        elif op[0] == "tell_many":
            if all(ad.key(ad.point(p)) in known_before for p in op[1]):
                retell = True
            for p, v in zip(op[1], op[2]):
                orc.note_tell(p, v)
        elif op[0] == "tell_pending":
            orc.note_tell_pending(op[1])
        elif op[0] == "remove_unfinished":
            orc.note_discard()
        snap = G.snapshot(ad, l, fresh=True)
        orc.check_state(l, op, snap)
        orc.check_just_told(l, op)
        if retell is not None and (retell or ad.keeps_first) and not orc.after_f22:
            orc.check_retell(op, before, snap, retell)
        if op[0] == "remove_unfinished" and not orc.after_f22:
            orc.check_discard(l, op, before, snap)
    return orc.errors


def shrink(spec, ops, signature, budget=150):
    """Delta debugging over the op list: smallest history that still fails with the same signature."""
    def fails(o):
        try:
            for s, m in replay_case(spec, o):
                if s == signature:
                    return m
        except Exception:  # noqa: BLE001
            return None
        return None
    what = fails(ops)
    if what is None:
        return ops, None
    ops = list(ops)
    changed = True
    while changed and budget > 0:
        changed = False
        for i in range(len(ops) - 1, -1, -1):
            cand = ops[:i] + ops[i + 1:]
            budget -= 1
            w = fails(cand)
            if w is not None:
                ops, what, changed = cand, w, True
            if budget <= 0:
                break
    return ops, what


# ---------------------------------------------------------------- correspondence for the two modelled learners
def seq_history(rng, n, maxlen):
    h = []
    for _ in range(rng.randint(4, maxlen)):
        r = rng.random()
        if r < 0.25:
            h.append(("ask", rng.choice([0, 1, 2, 3, 5, n, n + 2]), rng.random() < 0.85))
        elif r < 0.70:
            h.append(("tell", rng.choice(["pending", "pending", "known", "known", "known", "todo", "todo"])))
        elif r < 0.80:
            h.append(("tell_pending", "todo_strict"))
        elif r < 0.88:
            h.append(("tell_many", rng.randint(2, 4)))
        else:
            h.append(("remove_unfinished",))
    return h


def l1d_next_op(rng, l, cfg):
    r = rng.random()
    if r < 0.22 and l.data:
        x = rng.choice(list(l.data))
        y = I.yval(cfg, x)
        if rng.random() < 0.6:
            y = tuple(v + 1 for v in y) if isinstance(y, tuple) else y + 1.0
        return ("tell", float(x), y)
    if r < 0.28 and l.data:
        return ("tell_pending", float(rng.choice(list(l.data))))
    if r < 0.36:
        return ("remove_unfinished",)
    return I.gen_next_op(rng, l, cfg)


def correspondence(chk: Check):
    ncs, ncl = (200, 120) if chk.quick else (2000, 1200)
    cases, metas = [], []
    retells = 0
    for k in range(ncs):
        rng = chk.rng("seq", k)
        n = rng.choice([0, 1, 2, 3, 5, 8, 13, 21])
        kind = rng.choice(c17.KINDS)
        try:
            steps, _ = c17.drive(n, kind, seq_history(rng, n, 26 if chk.quick else 80), rng)
        except Exception as e:  # noqa: BLE001
            chk.fail(f"%s:SequenceLearner:raises-{type(e).__name__}" % "C10",
                     f"SequenceLearner(n={n}, {kind}) raised {type(e).__name__}: {str(e)[:120]} on a legal history", {"seq_n": n, "kind": kind, "case": k})
            continue
        seen = set()
        for s in steps:
            if s[0][0] == "tell":
                retells += s[0][1] in seen
                seen.add(s[0][1])
        cases.append(c17.case_term(n, steps))
        metas.append({"n": n, "kind": kind, "ops": [list(s[0]) for s in steps]})
    mism, legal, errors = chk.coq_cases("seqcases", c17.PREAMBLE, "case", cases, "check", "is_legal")
    for e in errors:
        chk.broke("correspondence", "Model/Seq.v cases could not be evaluated", e[-600:])
    for c, s in mism[:3]:
        chk.broke("correspondence", f"Model/Seq.v vs SequenceLearner: case {c} step {s}", dict(metas[c], ops=metas[c]["ops"][:s + 1]))
    chk.extra["seq_correspondence"] = {"cases": len(cases), "mismatches": len(mism), "legal": legal, "re_tells": retells}
    cases, metas = [], []
    retells = discards = 0
    for k in range(ncl):
        rng = chk.rng("l1d", k)
        cfg = {"func": rng.choice(list(I.FUNCS)), "bounds": list(rng.choice(I.BOUNDS)),
               "loss": rng.choice(["default", "uniform", "triangle", "curvature"]), "factor": 2}
        l, rec = I.make_learner(cfg)
        steps = []
        try:
            for _ in range(rng.randint(4, 24 if chk.quick else 70)):
                op = l1d_next_op(rng, l, cfg)
                retells += op[0] == "tell" and op[1] in l.data
                discards += op[0] == "remove_unfinished" and bool(l.pending_points)
                out = I.apply_op(l, op)
                rec.on = False
                o = I.obs_of(l)
                rec.on = True
                steps.append((op, out, o))
        except OverflowError:
            continue
        except Exception as e:  # noqa: BLE001  (the implementation raised on a legal history)
            chk.fail(f"%s:Learner1D:{op[0]}-raises-{type(e).__name__}" % "C10",
                     f"Learner1D({cfg}) raised {type(e).__name__}: {str(e)[:120]} on {G.short(op)} after {len(steps)} ops",
                     {"l1d_cfg": cfg, "ops": [I.op_json(s[0]) for s in steps] + [I.op_json(op)]})
            continue
        cases.append(I.case_term(l, rec, steps))
        metas.append({"cfg": cfg, "ops": [I.op_json(s[0]) for s in steps]})
    mism, _, errors = chk.coq_cases("l1dcases", I.PREAMBLE, "case", cases, "check", None, shard=10)
    for e in errors:
        chk.broke("correspondence", "Model/L1D.v cases could not be evaluated", e[-600:])
    for c, s in mism[:3]:
        chk.broke("correspondence", f"Model/L1D.v vs Learner1D: case {c} step {s}", dict(metas[c], ops=metas[c]["ops"][:s + 1]))
    chk.extra["l1d_correspondence"] = {"cases": len(cases), "mismatches": len(mism), "re_tells": retells,
                                       "discards_with_pending": discards}
    chk.log(f"correspondence: Seq {chk.extra['seq_correspondence']}, L1D {chk.extra['l1d_correspondence']}")


def model_correspondences(chk: Check):
    """The further modelled learners (models owned by other checks), on op mixes rich in re-tells, tell_pending of
    arbitrary seeds and discards; drivers, printers and Run files of the owning checks are reused."""
    from .. import impl_bookkeeping as B
    chk.extra["avg_correspondence"] = c09.avg_correspondence(chk, "avgcases", p_ask=0.22, p_commit=0.85)
    chk.log(f"correspondence: Avg {chk.extra['avg_correspondence']}")
    chk.extra["avg1d_pending_correspondence"] = B.d1p_correspondence(
        chk, "a1dcases", B.MIX_C10, 120 if chk.quick else 1000, 26 if chk.quick else 50)
    chk.log(f"correspondence: Avg1D+pending {chk.extra['avg1d_pending_correspondence']}")
    chk.extra["lnd_retell_correspondence"] = B.lnd_retell_correspondence(chk, "lndcases", 30 if chk.quick else 250, 18 if chk.quick else 36)
    chk.log(f"correspondence: LearnerND with re-tells {chk.extra['lnd_retell_correspondence']}")


# ---------------------------------------------------------------- driver
def run(chk: Check) -> int:
    warnings.filterwarnings("ignore")
    chk.prove(["theories/Props/C10.vo", "theories/Run/LNDRun.vo"] + c09.VO_TARGETS[1:], THEOREMS)
    correspondence(chk)
    model_correspondences(chk)
    l2d_exc = c09.l2d_smoke()
    if l2d_exc:
        chk.fail(SIG_F7, f"Learner2D cannot go beyond its four corner points on this platform: {G.short(l2d_exc)}",
                 {"spec": {"kind": "L2D"}, "ops": [], "smoke": "l2d"})
    bi_exc = c09.bal_int_smoke()
    specs = c09.all_specs(l2d_ok=not l2d_exc, bal_int_ok=not bi_exc) + EXTRA_SPECS + BOX_SPECS_ND + ([] if l2d_exc else BOX_SPECS_2D)
    # wrappers inside wrappers (BalancingLearner over DataSavers, DataSaver over a BalancingLearner, BalancingLearner over
    # BalancingLearners, three levels): the same clauses, judged on what the innermost learners hold
    nflat = len(specs)
    specs = specs + c09.nested_specs(l2d_ok=not l2d_exc)
    per = 20 if chk.quick else 120
    per_nested = 6 if chk.quick else 36
    nops = 30 if chk.quick else 90
    jobs = []
    for si, spec in enumerate(specs):
        for c in range(per if si < nflat else per_nested):
            # openings: scripted ask/tell-all/discard; interior hull first (LearnerND); strategy switches (BalancingLearner)
            lnd = G.base_kind(spec) == "LND"
            mode = True if c % 3 == 0 else ("hull" if c % 3 == 1 and lnd else
                                            ("switch" if spec["kind"] == "Bal" and (c % 3 == 1 or (lnd and c % 6 == 2)) else False))
            jobs.append((spec, chk.rng("case", si, c).randrange(1 << 30), nops, mode))
    for f in sorted((chk.work.parents[1] / "corpus" / "C10").glob("*.json")):
        d = json.loads(f.read_text())
        for s, m in replay_case(d["spec"], d["ops"]):
            chk.fail(s, m, d)
    results = []
    with cf.ProcessPoolExecutor(max_workers=NPROC) as ex:
        for r in ex.map(run_case, jobs, chunksize=1):
            results.append(r)
    shrunk = {}
    per_type, kinds, tot = {}, {}, {"retell_same": 0, "retell_alt": 0, "unsolicited": 0, "discard_with_pending": 0, "batch": 0}
    for r in results:
        name = G.spec_name(c09._sig_spec(r["spec"]))
        t = per_type.setdefault(name, {"cases": 0, "ops": 0, "failing": 0})
        t["cases"] += 1
        t["ops"] += r["len"]
        t["failing"] += bool(r["fails"])
        for k in r["kinds"]:
            kinds[k] = kinds.get(k, 0) + 1
        for k, v in r["stats"].items():
            tot[k] = tot.get(k, 0) + v
        st = r["stats"]
        chk.note_case((r["spec"], r["ops"], r["len"]),
                      (st["retell_same"] + st["retell_alt"]) > 0 and st["discard_with_pending"] > 0 and r["ntold"] > 2)
        chk.cov["evaluations"] += max(0, r["len"] - 1)
        if r["len"] > 8:
            chk.sample({"learner": G.spec_name(r["spec"]), "ops": r["ops"][:6]})
        for f in r["fails"][:2]:
            if f["signature"] not in shrunk:
                ops, what = shrink(f["replay"]["spec"], f["replay"]["ops"], f["signature"])
                if what is not None:
                    f = {"signature": f["signature"], "what": what + " [minimised]", "replay": dict(f["replay"], ops=ops)}
                shrunk[f["signature"]] = f
                chk.failures.insert(0, f)
                continue
            chk.fail(f["signature"], f["what"], f["replay"])
    chk.extra["minimised_failing_inputs"] = {s: {"learner": G.spec_name(f["replay"]["spec"]), "ops": f["replay"]["ops"]}
                                             for s, f in shrunk.items()}
    chk.extra.update({"histories_per_learner_type": per_type, "op_histogram": kinds, "feature_counts": tot,
                      "configurations": len(specs), "nested_wrapper_configurations": len(specs) - nflat,
                      "nested_wrapper_histories": sum(1 for r in results if G.wrapper_depth(r["spec"]) >= 2),
                      "exhaustive": False, "learner2d_runs_here": not l2d_exc,
                      "balancing_over_integrator_skipped": bool(bi_exc)})
    chk.log(f"bookkeeping oracle: {len(results)} histories, {sum(r['len'] for r in results)} ops, {tot}; "
            f"{len(chk.failures)} failures ({len({f['signature'] for f in chk.failures})} signatures)")
    return chk.finish(
        rule="one case = one history driven on a real learner (13 base configurations of the 7 learner types; BalancingLearner over 2-3 "
             "children of each type x 4 strategies; DataSaver over each type; nested wrappers: BalancingLearner over DataSaver[X] x 4 "
             "strategies, DataSaver[BalancingLearner[X]], BalancingLearner over BalancingLearners, three levels): committing asks, tells of pending and of unsolicited "
             "in-domain points, tell_many (incl. a known point), tell_pending, re-tells with the same and with a different value, "
             "discards; the oracle runs after EVERY op (evaluations = ops); non-trivial = at least one re-tell, one discard with pending "
             "points and > 2 told points; distinct by (configuration, op list); BalancingLearner histories switch the strategy mid-run "
             "(all 16 ordered pairs); Learner2D / LearnerND domains with different, also disjoint, per-axis ranges; plus model "
             "correspondences (Seq, L1D, Avg, Avg1D+pending, LearnerND) rich in re-tells, tell_pending and discards",
        assumptions=["Seq, L1D, Avg, Avg1D(+pending overlay), LND models tied to the code by sampled correspondence here, Integrator / "
                     "Balancing / DataSaver by C07 / C15 / C18; Learner2D has no model (bookkeeping oracle only)",
                     "wrappers: the theorems are relative to the same clauses of the wrapped learners (hypotheses of the Coq sections)",
                     "Integrator / LearnerND models hold the KEYS of data only (values are the environment's); AverageLearner1D's "
                     "loss is not modelled: the corresponding clauses are decided by the oracle only",
                     "pending_points is required to CONTAIN every handed-out, untold, undiscarded point and no told point (the property "
                     "text); equality is not demanded (the integrator queues points as pending before handing them out)",
                     "tell_pending is only ever called on points without a value (the reading chosen in DESIGN section 7 C10)"])


def replay(doc) -> int:
    bad = 0
    for f in doc.get("failing_inputs", []):
        r = f.get("replay") or {}
        if r.get("smoke") == "l2d":
            e = c09.l2d_smoke()
            print("replayed Learner2D smoke ->", e or "runs")
            bad += bool(e)
            continue
        if "spec" not in r:
            continue
        errs = replay_case(r["spec"], r["ops"])
        print("replayed", G.spec_name(r["spec"]), len(r["ops"]), "ops ->", [s for s, _ in errs] or "oracle silent")
        for _, m in errs[:2]:
            print("   ", m)
        bad += bool(errs)
    return 1 if bad else 0
