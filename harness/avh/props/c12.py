"""C12 -- Rescaling inputs or outputs does not change which points are chosen.

proof          : coq/theories/Props/C12.v -- simulation proof over Model/L1D.v for a number structure with two
                 scaling actions satisfying ScaleLaws (closed for rationals with +-inf and positive rational factors)
correspondence : (a) Model/L1D.v (IEEE doubles) run on BOTH histories of a twin pair: model(scaled) = scale(model(original))
                 on every observable after every op, decided inside Coq; (b) model = implementation on the scaled history
search         : twin run on the real classes: Learner1D(f,(a,b)) vs Learner1D(tau*f(x/sigma),(sigma*a,sigma*b)),
                 sigma=2^k, tau=2^m, k,m in [-30,30]; every ask must return exactly sigma*points, identical
                 improvements, identical loss(real=True/False); the same for LearnerND (impl_c12_lnd), where the
                 unchanged tree is NOT equivariant (finding F9, classified by cause)
"""
from __future__ import annotations

import json
import math
import struct

import numpy as np

from .. import coqio as C
from .. import impl_l1d as I
from ..core import Check

THEOREMS = {n: "Props.C12" for n in [
    "C12_l1d_equivariant", "C12_l1d_equivariant_nan_partial", "C12_tell", "C12_tell_pending",
    "C12_remove_unfinished", "C12_ask", "C12_loss", "C12_scale_laws_rational", "C12_ord_laws_rational",
    "C12_loss_hypothesis_inhabited", "C12_l1d_equivariant_rational", "C12_l1d_equivariant_rational_nan_partial"]}

PREAMBLE = """From Coq Require Import ZArith PrimFloat List. Import ListNotations.
From AV Require Import Base.Prelude Base.FloatUtil Model.L1D Run.L1DRun Run.L1DScaleRun.
Open Scope nat_scope."""

# every shipped loss is scale-free *as called by the learner* (it receives x/x_scale, y/y_scale);
# abs_min_log_loss included: its log is applied to already normalised values, identical bit for bit in both twins
LOSSES = ["default", "uniform", "triangle", "curvature", "resolution", "resolution_max", "abs_min_log"]


# functions whose first evaluated values are exactly equal (zero / non-zero constant on most of the domain incl. the
# bounds), so that the value range stays exactly 0 over the first tells (`_scale[1] or 1`) and then grows
def _f_hinge(x):
    return 3.0 * max(0.0, x - 0.6) ** 2


def _f_hingec(x):
    return 2.5 + 3.0 * max(0.0, x - 0.6) ** 2


def _f_bump(x):
    return -0.75 + 40.0 * max(0.0, 0.01 - (x - 0.37) ** 2)


def _f_vecflat(x):
    h = max(0.0, x - 0.7)
    return np.array([1.0 + 2.0 * h, -0.5 - h * h])


for _n, _f in {"c12_hinge": _f_hinge, "c12_hingec": _f_hingec, "c12_bump": _f_bump, "c12_vecflat": _f_vecflat}.items():
    I.FUNCS.setdefault(_n, _f)          # registered for this process only (impl_l1d.fun_of looks names up there)
FLAT_FUNCS = ["c12_hinge", "c12_hingec", "c12_bump", "c12_vecflat"]


def lockstep_op(l, cfg):
    """Sequential runner: ask one point, tell it, ask the next."""
    if l.pending_points:
        x = float(sorted(l.pending_points)[0])
        return ("tell", x, I.yval(cfg, x))
    return ("ask", 1, True)


def bits(x: float) -> bytes:
    return struct.pack("<d", float(x))


def same_floats(a, b) -> bool:
    """bit-for-bit (nan = nan, +0 != -0)"""
    return len(a) == len(b) and all(bits(x) == bits(y) for x, y in zip(a, b))


def gen_cfg(rng):
    cfg = {"func": rng.choice(FLAT_FUNCS) if rng.random() < 0.25 else rng.choice([f for f in I.FUNCS if f not in FLAT_FUNCS]),
           "bounds": list(rng.choice(I.BOUNDS)),
           "loss": rng.choice(LOSSES), "factor": rng.choice([1, 2, 2]),
           "k": rng.randint(-30, 30), "m": rng.randint(-30, 30)}
    if rng.random() < 0.08:
        cfg["k"] = rng.choice([-30, 30])
    if rng.random() < 0.08:
        cfg["m"] = rng.choice([-30, 30])
    if cfg["loss"] == "abs_min_log" and cfg["func"] in ("step", "neg", "vec_step", "smooth", "c12_hinge", "c12_bump"):
        cfg["loss"] = "curvature"       # log of 0 / negative values: nan losses, outside the property (as in C01)
    return cfg


def zoom_ops(rng, cfg):
    """Adversarial family: evaluated points converging geometrically to one abscissa, so that interval widths
    fall below _dx_eps (the only place where an absolute threshold could hide), interleaved with asks."""
    lo, hi = cfg["bounds"]
    w = hi - lo
    # the last two anchors sit on the jumps of f_step / f_vec_step: a tiny interval then carries the largest loss, so the
    # width threshold _dx_eps becomes visible in loss() and ask()
    anchor, sgn = rng.choice([(lo, 1.0), (hi, -1.0), (lo + w / 2, 1.0), (lo + w / 4, -1.0),
                              (lo + 0.3 * w, -1.0), (lo + 0.2 * w, -1.0)])
    ops = [("tell", lo, I.yval(cfg, lo)), ("tell", hi, I.yval(cfg, hi))]
    if anchor not in (lo, hi):
        ops.append(("tell", anchor, I.yval(cfg, anchor)))
    seen = {lo, hi, anchor}
    for j in range(rng.randint(1, 8), rng.randint(30, 58)):
        x = anchor + sgn * w * 2.0 ** -j
        if x in seen or not lo <= x <= hi:
            continue
        seen.add(x)
        ops.append(("tell_pending", x) if rng.random() < 0.1 else ("tell", x, I.yval(cfg, x)))
        r = rng.random()
        if r < 0.25:
            ops.append(("ask", rng.choice([1, 2, 3, 5]), rng.random() < 0.3))
        elif r < 0.3:
            ops.append(("remove_unfinished",))
    ops.append(("ask", rng.choice([1, 2, 4, 7]), True))
    return ops


def scale_y(y, sy):
    return tuple(sy * v for v in y) if isinstance(y, tuple) else sy * y


def scale_op(op, sx, sy):
    k = op[0]
    if k == "tell":
        return ("tell", sx * op[1], scale_y(op[2], sy))
    if k == "tell_pending":
        return ("tell_pending", sx * op[1])
    if k == "tell_many":
        return ("tell_many", [(sx * x, scale_y(y, sy)) for x, y in op[1]], op[2])
    return op


def make_twin(cfg):
    """The rescaled learner: g(x) = tau * f(x / sigma) on (sigma*a, sigma*b)."""
    from adaptive import Learner1D
    sx, sy = 2.0 ** cfg["k"], 2.0 ** cfg["m"]
    f = I.fun_of(cfg)
    rec = I.Recorder(I.make_loss(cfg["loss"]))
    lo, hi = cfg["bounds"]
    l = Learner1D(lambda x: sy * f(x / sx), (sx * lo, sx * hi), loss_per_interval=rec)
    l._recompute_losses_factor = cfg.get("factor", 2)
    return l, rec


def observe(l, rec):
    rec.on = False
    try:
        return I.obs_of(l)
    finally:
        rec.on = True


def run_twin(cfg, rng, nops, ops=None, want_obs=True, lockstep=False):
    """Drive the original and the rescaled learner with the same abstract history.
    Returns dict(orig=(l, rec, steps), twin=(l2, rec2, steps2), errors=[(step, kind, detail)], feats)."""
    sx, sy = 2.0 ** cfg["k"], 2.0 ** cfg["m"]
    l, rec = I.make_learner(cfg)
    l2, rec2 = make_twin(cfg)
    steps, steps2, errors = [], [], []
    feats = {"interior_ask": False, "pending_at_ask": False, "rescales": 0, "batch": False, "degenerate_y": False, "below_dx_eps": False}
    it = ops if ops is not None else range(nops)
    for i, item in enumerate(it):
        op = I.norm_op(item) if ops is not None else (lockstep_op(l, cfg) if lockstep else I.gen_next_op(rng, l, cfg))
        op2 = scale_op(op, sx, sy)
        if op[0] == "ask" and len(l.data) >= 2:
            feats["interior_ask"] = True
            feats["pending_at_ask"] |= bool(l.pending_points)
        if op[0] == "tell_many" and (op[2] or len(op[1]) > 2):
            feats["batch"] = True
        old = l._oldscale[1]
        exc = exc2 = None
        out = out2 = ([], [])
        try:
            out = I.apply_op(l, op)
        except OverflowError:
            raise
        except Exception as e:                       # noqa: BLE001
            exc = type(e).__name__
        try:
            out2 = I.apply_op(l2, op2)
        except OverflowError:
            raise
        except Exception as e:                       # noqa: BLE001
            exc2 = type(e).__name__
        if exc or exc2:
            if exc != exc2:
                errors.append((i, "exception", f"original raised {exc}, rescaled raised {exc2} on {op[0]}"))
            break
        if l._oldscale[1] != old:
            feats["rescales"] += 1
        if len(l.data) >= 2 and l._scale[1] == 0:
            feats["degenerate_y"] = True
        if any(b - a < l._dx_eps for a, b in l.losses):
            feats["below_dx_eps"] = True
        if op[0] == "ask":
            if not same_floats([sx * p for p in out[0]], out2[0]):
                errors.append((i, "points", f"ask({op[1]}) original {out[0]} * 2^{cfg['k']} != rescaled {out2[0]}"))
            elif not same_floats(out[1], out2[1]):
                errors.append((i, "improvements", f"ask({op[1]}) improvements {out[1]} != {out2[1]}"))
        rec.on = rec2.on = False
        try:
            for real in (True, False):
                a, b = float(l.loss(real=real)), float(l2.loss(real=real))
                if bits(a) != bits(b) and not errors:
                    errors.append((i, "loss", f"loss(real={real}) original {a!r} != rescaled {b!r} after {op[0]}"))
        finally:
            rec.on = rec2.on = True
        steps.append((op, out, observe(l, rec) if want_obs else None))
        steps2.append((op2, out2, observe(l2, rec2) if want_obs else None))
        if errors:
            break
    return {"orig": (l, rec, steps), "twin": (l2, rec2, steps2), "errors": errors, "feats": feats}


def tcase_term(cfg, r):
    l, rec, steps = r["orig"]
    l2, rec2, steps2 = r["twin"]
    return C.app("mktcase", C.flt(2.0 ** cfg["k"]), C.flt(2.0 ** cfg["m"]),
                 I.case_term(l, rec, steps), I.case_term(l2, rec2, steps2))


def run(chk: Check) -> int:
    chk.prove(["theories/Props/C12.vo", "theories/Run/L1DScaleRun.vo"], THEOREMS)
    ncases = 200 if chk.quick else 3000
    maxlen = 26 if chk.quick else 90
    ncoq = 200 if chk.quick else 500       # twin pairs also run through the Coq model (the terms are large)
    cases, metas = [], []
    hist = {}
    stats = {"rescale_sweeps": 0, "interior_ask_with_pending": 0, "batch": 0, "vector": 0, "nn1": 0,
             "degenerate_value_scale": 0, "binades_x": set(), "binades_y": set(), "losses": {}}

    def add(cfg, r, origin):
        l, rec, steps = r["orig"]
        ops = [I.op_json(s[0]) for s in steps]
        f = r["feats"]
        stats["rescale_sweeps"] += f["rescales"]
        stats["interior_ask_with_pending"] += f["pending_at_ask"]
        stats["batch"] += f["batch"]
        stats["vector"] += "vec" in cfg["func"]
        stats["flat_start"] = stats.get("flat_start", 0) + (cfg["func"] in FLAT_FUNCS)
        stats["nn1"] += l.nth_neighbors
        stats["degenerate_value_scale"] += f["degenerate_y"]
        stats["interval_below_dx_eps"] = stats.get("interval_below_dx_eps", 0) + f["below_dx_eps"]
        stats["binades_x"].add(cfg["k"])
        stats["binades_y"].add(cfg["m"])
        stats["losses"][cfg["loss"]] = stats["losses"].get(cfg["loss"], 0) + 1
        chk.note_case(("1d", cfg, ops), (cfg["k"], cfg["m"]) != (0, 0) and f["pending_at_ask"] and f["rescales"] > 0)
        for s in steps:
            hist[s[0][0]] = hist.get(s[0][0], 0) + 1
        if len(steps) > 5:
            chk.sample({"cfg": cfg, "ops": ops[:8]})
        for step, kind, detail in r["errors"][:1]:
            chk.fail(f"C12:1D rescaled Learner1D diverges from the original ({kind})",
                     f"Learner1D({cfg}) step {step}: {detail}", {"cfg": cfg, "ops": ops})
        if not r["errors"] and len(cases) < ncoq:
            cases.append(tcase_term(cfg, r))
            metas.append({"cfg": cfg, "ops": ops, "origin": origin})

    corpus = chk.work.parents[1] / "corpus" / "C12"
    for f in sorted(corpus.glob("*.json")) if corpus.exists() else []:
        d = json.loads(f.read_text())
        if "cfg" in d:
            add(d["cfg"], run_twin(d["cfg"], None, 0, ops=d["ops"]), f.name)
    for k in range(ncases):
        rng = chk.rng("case", k)
        cfg = gen_cfg(rng)
        zoom = rng.random() < 0.15
        stats["zoom"] = stats.get("zoom", 0) + zoom
        try:
            lock = not zoom and rng.random() < 0.12
            stats["lockstep"] = stats.get("lockstep", 0) + lock
            r = run_twin(cfg, rng, rng.randint(3, maxlen), ops=zoom_ops(rng, cfg) if zoom else None,
                         want_obs=len(cases) < ncoq, lockstep=lock)
        except OverflowError:
            continue        # int(loss * 1e12) overflows for an infinite loss: outside the property (as in C01)
        add(cfg, r, f"seed{chk.seed}/{k}")
    chk.log(f"1D twin run: {chk.cov['evaluations'] - len(chk.failures)} agreeing pairs of {chk.cov['evaluations']}, "
            f"failures {len(chk.failures)}")

    mism, _, errors = chk.coq_cases("twin", PREAMBLE, "tcase", cases, "check", None, shard=6)
    for e in errors:
        chk.broke("correspondence", "Run/L1DScaleRun.v cases could not be evaluated", e[-600:])
    for c, code in mism[:5]:
        m = metas[c]
        s, which = divmod(code, 2)
        name = ("Model/L1D.v (doubles): model(scaled history) != scale(model(original history))" if which == 0
                else "Model/L1D.v vs Learner1D on the rescaled history")
        chk.broke("correspondence", f"{name}: case {m['origin']} step {s}", {"cfg": m["cfg"], "ops": m["ops"][:s + 1]})
    stats["binades_x"] = len(stats["binades_x"])
    stats["binades_y"] = len(stats["binades_y"])
    chk.log(f"correspondence: {len(cases)} twin pairs in Coq, {len(mism)} mismatches; {stats}")

    # ---------------- LearnerND
    lnd_stats = {}
    try:
        from .. import impl_c12_lnd as N
    except ImportError as e:        # the LearnerND part is a separate module
        chk.broke("machinery", "LearnerND twin-run module missing", str(e))
    else:
        lnd_stats = N.run_lnd(chk, 60 if chk.quick else 600, 25 if chk.quick else 60)
        chk.log(f"LearnerND twin run: {lnd_stats}")

    chk.extra.update({"op_histogram": hist, "feature_counts_1d": stats, "twin_pairs_compared_in_coq": len(cases),
                      "mismatches": len(mism), "lnd": lnd_stats, "exhaustive": False})
    return chk.finish(
        rule="1D: twin histories generated by driving the real Learner1D (8 function shapes incl. discontinuous, 10^12 range "
             "growth, vector outputs, constant = zero value scale; 5 bounds; 7 shipped losses, 0/1 neighbours; factor 1 or 2; "
             "ask/tell out of order/tell_many batch+incremental/tell_pending/remove_unfinished) replayed on the learner rescaled "
             "by sigma=2^k, tau=2^m, k,m uniform in [-30,30] independently; non-trivial = (k,m)!=(0,0), an ask chose interior "
             "points while points were pending, and at least one rescale sweep happened; distinct by (config, op list). "
             "ND: see impl_c12_lnd (2D/3D boxes; default, uniform, triangle and curvature loss -- the last two with nth_neighbors = 1; "
             "scalar and vector outputs; common 2^k on axes, 2^m on values)",
        assumptions=["hand-written model Model/L1D.v tied to learner1D.py by the sampled bit-exact correspondence",
                     "loss_per_interval is an oracle; the theorem assumes it ignores a common rescaling of values it receives "
                     "un-normalised while their range is zero (LossFlat; proved inhabited)",
                     "theorem closed for rationals with +-inf and positive rational factors; for IEEE doubles ScaleLaws/OrdLaws "
                     "hold for power-of-two factors absent overflow/underflow/NaN -- trusted, validated by the twin runs",
                     "with NaN values tell_many's batch path is outside the proof (theorem _nan_partial); without NaN every "
                     "history in which the function returns always scalars or always vectors is covered",
                     "LearnerND: no theorem; the unchanged code is refuted by the twin run (F9)"])


def replay(doc) -> int:
    bad = 0
    items = [f.get("replay") for f in doc.get("failing_inputs", [])] + \
            [b.get("detail") for b in doc.get("no_longer_checks", []) if isinstance(b.get("detail"), dict)]
    for r in items:
        if not r:
            continue
        if "lnd" in r:
            from .. import impl_c12_lnd as N
            probs = N.replay_lnd(r["lnd"])
            print("replayed LearnerND twin", r["lnd"].get("cfg"), "->", probs[:2] or "twins agree")
            bad += bool(probs)
        elif "cfg" in r:
            res = run_twin(r["cfg"], None, 0, ops=r["ops"], want_obs=False)
            print("replayed Learner1D twin", r["cfg"], len(res["orig"][2]), "ops ->", res["errors"][:2] or "twins agree")
            bad += bool(res["errors"])
    return 1 if bad else 0
