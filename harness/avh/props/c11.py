"""C11 -- what a learner knows depends on the set of results, not on how they arrived.

proof          : coq/theories/Props/C11.v (Proofs/OrderProofs.v, Proofs/OrderL1D.v):
                 SequenceLearner and the averaging spec in full (state equality under every permutation of
                 tells of distinct keys, = one tell_many); Learner1D: every data-level component (data, pending,
                 neighbors, neighbors_combined, bbox, scale) for any fixed pending set, batch = incremental on
                 data/pending (`C11_l1d_partial`); for factor 1 and scalar outputs the table `losses`,
                 loss(real=True) and _oldscale (`C11_l1d_losses_order_irrelevant`).  losses_combined,
                 loss(real=False), ask() and the batch path are decided by the oracle below.
correspondence : the permuted / batched histories are fed through Model/L1D.v executed with IEEE doubles and
                 compared bit for bit with the real Learner1D after every op (vm_compute inside Coq).
search         : from-scratch oracle on the real classes: point sets produced by real ask-driven runs; every
                 permutation of <= 6 tells (random permutations beyond); incremental vs tell_many (forced batch
                 path, default switch, mixed batch+incremental); all shipped 1D losses, scalar and vector
                 outputs; with and without a fixed set of pending points (incl. a pending point inside the first
                 interval and one LEFT of the first evaluated point).
"""
from __future__ import annotations

import itertools
import json
import math

import numpy as np

from .. import impl_l1d as I
from ..core import Check
from ..oracle_l1d import C01Oracle, check_combined

THEOREMS = {n: "Props.C11" for n in [
    "C11_seq_order_irrelevant", "C11_avg_order_irrelevant", "C11_avg_order_irrelevant_Z",
    "C11_avg_order_irrelevant_Qc", "C11_avg_repeated_seed_ignored", "C11_avg_state_function_of_data",
    "C11_l1d_partial", "C11_l1d_batch_partial", "C11_l1d_partial_Qc",
    "C11_l1d_losses_order_irrelevant", "C11_l1d_losses_order_irrelevant_Qc",
    "C11_l1d_losses_function_of_data", "C11_l1d_function_of_data_example",
    "C11_l1d_losses_function_of_data_vec", "C11_l1d_function_of_data_vec_example"]}

RTOL = 1e-12            # "to rounding" for interpolated pieces / float sums
ASK_NS = list(range(1, 11))
L1D_LOSSES = ["default", "uniform", "triangle", "curvature", "resolution", "abs_min_log"]


# ------------------------------------------------------------------ helpers
def feq(a, b):
    a, b = float(a), float(b)
    return a == b or (math.isnan(a) and math.isnan(b))


def fclose(a, b, rtol=RTOL):
    a, b = float(a), float(b)
    if feq(a, b):
        return True
    if math.isinf(a) or math.isinf(b) or math.isnan(a) or math.isnan(b):
        return False
    return abs(a - b) <= rtol * max(abs(a), abs(b))


def table(d):
    return {(float(a), float(b)): float(v) for (a, b), v in d.items()}


# ================================================================== Learner1D
def l1d_observe(l):
    """What the property names: losses, losses_combined, loss() both flags, ask(n, tell_pending=False)."""
    asks = []
    for n in ASK_NS:
        pts, imps = l.ask(n, tell_pending=False)
        asks.append(([float(p) for p in pts], [float(i) for i in imps]))
    return {"losses": table(l.losses), "losc": table(l.losses_combined),
            "loss_real": float(l.loss(real=True)), "loss_exp": float(l.loss(real=False)), "asks": asks}


def l1d_compare(ref, got, stats):
    """None if equal in the sense of the property, else (clause, message)."""
    if sorted(ref["losses"]) != sorted(got["losses"]):
        return "losses keys", f"intervals {sorted(ref['losses'])} vs {sorted(got['losses'])}"
    for k, v in ref["losses"].items():
        if not feq(v, got["losses"][k]):
            return "losses", f"losses[{k}] = {v!r} vs {got['losses'][k]!r}"
    if sorted(ref["losc"]) != sorted(got["losc"]):
        return "losses_combined keys", f"intervals {sorted(ref['losc'])} vs {sorted(got['losc'])}"
    for k, v in ref["losc"].items():
        w = got["losc"][k]
        if not fclose(v, w):
            return "losses_combined", f"losses_combined[{k}] = {v!r} vs {w!r}"
        if not feq(v, w):
            stats["losc_rounding_diffs"] += 1
    if not feq(ref["loss_real"], got["loss_real"]):
        return "loss(real=True)", f"{ref['loss_real']!r} vs {got['loss_real']!r}"
    if not fclose(ref["loss_exp"], got["loss_exp"]):
        return "loss(real=False)", f"{ref['loss_exp']!r} vs {got['loss_exp']!r}"
    for n, (a, b) in zip(ASK_NS, zip(ref["asks"], got["asks"])):
        if a[0] == b[0] and len(a[1]) == len(b[1]) and all(fclose(x, y) for x, y in zip(a[1], b[1])):
            continue
        # tolerance-aware matching: the code ranks intervals by losses rounded to 1e-12, so two learners
        # whose interpolated losses differ in the last bits may break an exact tie differently.  Accept
        # only if the multiset of promised improvements agrees to 1e-11 (a tie), and count it.
        sa, sb = sorted(a[1]), sorted(b[1])
        if len(sa) == len(sb) and all(feq(x, y) or abs(x - y) <= 1e-11 * max(1.0, abs(x)) for x, y in zip(sa, sb)) \
                and sorted(a[0]) != sorted(b[0]) and _is_tie(ref, a, b):
            stats["ask_ties_accepted"] += 1
            continue
        return f"ask({n}, tell_pending=False)", f"{a} vs {b}"
    return None


def _is_tie(ref, a, b):
    """The two answers differ only by choosing among intervals whose (rounded) losses tie."""
    vals = sorted(v for v in ref["losc"].values() if not math.isinf(v))
    return any(abs(x - y) <= 2e-12 * max(1.0, abs(x)) for x, y in zip(vals, vals[1:])) or \
        sum(1 for v in ref["losc"].values() if math.isinf(v)) > 1


def l1d_point_set(cfg, rng, npts):
    """A point set produced by a real run: ask-driven, results delivered out of order."""
    l, _ = I.make_learner(cfg)
    f = I.fun_of(cfg)
    waiting = []
    while l.npoints < npts:
        pts, _ = l.ask(rng.choice([1, 2, 3, 4]))
        waiting += pts
        rng.shuffle(waiting)
        for _ in range(rng.randint(1, len(waiting))):
            x = waiting.pop()
            l.tell(x, f(x))
            if l.npoints >= npts:
                break
    for b in l.bounds:                  # the run is continued until both end points have arrived
        if b not in l.data:
            l.tell(b, f(b))
    xs = sorted(l.data)
    return [float(x) for x in xs]


def l1d_split(rng, xs, variant, bounds):
    """(told points, fixed pending points).  Both end points are among them."""
    lo, hi = bounds
    inner = [x for x in xs if x not in (lo, hi)]
    if variant == "none" or len(xs) < 4:
        return list(xs), []
    if variant == "random":
        k = rng.randint(1, max(1, len(inner) // 2))
        pend = rng.sample(inner, k)
        if rng.random() < 0.3:
            pend.append(hi)
        return [x for x in xs if x not in pend], pend
    if variant == "first_interval":
        # a pending point strictly inside the first evaluated interval (not one the learner suggested)
        told = list(xs)
        p = told[0] + (told[1] - told[0]) * rng.choice([0.5, 0.25, 0.3])
        pend = [p]
        if rng.random() < 0.5 and len(told) > 3:
            q = told[-2] + (told[-1] - told[-2]) * 0.5
            pend.append(q)
        return told, pend
    if variant == "left_of_first":
        # the lower end point is only pending, and another pending point lies between it and the first
        # evaluated point (the F13 situation); optionally the same on the right
        pend = [xs[0], xs[1]]
        rest = xs[2:]
        if rng.random() < 0.4 and len(rest) > 3:
            pend.append(rest[-1])
            rest = rest[:-1]
        if rng.random() < 0.5 and len(rest) > 2:
            pend.append(rest[0] + (rest[1] - rest[0]) * 0.5)
        return rest, pend
    raise ValueError(variant)


def l1d_ops(told, pend, mode, inflight, order=None, cut=None, prefix=None):
    """Concrete op list for one way of delivering the same results.  `prefix`: the history that built the
    start state (a first run, remove_unfinished(), new requests), common to all deliveries."""
    pts = told if order is None else [told[i] for i in order]
    ops = list(prefix or []) + [("tell_pending", p) for p in pend]
    if inflight:
        ops += [("tell_pending", x) for x, _ in sorted(told)]
    if mode == "incremental":
        ops += [("tell", x, y) for x, y in pts]
    elif mode == "batch":
        ops.append(("tell_many", list(pts), True))
    elif mode == "default":
        ops.append(("tell_many", list(pts), False))
    elif mode == "mixed":
        ops.append(("tell_many", list(pts[:cut]), True))
        ops += [("tell", x, y) for x, y in pts[cut:]]
    return ops


def l1d_second_run(cfg, rng, ntold):
    """Start state of a SECOND run on the same learner: a first ask-driven history with partial delivery,
    remove_unfinished() (what every runner does when it stops), then new requests -- several points per old
    interval -- of which `ntold` will be delivered (the others stay pending between them and the old points).
    Returns (prefix ops, results to deliver)."""
    g, _ = I.make_learner(cfg)
    ops = []

    def request(k):
        pts = [float(x) for x in g.ask(k)[0]]
        ops.extend(("tell_pending", x) for x in pts)
        return pts

    def deliver(xs):
        for x in xs:
            y = I.yval(cfg, x)
            g.tell(x, I.to_impl_y(y))
            ops.append(("tell", x, y))

    first = request(rng.randint(3, 6))           # the two end points come first
    rng.shuffle(first)
    deliver(first)
    more = request(rng.randint(2, 4))
    rng.shuffle(more)
    deliver(more[:rng.randint(0, len(more) - 1)])
    g.remove_unfinished()
    ops.append(("remove_unfinished",))
    asked = request(ntold + rng.randint(1, 4))
    told_x = sorted(rng.sample(asked, min(ntold, len(asked))))
    return ops, [(x, I.yval(cfg, x)) for x in told_x]


def l1d_run(cfg, ops, bracket=False, observe=True):
    """Run one delivery on a fresh real learner.  Returns (learner, recorder, steps, observation, errors).
    `observe`: record the state after every op (needed only for the deliveries sent to Coq)."""
    l, rec = I.make_learner(cfg)
    orc = C01Oracle(l, rec.f) if bracket else None
    steps = []
    for op in ops:
        out = I.apply_op(l, op)
        if observe:
            rec.on = False
            o = I.obs_of(l)
            rec.on = True
            steps.append((op, out, o))
        if orc is not None:
            orc.note_scale()        # the batch path sets the scale without calling _update_scale
    rec.on = False
    obs = l1d_observe(l)
    errs = []
    if orc is not None:
        orc.check()
        check_combined(l, orc.errors)
        errs = orc.errors
    rec.on = True
    return l, rec, steps, obs, errs


def l1d_case(chk, cfg, told, pend, inflight, rng, stats, cases, metas, max_exhaustive, nrandom, origin, prefix=None):
    """All deliveries of one result set.  Returns number of deliveries compared."""
    n = len(told)
    idx = list(range(n))
    if n <= max_exhaustive:
        orders = list(itertools.permutations(idx))
        stats["exhaustive_sets"] += 1
    else:
        orders = [tuple(idx)] + [tuple(rng.sample(idx, n)) for _ in range(nrandom)]
    factor1 = cfg["factor"] == 1
    replay = {"kind": "l1d", "cfg": cfg, "told": [[x, list(y) if isinstance(y, tuple) else y] for x, y in told],
              "pend": pend, "inflight": inflight, "prefix": [I.op_json(o) for o in prefix] if prefix else None}
    lo, hi = cfg["bounds"]
    covered0 = bool(prefix) or all(b in pend or (inflight and any(b == x for x, _ in told)) for b in (lo, hi))
    deliveries = []
    for k, order in enumerate(orders):
        deliveries.append(("incremental", order, None))
    for order in ([orders[0]] + (rng.sample(orders, min(3, len(orders))) if len(orders) > 1 else [])):
        deliveries.append(("batch", order, None))
        deliveries.append(("default", order, None))
        if n >= 3:
            cut = rng.randint(1, n - 1)
            part = [told[i][0] for i in order[:cut]]
            if covered0 or all(b in pend or b in part for b in (lo, hi)):
                deliveries.append(("mixed", order, cut))
    ref = None
    coq_budget = 3
    picks = set(rng.sample(range(len(deliveries)), min(coq_budget, len(deliveries))))
    done = 0
    for j, (mode, order, cut) in enumerate(deliveries):
        ops = l1d_ops(told, pend, mode, inflight, order, cut, prefix)
        try:
            l, rec, steps, obs, errs = l1d_run(cfg, ops, bracket=not factor1, observe=j in picks)
        except OverflowError:
            return done         # loss * 1e12 overflows int(): outside the property (DESIGN C01 N)
        except Exception as e:
            chk.fail(f"C11:l1d:{mode} delivery raises {type(e).__name__}",
                     f"Learner1D({cfg}) pending={pend} inflight={inflight}: {mode} delivery in order {list(order)} cut {cut} "
                     f"raised {type(e).__name__}: {str(e)[:160]}", dict(replay, mode=mode, order=list(order), cut=cut))
            return done
        done += 1
        stats["deliveries"] += 1
        stats[mode] += 1
        rp = dict(replay, mode=mode, order=list(order), cut=cut)
        if factor1:
            if ref is None:
                ref = obs
            else:
                bad = l1d_compare(ref, obs, stats)
                if bad:
                    clause, msg = bad
                    chk.fail(f"C11:l1d:{clause} differ between deliveries of the same results",
                             f"Learner1D({cfg}) pending={pend} inflight={inflight}: reference = incremental in order "
                             f"{list(orders[0])}, this = {mode} order {list(order)} cut {cut}: {msg}", rp)
                    return done
        else:
            for clause, msg in errs[:1]:
                chk.fail(f"C11:l1d:factor2 staleness bracket: {clause}",
                         f"Learner1D({cfg}) pending={pend} {mode} order {list(order)}: {msg}", rp)
                return done
        if j in picks:
            obs_steps = [(op, out, o) for op, out, o in steps]
            for nn_ in (1, 3, 7):
                out = I.apply_op(l, ("ask", nn_, False))
                rec.on = False
                obs_steps.append((("ask", nn_, False), out, I.obs_of(l)))
                rec.on = True
            cases.append(I.case_term(l, rec, obs_steps))
            metas.append({"cfg": cfg, "ops": [I.op_json(s[0]) for s in obs_steps], "origin": origin})
    return done


def run_l1d(chk, stats, cases, metas):
    quick = chk.quick
    ncases = 160 if quick else 700
    variants = ["none", "random", "first_interval", "left_of_first"]
    for k in range(ncases):
        rng = chk.rng("l1d", k)
        func = rng.choice(["vec", "vec_step"]) if rng.random() < 0.3 else rng.choice(list(I.FUNCS))
        cfg = {"func": func, "bounds": list(rng.choice(I.BOUNDS)),
               "loss": L1D_LOSSES[k % len(L1D_LOSSES)], "factor": 1 if rng.random() < 0.8 else 2}
        if cfg["loss"] == "abs_min_log" and cfg["func"] not in ("grow", "const"):
            cfg["func"] = rng.choice(["grow", "const"])     # log of zero / negative values gives nan losses
        variant = variants[(k // len(L1D_LOSSES)) % len(variants)]
        small = rng.random() < (0.75 if quick else 0.6)
        if small:
            ntold = rng.choice([3, 4, 4, 5, 5] if quick else [3, 4, 5, 6, 6])
        else:
            ntold = rng.randint(7, 14 if quick else 30)
        extra = {"none": 0, "random": 3, "first_interval": 0, "left_of_first": 3}[variant]
        xs = l1d_point_set(cfg, rng, ntold + extra)
        told_x, pend = l1d_split(rng, xs, variant, cfg["bounds"])
        told = [(x, I.yval(cfg, x)) for x in told_x]
        inflight = rng.random() < 0.35
        n = l1d_case(chk, cfg, told, pend, inflight, rng, stats, cases, metas,
                     max_exhaustive=5 if quick else 6, nrandom=6 if quick else 20, origin=f"seed{chk.seed}/l1d{k}")
        lo, hi = cfg["bounds"]
        told_set = {x for x, _ in told}
        left = [p for p in pend if told_set and p < min(told_set)]
        first_iv = [p for p in pend if len(told_set) > 1 and sorted(told_set)[0] < p < sorted(told_set)[1]]
        stats["pending_left_of_first"] += bool(left)
        stats["pending_in_first_interval"] += bool(first_iv)
        stats["vector"] += cfg["func"].startswith("vec")
        stats["loss:" + cfg["loss"]] = stats.get("loss:" + cfg["loss"], 0) + 1
        stats["factor2_cases"] += cfg["factor"] != 1
        chk.note_case(("l1d", cfg, told, pend, inflight), bool(pend) and n > 4)
        if k < 3:
            chk.sample({"learner": "Learner1D", "cfg": cfg, "told": told_x, "pending": pend, "deliveries": n})
        if len(chk.failures) > 5:
            break
    # second runs: the deliveries start from a learner that already has data and went through remove_unfinished()
    for k in range(50 if quick else 300):
        rng = chk.rng("l1d2", k)
        func = rng.choice(["vec", "vec_step"]) if rng.random() < 0.3 else rng.choice(list(I.FUNCS))
        cfg = {"func": func, "bounds": list(rng.choice(I.BOUNDS)),
               "loss": L1D_LOSSES[k % len(L1D_LOSSES)], "factor": 1 if rng.random() < 0.8 else 2}
        if cfg["loss"] == "abs_min_log" and cfg["func"] not in ("grow", "const"):
            cfg["func"] = rng.choice(["grow", "const"])
        ntold = rng.choice([2, 3, 3, 4, 4, 5] if quick else [2, 3, 4, 5, 6, 8])
        try:
            prefix, told = l1d_second_run(cfg, rng, ntold)
        except OverflowError:
            continue
        n = l1d_case(chk, cfg, told, [], False, rng, stats, cases, metas,
                     max_exhaustive=5 if quick else 6, nrandom=6 if quick else 20,
                     origin=f"seed{chk.seed}/l1d2_{k}", prefix=prefix)
        stats["second_run_cases"] += 1
        stats["vector"] += cfg["func"].startswith("vec")
        chk.note_case(("l1d2", cfg, told, prefix), n > 2)
        if k < 1:
            chk.sample({"learner": "Learner1D (second run)", "cfg": cfg, "prefix": [I.op_json(o) for o in prefix],
                        "told": [x for x, _ in told], "deliveries": n})
        if len(chk.failures) > 5:
            break


# ================================================================== AverageLearner
def avg_observe(l):
    asks = [l.ask(n, tell_pending=False)[0] for n in (1, 2, 5, 10)]
    out = {"data": dict(l.data), "npoints": l.npoints, "pending": sorted(l.pending_points), "asks": asks,
           "sum_f": float(l.sum_f), "sum_f_sq": float(l.sum_f_sq)}
    if l.npoints:
        out["mean"] = float(l.mean)
        out["std"] = float(l.std)
        for real in (True, False):
            try:
                out[f"loss_{real}"] = float(l.loss(real=real))
            except ZeroDivisionError:        # F11 (C16): pending points and no data
                out[f"loss_{real}"] = None
    return out


def avg_compare(ref, got, exact):
    if ref["data"] != got["data"]:
        return "data", f"{ref['data']} vs {got['data']}"
    if ref["npoints"] != got["npoints"]:
        return "npoints", f"{ref['npoints']} vs {got['npoints']}"
    if ref["pending"] != got["pending"]:
        return "pending_points", f"{ref['pending']} vs {got['pending']}"
    if ref["asks"] != got["asks"]:
        return "ask(n, tell_pending=False)", f"{ref['asks']} vs {got['asks']}"
    vals = list(ref["data"].values())
    n = len(vals)
    # conditioning of the expressions w.r.t. the rounding of the two running sums
    c_mean = max(1.0, sum(abs(v) for v in vals) / abs(sum(vals))) if vals and sum(vals) != 0 else 1.0
    sq = sum(v * v for v in vals)
    num = sq - n * (sum(vals) / n) ** 2 if n else 0.0
    c_std = max(1.0, sq / abs(num)) if num else 1e6
    for key, cond in (("sum_f", c_mean), ("sum_f_sq", 1.0), ("mean", c_mean), ("std", c_mean + c_std),
                      ("loss_True", c_mean + c_std), ("loss_False", c_mean + c_std)):
        if key not in ref:
            continue
        a, b = ref[key], got.get(key)
        if a is None or b is None:
            if a != b:
                return key, f"{a} vs {b}"
            continue
        ok = feq(a, b) if exact else fclose(a, b, RTOL * 4 * cond)
        if not ok:
            return key, f"{a!r} vs {b!r}" + (" (dyadic values: sums are exact, equality must be exact)" if exact else "")
    return None


def run_avg(chk, stats):
    from adaptive import AverageLearner
    ncases = 120 if chk.quick else 800
    for k in range(ncases):
        rng = chk.rng("avg", k)
        exact = k % 2 == 0
        # seeds produced by a real ask-driven run with gaps (some seeds never delivered)
        gen = AverageLearner(lambda s: 0.0, atol=rng.choice([0.01, None]), rtol=rng.choice([0.1, 1.0]) if rng.random() < .5 else 0.05)
        handed = []
        while len(handed) < rng.randint(3, 12 if chk.quick else 25):
            handed += gen.ask(rng.randint(1, 4))[0]
        rng.shuffle(handed)
        npend = rng.randint(0, min(3, len(handed) - 2))
        pend, seeds = sorted(handed[:npend]), handed[npend:]
        if len(seeds) > 6 and rng.random() < 0.6:
            seeds = seeds[:rng.choice([3, 4, 5, 6])]
        center = rng.choice([0.0, 0.0, 1.0, 1000.0]) if exact else rng.choice([0.0, 1.0])
        if exact:
            vals = [center + rng.randint(-2 ** 20, 2 ** 20) / 1024.0 for _ in seeds]
        else:
            vals = [center + rng.gauss(0, 1) * rng.choice([1e-3, 1.0, 1e3]) for _ in seeds]
        results = list(zip(seeds, vals))
        kw = dict(atol=rng.choice([0.01, 1.0]), rtol=rng.choice([0.01, 1.0]), min_npoints=rng.choice([2, 3, 5]))
        n = len(results)
        idx = list(range(n))
        if n <= 6:
            orders = list(itertools.permutations(idx)) if (n <= 5 or not chk.quick) else \
                [tuple(idx)] + [tuple(rng.sample(idx, n)) for _ in range(60)]
            stats["avg_exhaustive_sets"] += n <= 5 or not chk.quick
        else:
            orders = [tuple(idx)] + [tuple(rng.sample(idx, n)) for _ in range(10 if chk.quick else 40)]
        ref = None
        replay = {"kind": "avg", "kw": kw, "results": results, "pend": pend}

        def fresh():
            l = AverageLearner(lambda s: 0.0, **kw)
            for p in pend:
                l.tell_pending(p)
            return l

        for j, order in enumerate(orders):
            for mode in (("tell",) if j else ("tell", "tell_many")):
                l = fresh()
                seq = [results[i] for i in order]
                if mode == "tell":
                    for s, v in seq:
                        l.tell(s, v)
                else:
                    l.tell_many([s for s, _ in seq], [v for _, v in seq])
                obs = avg_observe(l)
                stats["avg_deliveries"] += 1
                if ref is None:
                    ref = obs
                    # from scratch: the state is a function of the result set
                    if obs["data"] != dict(results) or obs["npoints"] != n:
                        chk.fail("C11:avg:data is not the set of results", f"AverageLearner data {obs['data']} after telling {results}", replay)
                        return
                    continue
                bad = avg_compare(ref, obs, exact)
                if bad:
                    chk.fail(f"C11:avg:{bad[0]} differs between deliveries of the same results",
                             f"AverageLearner({kw}) pending={pend} results={results}: order {list(orders[0])} vs {mode} in order {list(order)}: {bad[1]}",
                             dict(replay, order=list(order), mode=mode))
                    return
            # a repeated seed is ignored (first value kept), whatever the position
            if j == 0 and results:
                s, v = results[rng.randrange(n)]
                before = avg_observe(l)
                l.tell(s, v + 1.5)
                after = avg_observe(l)
                if avg_compare(before, after, True):
                    chk.fail("C11:avg:a result for an already known seed changes the learner",
                             f"AverageLearner after {results}: tell({s}, {v + 1.5}) changed {avg_compare(before, after, True)}",
                             dict(replay, retell=[s, v + 1.5]))
                    return
        chk.note_case(("avg", kw, results, pend), n >= 3)
        if k < 1:
            chk.sample({"learner": "AverageLearner", "results": results, "pending": pend, "orders": len(orders)})


# ================================================================== SequenceLearner
def seq_observe(l):
    asks = [[int(p[0]) for p in l.ask(n, tell_pending=False)[0]] for n in (1, 2, 5, 10)]
    try:
        res = list(l.result())
    except Exception:
        res = None
    return {"data": list(l.data.items()), "pending": sorted(l.pending_points), "todo": list(l._to_do_indices),
            "loss_real": l.loss(real=True), "loss_exp": l.loss(real=False), "done": l.done(),
            "npoints": l.npoints, "asks": asks, "result": res}


def run_seq(chk, stats):
    from adaptive import SequenceLearner
    ncases = 100 if chk.quick else 600
    for k in range(ncases):
        rng = chk.rng("seq", k)
        ntot = rng.choice([3, 4, 5, 6, 8, 12, 20])
        seq = [[i, i + 0.5] for i in range(ntot)]           # unhashable elements
        gen = SequenceLearner(lambda x: 0, seq)
        handed = [p[0] for p in gen.ask(rng.randint(2, ntot))[0]]
        rng.shuffle(handed)
        npend = rng.randint(0, max(0, len(handed) - 2))
        pend, idxs = sorted(handed[:npend]), handed[npend:]
        if len(idxs) > 6 and rng.random() < 0.6:
            idxs = idxs[:rng.choice([4, 5, 6])]
        results = [(i, 100 + 7 * i) for i in idxs]
        n = len(results)
        ids = list(range(n))
        if n <= 6:
            orders = list(itertools.permutations(ids)) if (n <= 5 or not chk.quick) else \
                [tuple(ids)] + [tuple(rng.sample(ids, n)) for _ in range(60)]
            stats["seq_exhaustive_sets"] += n <= 5 or not chk.quick
        else:
            orders = [tuple(ids)] + [tuple(rng.sample(ids, n)) for _ in range(10 if chk.quick else 40)]
        replay = {"kind": "seq", "ntotal": ntot, "results": results, "pend": pend}
        ref = None
        for j, order in enumerate(orders):
            for mode in (("tell",) if j else ("tell", "tell_many")):
                l = SequenceLearner(lambda x: 0, seq)
                for p in pend:
                    l.tell_pending((p, seq[p]))
                srt = [results[i] for i in order]
                if mode == "tell":
                    for i, v in srt:
                        l.tell((i, seq[i]), v)
                else:
                    l.tell_many([(i, seq[i]) for i, _ in srt], [v for _, v in srt])
                obs = seq_observe(l)
                stats["seq_deliveries"] += 1
                if ref is None:
                    ref = obs
                    if dict(obs["data"]) != dict(results) or [i for i, _ in obs["data"]] != sorted(i for i, _ in results):
                        chk.fail("C11:seq:data is not the set of results", f"SequenceLearner data {obs['data']} after {results}", replay)
                        return
                    continue
                if obs != ref:
                    diff = [key for key in ref if ref[key] != obs[key]]
                    chk.fail(f"C11:seq:{diff[0]} differs between deliveries of the same results",
                             f"SequenceLearner(n={ntot}) pending={pend} results={results}: {mode} order {list(order)}: "
                             f"{diff[0]} = {obs[diff[0]]} vs {ref[diff[0]]}", dict(replay, order=list(order), mode=mode))
                    return
        chk.note_case(("seq", ntot, results, pend), n >= 3)
        if k < 1:
            chk.sample({"learner": "SequenceLearner", "n": ntot, "results": results, "pending": pend, "orders": len(orders)})


# ================================================================== driver
def run(chk: Check) -> int:
    chk.prove(["theories/Props/C11.vo", "theories/Run/L1DRun.vo"], THEOREMS)
    stats = {k: 0 for k in ["deliveries", "incremental", "batch", "default", "mixed", "exhaustive_sets",
                            "losc_rounding_diffs", "ask_ties_accepted", "pending_left_of_first",
                            "pending_in_first_interval", "vector", "factor2_cases", "avg_deliveries",
                            "avg_exhaustive_sets", "seq_deliveries", "seq_exhaustive_sets", "second_run_cases"]}
    cases, metas = [], []
    for f in sorted((chk.work.parents[1] / "corpus" / "C11").glob("*.json")):
        d = json.loads(f.read_text())
        replay_one(d, chk, stats, cases, metas)
    run_l1d(chk, stats, cases, metas)
    chk.log(f"Learner1D oracle: {stats['deliveries']} deliveries, failures {len(chk.failures)}")
    run_avg(chk, stats)
    run_seq(chk, stats)
    chk.log(f"Average/Sequence oracle: {stats['avg_deliveries']}/{stats['seq_deliveries']} deliveries, failures {len(chk.failures)}")
    mism, _, errors = chk.coq_cases("cases", I.PREAMBLE, "case", cases, "check", None, shard=12)
    for e in errors:
        chk.broke("correspondence", "Model/L1D.v cases could not be evaluated", e[-600:])
    for c, s in mism[:5]:
        m = metas[c]
        chk.broke("correspondence", f"Model/L1D.v vs Learner1D on a permuted/batched delivery: case {m['origin']} step {s}",
                  {"cfg": m["cfg"], "ops": m["ops"][:s + 1]})
    sigs = {}
    for f in chk.failures:
        sigs[f["signature"]] = sigs.get(f["signature"], 0) + 1
    chk.extra.update({"feature_counts": stats, "cases_compared_in_coq": len(cases), "mismatches": len(mism), "failure_signatures": sigs,
                      "exhaustive": False,
                      "partial": ["Learner1D: losses_combined, loss(real=False), ask(), vector outputs for the loss table and the batch "
                                  "path of tell_many are not covered by a theorem (C11_l1d_partial + C11_l1d_losses_order_irrelevant cover "
                                  "the data-level components and, for factor 1 / scalar outputs, `losses`, loss(real=True), _oldscale); "
                                  "they are decided by the oracle on the real class and the bit-exact correspondence"]})
    chk.log(f"correspondence: {len(cases)} cases, {len(mism)} mismatches; {stats}")
    return chk.finish(
        rule="result sets come from real ask-driven runs (so both end points are included) on 8 function shapes (scalar and vector), "
             "5 bounds, the 6 shipped 1D losses; each set is delivered in every order (<= 5 results quick / <= 6 thorough; random "
             "orders beyond), by tell, by one forced-batch tell_many, by tell_many with the default switch and by batch + "
             "incremental, with a fixed pending set (none / random interior / inside the first interval / lower end point pending "
             "with a further pending point left of the first evaluated point), optionally with all results in flight; second runs: "
             "the deliveries start from a learner built by a first ask-driven history with partial delivery, remove_unfinished() "
             "and new requests (several per old interval, some of which stay pending); "
             "_recompute_losses_factor = 1 (80 %) compares losses exactly, losses_combined, loss(real=False) to 1e-12 relative, "
             "ask(1..10, tell_pending=False) with tie-aware matching; factor 2 checks the C01 staleness bracket; AverageLearner "
             "(dyadic values: exact; gaussian: 1e-12 x conditioning) and SequenceLearner (exact) likewise incl. repeated seeds; "
             "non-trivial = at least one pending point and more than 4 deliveries (1D) / at least 3 results (avg, seq)",
        assumptions=["hand-written model Model/L1D.v tied to learner1D.py by the sampled bit-exact correspondence",
                     "Learner1D losses_combined / ask / batch path: decided by the oracle, not by a theorem (`_partial`)",
                     "the averaging theorems are about Model/AvgSpec.v (exact arithmetic); floats: to rounding, by the oracle"])


def replay_one(r, chk=None, stats=None, cases=None, metas=None):
    """Re-run one failing input; returns the oracle's message or None."""
    stats = stats if stats is not None else {k: 0 for k in ["losc_rounding_diffs", "ask_ties_accepted"]}
    if r.get("kind") == "l1d":
        told = [(x, tuple(y) if isinstance(y, list) else y) for x, y in r["told"]]
        cfg = r["cfg"]
        prefix = [I.norm_op(o) for o in r["prefix"]] if r.get("prefix") else None
        ref_ops = l1d_ops(told, r["pend"], "incremental", r["inflight"], list(range(len(told))), None, prefix)
        ops = l1d_ops(told, r["pend"], r.get("mode", "incremental"), r["inflight"], r.get("order"), r.get("cut"), prefix)
        _, _, _, ref, _ = l1d_run(cfg, ref_ops)
        _, _, _, obs, errs = l1d_run(cfg, ops, bracket=cfg["factor"] != 1)
        bad = l1d_compare(ref, obs, stats) if cfg["factor"] == 1 else (errs[0] if errs else None)
        if bad and chk is not None:
            chk.fail(f"C11:l1d:{bad[0]} differ between deliveries of the same results", f"corpus case: {bad[1]}", r)
        return bad
    return None


def _replay_simple(r):
    """Averaging / sequence learner: re-deliver the recorded results in the reference and the failing order."""
    from adaptive import AverageLearner, SequenceLearner
    results = [tuple(x) for x in r["results"]]
    order = r.get("order") or list(range(len(results)))

    def deliver(order, mode):
        if r["kind"] == "avg":
            l = AverageLearner(lambda s: 0.0, **r["kw"])
            for p in r["pend"]:
                l.tell_pending(p)
            pts = [results[i] for i in order]
            if mode == "tell_many":
                l.tell_many([s for s, _ in pts], [v for _, v in pts])
            else:
                for s_, v in pts:
                    l.tell(s_, v)
            if r.get("retell"):
                before = avg_observe(l)
                l.tell(*r["retell"])
                return before, avg_observe(l)
            return avg_observe(l)
        seq = [[i, i + 0.5] for i in range(r["ntotal"])]
        l = SequenceLearner(lambda x: 0, seq)
        for p in r["pend"]:
            l.tell_pending((p, seq[p]))
        pts = [results[i] for i in order]
        if mode == "tell_many":
            l.tell_many([(i, seq[i]) for i, _ in pts], [v for _, v in pts])
        else:
            for i, v in pts:
                l.tell((i, seq[i]), v)
        return seq_observe(l)

    if r.get("retell"):
        before, after = deliver(list(range(len(results))), "tell")
        return avg_compare(before, after, True)
    ref = deliver(list(range(len(results))), "tell")
    got = deliver(order, r.get("mode", "tell"))
    if r["kind"] == "avg":
        return avg_compare(ref, got, False)
    diff = [k for k in ref if ref[k] != got[k]]
    return (diff[0], f"{got[diff[0]]} vs {ref[diff[0]]}") if diff else None


def replay(doc) -> int:
    bad = 0
    for f in doc.get("failing_inputs", []):
        r = f.get("replay") or {}
        if r.get("kind") == "l1d":
            res = replay_one(r)
            print("replayed Learner1D", r["cfg"], r.get("mode"), r.get("order"), "->", res or "oracle silent")
        elif r.get("kind") in ("avg", "seq"):
            res = _replay_simple(r)
            print("replayed", r["kind"], r.get("mode"), r.get("order"), "->", res or "oracle silent")
        else:
            continue
        bad += bool(res)
    for b in doc.get("no_longer_checks", []):
        d = b.get("detail")
        if isinstance(d, dict) and "cfg" in d and "ops" in d:
            l, rec, steps = I.drive(d["cfg"], None, 0, ops=[I.norm_op(o) for o in d["ops"]])
            print("re-ran the disagreeing correspondence case on the implementation:", d["cfg"], len(steps), "ops; "
                  "re-run ./check C11 to compare with the model")
            bad += 1
    return 1 if bad else 0
