"""C18 -- DataSaver is transparent: the wrapped learner behaves as if unwrapped.

proof          : coq/theories/Props/C18.v (model Model/DataSaver.v over Model/GenericLearner.v)
correspondence : seeded histories on the real DataSaver over a real child whose calls are recorded
                 (Run/OracleChild.v) vs the model (vm_compute in Coq); Run/DataSaverRun.v extends the model's
                 history ops by XSetData (load / copy_from / _set_data into the saver as it is = Model set_data,
                 the subject of C18_roundtrip) and XInner (a call on the wrapped learner behind the saver's back)
search         : from-scratch twin oracle: the same history on the bare learner fed the picked values, in
                 lock-step, every public observable compared after every operation (npoints, data,
                 pending_points, loss(real) both ways, bounds & co., every public attribute read through
                 the wrapper vs read on the wrapped learner); extra_data keys/values; picker called
                 exactly once per tell; results a partial picker rejects leave the saver untouched; positional
                 and keyword spellings of every delegated call; save / load / copy_from / _set_data INTO savers that already hold
                 data (earlier checkpoint of the same run, another run), wrapped learners that held data
                 before they were wrapped, data fed to the wrapped learner directly; pickle
"""
from __future__ import annotations

import copy
import glob
import json
import math
import operator
import os
import pickle
import random

import numpy as np

from .. import coqio as C
from .. import impl_wrappers as W
from ..core import Check

THEOREMS = {n: "Props.C18" for n in ["C18_bisimulation", "C18_bisimulation_obs", "C18_tell_many_is_tells", "C18_extra_data",
                                          "C18_roundtrip"]}

PREAMBLE = """From Coq Require Import ZArith PrimFloat List. Import ListNotations.
From AV Require Import Base.Prelude Base.FloatUtil Model.GenericLearner Model.DataSaver Run.OracleChild Run.DataSaverRun.
Open Scope nat_scope."""

KINDS = ["l1d", "lnd", "seq", "avg", "int", "l2d", "avg1d"]
COPY_LIVE = True       # copy_from / _set_data(_get_data()) from a saver that goes on living and being told
PICKERS = ["itemgetter", "lambda_dict", "identity"]


def make_picker(name):
    if name == "itemgetter":
        return operator.itemgetter("y")
    if name == "lambda_dict":
        return lambda r: r["y"]
    return lambda r: r


def make_result(name, y, tag):
    """The full result of one evaluation."""
    if name == "identity":
        return float(y)
    return {"y": float(y), "tag": int(tag), "note": f"run{tag}"}


def tag_of(name, r):
    return 0 if name == "identity" else int(r["tag"])


def probe_retell_overwrites():
    """Does DataSaver.tell of an already known point replace extra_data (the code as it is; C10 lists this
    as finding F20 because Learner1D keeps the FIRST value)?  If a later repair keeps the first result
    instead, the oracle follows it and the model comparison stops at the first such re-tell (DESIGN 4.7)."""
    from adaptive import DataSaver, Learner1D
    try:
        ds = DataSaver(Learner1D(lambda x: x, (-1.0, 1.0)), arg_picker=operator.itemgetter("y"))
        first, second = {"y": 1.0, "tag": 1}, {"y": 2.0, "tag": 2}
        ds.tell(0.0, first)
        ds.tell(0.0, second)
        return ds.extra_data[0.0] != first        # only "keeps exactly the first result" counts as repaired
    except Exception:
        return True


_MERGES: dict = {}


def learner_merges(kind):
    """Does the bare learner's own load ADD the loaded points to what it holds (Learner1D, SequenceLearner,
    AverageLearner1D re-tell them) or REPLACE its data (Learner2D, LearnerND, AverageLearner, IntegratorLearner)?
    Probed on the bare learner: what a DataSaver around it has to keep after a load depends on it."""
    if kind not in _MERGES:
        a, b = W.make_child(kind, 0, 40), W.make_child(kind, 0, 40)
        prefill(kind, a, 2)
        prefill(kind, b, 5)
        fname = os.path.join(work_dir(), f"probe_{kind}.pickle")
        a.save(fname)
        b.load(fname)
        _MERGES[kind] = len(told_map(kind, b)) > len(told_map(kind, a))
    return _MERGES[kind]


class CountingPicker:
    def __init__(self, f):
        self.f, self.calls, self.raised = f, [], 0

    def __call__(self, r):
        self.calls.append(r)
        try:
            return self.f(r)
        except Exception:
            self.raised += 1          # the picker itself rejected the result
            raise


BAD_KINDS = ["missing_key", "wrong_type", "none"]


def bad_result(badkind, tag):
    """A result a PARTIAL picker (itemgetter('y'), lambda r: r['y']) rejects; with the identity picker `None`
    reaches the wrapped learner, which rejects it itself (Learner1D, AverageLearner1D: TypeError)."""
    if badkind == "missing_key":
        return {"t": 0.3, "error": "diverged", "tag": int(tag)}
    if badkind == "wrong_type":
        return 0.3 + int(tag)
    return None


SPELLINGS = ["kw", "pos", "allkw", "default"]


def call_ask(l, n, commit, sp):
    if sp == "pos":
        return l.ask(n, commit)
    if sp == "allkw":
        return l.ask(n=n, tell_pending=commit)
    if sp == "default" and commit:
        return l.ask(n)
    return l.ask(n, tell_pending=commit)


def call_loss(l, real, sp):
    if sp == "pos":
        return l.loss(real)
    if sp == "default" and real:
        return l.loss()
    return l.loss(real=real)


def safe_loss(l, real):
    try:
        return float(l.loss(real=real))
    except ZeroDivisionError:
        return float("nan")


def obs_loss(l, real=True):
    """loss(real) as a comparable value: a learner whose loss() raises does so with and without the wrapper."""
    try:
        v = float(l.loss(real=real))
        return "nan" if math.isnan(v) else v
    except Exception as e:
        return "raises " + type(e).__name__


def feq(a, b):
    return a == b or (math.isnan(a) and math.isnan(b))


def dec_point(kind, child, enc):
    if kind in ("l1d", "int"):
        return float(enc[0])
    if kind == "avg":
        return int(enc[0])
    if kind == "seq":
        i = int(enc[0])
        return (i, child.sequence[i])
    if kind == "avg1d":
        return (int(enc[0]), float(enc[1]))
    return tuple(float(c) for c in enc)


FREE_KINDS = ("l1d", "seq", "avg", "l2d", "avg1d")     # accept tells / tell_pending of points they never handed out
RESTORE_HOWS = ["load", "load", "set_data", "copy_from"]
LIVE_HOWS = ["copy_live", "set_data_live"]


def gen_history(rng, kind, maxlen, persist=True):
    h = []
    for _ in range(rng.randint(3, maxlen)):
        r = rng.random()
        if r < 0.27:
            h.append(("ask", rng.choice([1, 1, 2, 3, 5, 0]), rng.random() < 0.85))
        elif r < 0.55:
            h.append(("tell", rng.choice(["outstanding", "outstanding", "outstanding", "unsolicited", "again"]), rng.random() < 0.7))
        elif r < 0.61:
            h.append(("tell_pending",))
        elif r < 0.64:
            h.append(("tell_pending_told",))
        elif r < 0.665:
            h.append(("tell_bad",))
        elif r < 0.71:
            h.append(("tell_many", rng.choice([0, 1, 2, 2, 3, 4, 5]), rng.choice(ITER_MODES), rng.choice(ITER_MODES)))
        elif r < 0.78:
            h.append(("loss", rng.random() < 0.5))
        elif r < 0.83:
            h.append(("remove_unfinished",))
        elif not persist:
            h.append(("ask", 1, True))
        elif r < 0.89:
            h.append(("save",))
        elif r < 0.95:
            h.append(("restore",))
        elif r < 0.98:
            h.append(("inner_tell",))
        else:
            h.append(("inner_load",))
    return h


ITER_MODES = ["list", "tuple", "gen", "map", "zip", "iter"]


def one_shot(items, mode, other):
    """`items` as the given kind of iterable; all but list/tuple can be consumed only once."""
    if mode == "list":
        return list(items)
    if mode == "tuple":
        return tuple(items)
    if mode == "gen":
        return (v for v in items)
    if mode == "map":
        return map(lambda v: v, items)
    if mode == "zip":                   # derived from a zip of both arguments
        return map(operator.itemgetter(0), zip(list(items), list(other) + [None] * len(items)))
    return iter(list(items))


_SERIAL = [0]
_WORK = [None]


def work_dir():
    d = _WORK[0] or "/var/tmp/c18_replay"
    os.makedirs(d, exist_ok=True)
    return d


class Side:
    """One side of a twin run (the DataSaver / the bare learner fed the picked values): where its
    checkpoint files live, the other run it may copy from, how to make an empty sibling."""

    def __init__(self, spec, wrapped, base):
        self.spec, self.wrapped, self.base = spec, wrapped, base
        self.donor = None                 # a live learner of the same side (the other run), if any

    def path(self, slot):
        return f"{self.base}_{'w' if self.wrapped else 't'}_{slot}.pickle"

    def inner_path(self, slot):
        return f"{self.base}_t_{slot}.pickle"

    def fresh(self):
        from adaptive import DataSaver
        child = W.make_child(self.spec["kind"], self.spec.get("koff", 0), self.spec.get("size", 40))
        return DataSaver(child, arg_picker=make_picker(self.spec["picker"])) if self.wrapped else child


def apply_op(kind, l, op, wrapped, picker_name, side=None):
    """One concrete op on a learner; returns ("ask", pts, imps) / ("loss", v) / ("none",) / ("exc", type)."""
    try:
        child = l.learner if wrapped else l
        if op[0] == "ask":
            pts, imps = call_ask(l, op[1], op[2], op[3] if len(op) > 3 else "kw")
            return ("ask", [W.enc_point(kind, p) for p in pts], [float(v) for v in imps], list(pts))
        if op[0] == "tell":
            p = dec_point(kind, child, op[1])
            r = make_result(picker_name, op[2], op[3])
            l.tell(p, r if wrapped else make_picker(picker_name)(r))
            return ("none",)
        if op[0] == "tell_many":
            xs = [dec_point(kind, child, it[0]) for it in op[1]]
            rs = [make_result(picker_name, it[1], it[2]) for it in op[1]]
            if wrapped and len(op) > 4 and op[4] == "kw":
                l.tell_many(xs=one_shot(xs, op[2], rs), ys=one_shot(rs, op[3], xs))
            elif wrapped:
                l.tell_many(one_shot(xs, op[2], rs), one_shot(rs, op[3], xs))
            else:                       # the bare learner fed the picked values, one by one
                pk = make_picker(picker_name)
                for p, r in zip(xs, rs):
                    l.tell(p, pk(r))
            return ("none",)
        if op[0] == "tell_bad":
            # a result the picker may reject: then the DataSaver must raise and be left as it was, and the bare
            # learner is told nothing; a result the picker lets through is the wrapped learner's business
            p = dec_point(kind, child, op[1])
            bad = bad_result(op[2], op[3])
            if wrapped:
                pk = l.arg_picker
                before = pk.raised
                try:
                    l.tell(p, bad)
                except Exception as e:
                    if pk.raised > before:
                        return ("rejected", type(e).__name__)
                    raise
                return ("none",)
            try:
                v = make_picker(picker_name)(bad)
            except Exception as e:
                return ("rejected", type(e).__name__)
            l.tell(p, v)
            return ("none",)
        if op[0] == "tell_pending":
            if wrapped and len(op) > 2 and op[2] == "kw":
                l.tell_pending(x=dec_point(kind, child, op[1]))      # DataSaver.tell_pending(self, x)
            else:
                l.tell_pending(dec_point(kind, child, op[1]))
            return ("none",)
        if op[0] == "loss":
            return ("loss", float(call_loss(l, op[1], op[2] if len(op) > 2 else "kw")))
        if op[0] == "remove_unfinished":
            l.remove_unfinished()
            return ("none",)
        # --- persistence into a learner that may already hold data -------------------------------
        if op[0] == "save":
            l.save(side.path(op[1]))
            return ("none",)
        if op[0] == "restore":
            how = op[2]
            if how == "load":
                l.load(side.path(op[1]))
            elif how == "set_data":
                from adaptive.utils import load as load_file
                l._set_data(load_file(side.path(op[1])))
            elif how == "copy_from":          # from a sibling that exists only for this purpose
                tmp = side.fresh()
                tmp.load(side.path(op[1]))
                l.copy_from(tmp)
            elif how == "copy_live":          # from the other run, which goes on living (and being told)
                l.copy_from(side.donor)
            else:                             # "set_data_live"
                l._set_data(side.donor._get_data())
            return ("none",)
        if op[0] == "donor_step":             # the other run goes on: it asks for a point and is told its result
            d = side.donor
            dchild = d.learner if wrapped else d
            pts, _ = d.ask(1)
            if not pts:
                return ("none",)
            r = make_result(picker_name, W.evaluate(kind, dchild, pts[0]), op[1])
            d.tell(pts[0], r if wrapped else make_picker(picker_name)(r))
            return ("donor", W.enc_point(kind, pts[0]), r)
        # --- data that reaches the wrapped learner without passing through the DataSaver ---------
        if op[0] == "inner_tell":
            child.tell(dec_point(kind, child, op[1]), op[2])
            return ("none",)
        if op[0] == "inner_load":             # a learner-level file (written by the bare twin)
            child.load(side.inner_path(op[1]))
            return ("none",)
        if op[0] == "inner_tmap":
            child.tell_many_at_point(float(op[1]), {int(sd): float(y) for sd, y in op[2]})
            return ("none",)
        raise AssertionError(f"unknown op {op!r}")
    except AssertionError:
        raise
    except Exception as e:        # compared between the twins
        return ("exc", type(e).__name__)


def told_map(kind, learner):
    """hashable point -> value, for every point the learner holds a value for (as told)."""
    if kind == "avg1d":
        return {(int(sd), float(x)): v for x, d in learner._data_samples.items() for sd, v in d.items()}
    return {W.hashable(kind, q): v for q, v in learner.data.items()}


# names a DataSaver answers itself; everything else the wrapped learner offers is reached by delegation
OWN_NAMES = {"learner", "extra_data", "function", "arg_picker", "ask", "tell", "tell_many", "tell_pending", "loss",
             "remove_unfinished", "new", "copy_from", "save", "load", "to_dataframe", "load_dataframe"}


def _same_value(a, b):
    if a is b:
        return True
    try:
        if isinstance(a, np.ndarray) or isinstance(b, np.ndarray):
            return bool(np.array_equal(np.asarray(a), np.asarray(b), equal_nan=True))
        if isinstance(a, float) and isinstance(b, float) and math.isnan(a) and math.isnan(b):
            return True
        if type(a) is type(b) and type(a).__eq__ is object.__eq__:
            return True                   # two fresh objects without a notion of equality: cannot be judged
        return bool(a == b)
    except Exception:
        return True


def _get(obj, name):
    try:
        return ("ok", getattr(obj, name))
    except Exception as e:
        return ("exc", type(e).__name__)


def delegation_scan(ds):
    """Every public attribute of the wrapped learner, read through the DataSaver and directly."""
    inner, bad = ds.learner, []
    for name in dir(inner):
        if name.startswith("_") or name in OWN_NAMES:
            continue
        a, b = _get(inner, name), _get(ds, name)
        if a[0] != b[0] or (a[0] == "exc" and a[1] != b[1]) or (a[0] == "ok" and not _same_value(a[1], b[1])):
            bad.append(f"{name}: DataSaver -> {str(b[1])[:50]}, wrapped learner -> {str(a[1])[:50]}")
    return bad


EXTRA_ATTRS = {"l1d": ["bounds", "vdim"], "lnd": ["bounds", "ndim", "vdim"], "l2d": ["bounds", "vdim", "bounds_are_done"],
               "seq": ["sequence"], "avg": ["mean", "std", "n_requested", "atol", "rtol", "min_npoints"],
               "int": ["bounds", "igral", "err", "nr_points", "tol"],
               "avg1d": ["bounds", "nsamples", "min_samples_per_point", "min_samples", "max_samples", "delta"]}


def _norm(v):
    if isinstance(v, np.ndarray):
        return ("arr", v.shape, [repr(float(t)) for t in v.ravel()[:50]])
    if isinstance(v, (float, np.floating)):
        return repr(float(v))
    if isinstance(v, (int, np.integer, bool)):
        return int(v)
    if isinstance(v, (list, tuple)):
        return [_norm(t) for t in v]
    if isinstance(v, (set, frozenset)):
        return sorted(repr(_norm(t)) for t in v)
    if isinstance(v, dict):
        return sorted((repr(_norm(k)), repr(_norm(t))) for k, t in v.items())
    return repr(type(v)) if v is not None else None


def attr_view(kind, l):
    """Further public observables (read through the wrapper when `l` is one), normalised for comparison."""
    out = {}
    for name in EXTRA_ATTRS[kind]:
        g = _get(l, name)
        out[name] = ("exc", g[1]) if g[0] == "exc" else _norm(g[1])
    if kind == "avg1d":
        out["samples"] = _norm({x: dict(d) for x, d in l._data_samples.items()})
    if kind in ("seq", "int"):
        g = _get(l, "done")
        try:
            out["done"] = bool(g[1]()) if g[0] == "ok" else g
        except Exception as e:
            out["done"] = type(e).__name__
    return out


def public_state(kind, l):
    """What C18 observes of a learner (wrapped or bare) after every operation."""
    return {"npoints": int(l.npoints), "pend": W.child_pending(kind, l), "data": W.child_data(kind, l),
            "loss_r": safe_loss(l, True), "loss_e": safe_loss(l, False), "attrs": attr_view(kind, l)}


def prefill(kind, learner, n):
    """Points the learner is given BEFORE it is wrapped (the same for the bare twin)."""
    for _ in range(n):
        pts, _ = learner.ask(1)
        for p in pts:
            learner.tell(p, W.evaluate(kind, learner, p))


def drive(spec, hist=None, rng=None, concrete=None, record=True, overwrites=True, is_donor=False):
    """Run DataSaver(child) on a history, in lock-step with the bare twin (the same learner fed the picked
    values).  Returns dict(steps, rec, ds, twin, errors, ...); steps = (op, out, obs, state, twin_out, twin_state)."""
    from adaptive import DataSaver
    kind, pname = spec["kind"], spec["picker"]
    _SERIAL[0] += 1
    base = os.path.join(work_dir(), f"ck{_SERIAL[0] % 64}")
    for f in glob.glob(base + "_*.pickle"):      # checkpoints of an earlier case
        os.unlink(f)
    np.random.seed(spec.get("npseed", 1))
    random.seed(spec.get("npseed", 1))
    child = W.make_child(kind, spec.get("koff", 0), spec.get("size", 40))
    twin = W.make_child(kind, spec.get("koff", 0), spec.get("size", 40))
    if spec.get("prefill"):
        prefill(kind, child, spec["prefill"])
        prefill(kind, twin, spec["prefill"])
    for l in (child, twin):       # both are looked at before the history starts (the recorder does so on the wrapped
        try:                      # one): Learner2D keeps cached interpolators across a load
            public_state(kind, l)
        except Exception:
            pass
    rec = W.Recorder(kind, child, 0, names=W.Recorder.NAMES + ("_set_data",), tolerant=True) if record else None
    picker = CountingPicker(make_picker(pname))
    ds = DataSaver(child, arg_picker=picker)
    wside, tside = Side(spec, True, base), Side(spec, False, base)
    steps, errors, outstanding, told_keys = [], [], [], []
    expected_extra = {}        # hashable point -> acceptable full results (from scratch)
    key_order = []
    excused = set()            # keys whose point the wrapped learner lost through a bypassing inner load
    slots = {}                 # checkpoint -> what the saver held when it was written
    tag = [100]
    stop = None
    donor = None
    loaded_extra = {}          # step index of a restore -> the extra_data of the loaded state, as the model's argument
    stats = {"restores": 0, "restores_into_saver_holding_other_points": 0, "restores_learner_forgets_points": 0,
             "restores_learner_keeps_points": 0, "steps_npoints_differs_from_len_extra_data": 0, "inner_ops": 0}

    def extra_obs(saver):
        pk = make_picker(pname)
        return [(W.enc_point(kind, k), float(pk(v)), tag_of(pname, v)) for k, v in saver.extra_data.items()]
    if spec.get("donor") and not is_donor:
        dspec = dict(spec, **{k: v for k, v in spec["donor"].items() if k != "ops"})
        dspec.pop("donor", None)
        donor = drive(dspec, concrete=spec["donor"]["ops"], record=False, overwrites=overwrites, is_donor=True)
        errors.extend((sig, "in the other run: " + msg) for sig, msg in donor["errors"])
        try:
            if donor["tainted"]:
                raise StopIteration
            donor["ds"].save(wside.path("donor"))
            donor["twin"].save(tside.path("donor"))
            wside.donor, tside.donor = donor["ds"], donor["twin"]
            slots["donor"] = {"expected": {k: list(v) for k, v in donor["expected_extra"].items()},
                              "order": list(donor["key_order"]), "excused": set(donor["excused"]),
                              "T": set(told_map(kind, donor["ds"].learner)), "extra_obs": extra_obs(donor["ds"])}
        except StopIteration:
            donor = None
        except Exception as e:
            errors.append(("C18:persist_exception", f"saving the other run: {type(e).__name__}: {e}"))
            donor = None

    live_copied = [False]
    tainted = [False]        # a rejected tell left a result behind (reported): not a state to copy from
    retell_at = [None]       # index of the first re-tell the child ignored (F20 trigger), if any
    drop_at = [None]         # index of the first load into a saver holding results of points that are not in the
                             # loaded state but that the wrapped learner keeps knowing (its _set_data merges)

    def items_of(op):
        if op[0] == "tell":
            return [(op[1], op[2], op[3])]
        if op[0] == "tell_many":
            return [tuple(it) for it in op[1]]
        return []

    def do(op, full=True):
        nonlocal stop
        try:
            _do(op, full)
        except Exception as e:          # the implementation left a state the harness cannot even observe
            errors.append(("C18:unobservable_state", f"{type(e).__name__}: {e} while observing the DataSaver after {op[0]}"))
            stop = "unobservable"

    def _do(op, full):
        nonlocal stop, key_order, expected_extra, excused
        ncalls = len(picker.calls)
        items = items_of(op)
        cur = told_map(kind, child) if items else {}
        old_keys = list(key_order)
        extra_before = list(ds.extra_data.items()) if op[0] in ("tell", "tell_bad") else None
        live_src = None
        if op[0] == "restore" and op[2] in LIVE_HOWS:      # the other run as it is right now
            live_src = {"expected": {k: list(v) for k, v in donor["expected_extra"].items()}, "order": list(donor["key_order"]),
                        "excused": set(donor["excused"]), "T": set(told_map(kind, donor["ds"].learner)),
                        "extra_obs": extra_obs(donor["ds"])}
        out = apply_op(kind, ds, op, True, pname, wside)
        tout = apply_op(kind, twin, op, False, pname, tside)
        T = set(told_map(kind, child))
        judged_restore = False
        if items:
            results = [make_result(pname, y, t) for _, y, t in items]
            if out[0] == "none":
                final = told_map(kind, child)
                for (enc, y, t), r in zip(items, results):
                    hp = W.hashable(kind, dec_point(kind, child, enc))
                    before = cur.get(hp)
                    unchanged = before is not None and final.get(hp) == before
                    differs = float(make_picker(pname)(r)) != float(before) if before is not None else True
                    if unchanged and retell_at[0] is None:
                        retell_at[0] = len(steps)
                    if hp not in expected_extra:
                        key_order.append(hp)
                        expected_extra[hp] = [r]
                    elif overwrites or not unchanged:
                        expected_extra[hp] = [r]
                    elif not differs:
                        expected_extra[hp] = expected_extra[hp] + [r]     # repaired F20, same value: either result is fine
                    cur[hp] = final.get(hp)
                got = picker.calls[ncalls:]
                if len(got) != len(results) or any(a != b for a, b in zip(got, results)):
                    errors.append(("C18:picker_once", f"{op[0]} of {len(results)} result(s) called the picker {len(got)} times "
                                                      f"(arguments {got[:3]!r}, results {results[:3]!r})"))
        elif op[0] == "tell_bad":
            got = picker.calls[ncalls:]
            if len(got) != 1 or got[0] != bad_result(op[2], op[3]):
                errors.append(("C18:picker_once", f"tell of one result called the picker {len(got)} times (arguments {got[:3]!r})"))
        elif len(picker.calls) != ncalls:
            errors.append(("C18:picker_once", f"{op[0]} called the picker"))
        kept_rejected = None
        if extra_before is not None and out[0] in ("rejected", "exc") and list(ds.extra_data.items()) != extra_before:
            tainted[0] = True
            kept_rejected = [k for k in ds.extra_data if k not in dict(extra_before) or ds.extra_data[k] != dict(extra_before)[k]]
            if out[0] == "rejected":
                errors.append(("C18:picker_rejected_result_kept",
                               f"tell({dec_point(kind, child, op[1])!r}, {bad_result(op[2], op[3])!r}) raised {out[1]} in the picker, the "
                               f"wrapped learner was told nothing, but extra_data now holds a result for {kept_rejected[:3]} "
                               f"(keys before {[k for k, _ in extra_before][:5]})"))
            elif tout[0] == "exc":
                errors.append(("C18:rejected_tell_keeps_result",
                               f"tell({dec_point(kind, child, op[1])!r}, ...) was rejected by the wrapped learner ({out[1]}, the bare "
                               f"learner rejects it too) but extra_data keeps a full result for {kept_rejected[:3]}, a point the "
                               f"wrapped learner has no value for"))
        if op[0] == "tell_bad" and out[0] == "none":
            # the picker let it through and the wrapped learner took it (Learner1D ignores any value for a point it
            # knows): an ordinary tell of an odd result; the history ends here (the result has no numeric picked value)
            stop = "bad-result-accepted"
            tainted[0] = True
            if tout[0] == "none":
                hp = W.hashable(kind, dec_point(kind, child, op[1]))
                if hp not in expected_extra:
                    key_order.append(hp)
                expected_extra[hp] = expected_extra.get(hp, []) + [bad_result(op[2], op[3])]
        if out[0] == "ask" and op[2]:
            outstanding.extend(out[3])
        if op[0] == "remove_unfinished":
            outstanding.clear()
        if op[0] == "donor_step" and out[0] == "donor":
            hp = W.hashable(kind, dec_point(kind, donor["ds"].learner, out[1]))
            if hp not in donor["expected_extra"]:
                donor["key_order"].append(hp)
            donor["expected_extra"][hp] = [out[2]]
        try:
            keys = [W.hashable(kind, k) for k in ds.extra_data.keys()]
        except Exception:
            keys = list(ds.extra_data.keys())
        if op[0] == "save" and out[0] == "none":
            slots[op[1]] = {"expected": {k: list(v) for k, v in expected_extra.items()}, "order": list(key_order),
                            "excused": set(excused), "T": set(T), "extra_obs": extra_obs(ds)}
        if op[0] in ("inner_load", "inner_tmap", "inner_tell") and out[0] == "none":
            excused |= set(keys) - T
            stats["inner_ops"] += 1
        if op[0] == "restore" and out[0] == "none":
            # the saver now holds the loaded state: full results for the loaded points, and -- when the wrapped
            # learner's own _set_data merges instead of replacing -- still those of the points it keeps knowing
            src = live_src if op[2] in LIVE_HOWS else slots[op[1]]
            loaded_extra[len(steps)] = src["extra_obs"]
            stats["restores"] += 1
            absent = [k for k in key_order if k not in src["expected"]]
            stats["restores_into_saver_holding_other_points"] += bool(absent)
            stats["restores_learner_forgets_points"] += bool(absent) and not learner_merges(kind)
            stats["restores_learner_keeps_points"] += bool(absent) and learner_merges(kind)
            new_expected = {k: list(v) for k, v in src["expected"].items()}
            new_order = list(src["order"])
            kept = []
            merges = learner_merges(kind)
            for k in key_order:
                if k in new_expected:
                    new_expected[k] = new_expected[k] + [r for r in expected_extra[k] if r not in new_expected[k]]
                elif merges and k in T:
                    kept.append(k)
                    new_expected[k] = list(expected_extra[k])
            if kept and drop_at[0] is None:
                drop_at[0] = len(steps)       # trigger of the listed finding C18:load_drops_told_result (whatever the code does)
            new_excused = (excused | src["excused"]) & set(new_order + kept)
            surplus = [k for k in keys if k not in new_expected]
            missing = [k for k in new_order + kept if k not in keys]
            judged_restore = True
            if surplus and out[0] != "exc":
                sig = "C18:extra_data_not_in_data" if any(k not in T for k in surplus) else "C18:extra_data_keys"
                errors.append((sig, f"after {op[2]} of checkpoint {op[1]!r} into a DataSaver holding results for {old_keys[:5]} "
                                    f"extra_data has key(s) {surplus[:4]} that belong neither to the loaded state "
                                    f"{src['order'][:5]} nor to points the wrapped learner still knows "
                                    f"(wrapped learner knows {len(T)} points, extra_data has {len(keys)} keys)"))
            if missing:
                if all(k in kept for k in missing):
                    errors.append(("C18:load_drops_told_result",
                                   f"after {op[2]} of checkpoint {op[1]!r} the wrapped learner still knows the told point(s) "
                                   f"{missing[:4]} (its _set_data merges) but their full results are gone from extra_data "
                                   f"(keys {keys[:6]})"))
                else:
                    errors.append(("C18:told_result_lost", f"after {op[2]} of checkpoint {op[1]!r} extra_data lacks the loaded "
                                                           f"result(s) of {[k for k in missing if k not in kept][:4]}"))
            # continue from what is actually there (order after a merge is not prescribed)
            expected_extra = {k: v for k, v in new_expected.items()}
            for k in surplus:
                expected_extra[k] = [ds.extra_data[kk] for kk in ds.extra_data if W.hashable(kind, kk) == k]
            for k in missing:
                expected_extra.pop(k, None)
            key_order = [k for k in keys if k in expected_extra]
            excused = new_excused | ({k for k in surplus if k not in T})
            told_keys[:] = [p for p in told_keys if W.hashable(kind, p) in T]
            if kind in ("lnd", "int"):
                outstanding.clear()
        # extra_data against the from-scratch expectation
        extra_ok = False
        lost = [hp for hp in key_order if hp not in keys]
        stray = [k for k in keys if k not in T and k not in excused]
        if kept_rejected is not None:
            pass                                  # reported above
        elif judged_restore and not surplus and missing and all(k in kept for k in missing):
            extra_ok = True                       # reported above (results dropped by a load); the history goes on
        elif judged_restore and (surplus or missing):
            pass                                  # reported above
        elif lost and out[0] != "exc":
            errors.append(("C18:told_result_lost", f"after {op[0]} the full result of told point(s) {lost[:4]} is no longer "
                                                   f"retrievable from extra_data (keys {keys[:6]})"))
        elif keys != key_order and out[0] != "exc" and op[0] == "donor_step":
            errors.append(("C18:copy_from_shares_extra_data",
                           f"a result told to the DataSaver this one copied from shows up here: extra_data keys {keys[:6]}, "
                           f"told points {key_order[:6]}"))
        elif keys != key_order and out[0] != "exc":
            errors.append(("C18:extra_data_keys", f"extra_data keys {keys[:6]} != told points {key_order[:6]}"))
        elif stray and out[0] != "exc":
            errors.append(("C18:extra_data_not_in_data", f"after {op[0]} extra_data holds result(s) for {stray[:4]}, point(s) the "
                                                         f"wrapped learner has no value for"))
        elif out[0] != "exc" and any(ds.extra_data[k] not in expected_extra[W.hashable(kind, k)] for k in ds.extra_data):
            errors.append(("C18:extra_data_values", "extra_data value is not the last full result told for the point"))
        else:
            extra_ok = True
        o = st = ts = None
        if out[0] != "exc" and tout[0] != "exc":
            # a learner that cannot be observed (loss() raises ...) is so with and without the wrapper
            sx = tx = None
            try:
                st = public_state(kind, ds)
            except Exception as e:
                sx = type(e).__name__
            try:
                ts = public_state(kind, twin)
            except Exception as e:
                tx = type(e).__name__
            if sx or tx:
                out, tout = ("exc", "observing:" + str(sx)), ("exc", "observing:" + str(tx))
        if out[0] == "exc" or tout[0] == "exc":
            stop = "exception:" + (out[1] if out[0] == "exc" else tout[1])
        elif stop == "bad-result-accepted":
            pass
        elif not extra_ok:
            stop = "extra_data-wrong"          # reported above; the model comparison needs well-formed extra_data
        else:                                  # (the twin comparison still runs on this step)
            if rec is not None and full:
                rec.mark_full()
            stats["steps_npoints_differs_from_len_extra_data"] += ts["npoints"] != len(keys)
            o = {"extra": [(W.enc_point(kind, k), float(make_picker(pname)(v)), tag_of(pname, v)) for k, v in ds.extra_data.items()],
                 "npoints": st["npoints"], "pend": st["pend"], "data": st["data"] if full else None,
                 "loss_r": st["loss_r"], "loss_e": st["loss_e"]}
            if full:
                bad = delegation_scan(ds)
                for name in dir(twin):          # the bare twin is read the same way (lazy attributes)
                    if not name.startswith("_") and name not in OWN_NAMES:
                        _get(twin, name)
                if bad:
                    errors.append(("C18:delegation", f"after {op[0]}: attribute(s) of the wrapped learner differ when read through "
                                                     f"the DataSaver: {bad[:3]}"))
        steps.append((op, out, o, st, tout, ts))

    def new_point(source, shuffle=True):
        """A point for a tell: (point, is_again) or None."""
        if source == "outstanding" and outstanding:
            return outstanding.pop(rng.randrange(len(outstanding)) if shuffle else 0), False
        if source == "unsolicited" and kind in FREE_KINDS:
            if kind == "l1d":
                return round(rng.uniform(*child.bounds), 3), False
            if kind == "seq":
                i = rng.randrange(len(child.sequence))
                return (i, child.sequence[i]), False
            if kind == "l2d":
                return tuple(round(rng.uniform(*b), 3) for b in child.bounds), False
            if kind == "avg1d":
                xs = list(child.data)
                x = rng.choice(xs) if xs and rng.random() < 0.5 else round(rng.uniform(*child.bounds), 3)
                return (rng.randrange(6), x), False
            return int(child.npoints + len(child.pending_points) + rng.randrange(4)), False
        if source == "again" and told_keys and kind in FREE_KINDS:
            return rng.choice(told_keys), True
        return None

    if concrete is not None:
        for op in concrete:
            do(tuple(op))
            if stop:
                break
    else:
        if kind == "avg" and not spec.get("prefill"):          # F11: AverageLearner.ask / loss(real=False) divide by npoints = 0
            tag[0] += 1
            told_keys.append(0)
            do(("tell", [0.0], W.evaluate(kind, child, 0), tag[0]))
        for j, a in enumerate(hist):
            full = rng.random() < 0.3 or j == len(hist) - 1
            k = a[0]
            if k == "ask":
                # LearnerND.ask(0) raises ValueError, AverageLearner.ask(0) ZeroDivisionError (quirks of the
                # children, the same with and without the wrapper): keep only a few
                do(("ask", max(a[1], 1) if kind in ("lnd", "avg", "avg1d") and rng.random() < 0.9 else a[1], a[2],
                    rng.choice(SPELLINGS)), full)
            elif k == "tell":
                got = new_point(a[1], a[2])
                if got is not None:
                    p, again = got
                    tag[0] += 1
                    y = W.evaluate(kind, child, p) + (1.0 if again else 0.0)
                    told_keys.append(p)
                    do(("tell", W.enc_point(kind, p), y, tag[0]), full)
            elif k == "tell_many":
                items, seen_hp = [], set()
                for _ in range(a[1]):
                    got = new_point(rng.choice(["outstanding", "outstanding", "unsolicited", "again"]))
                    if got is None:
                        continue
                    p, again = got
                    hp = W.hashable(kind, p)
                    if hp in seen_hp and (kind not in ("l1d", "avg") or rng.random() < 0.8):
                        continue            # mostly distinct points inside one batch
                    seen_hp.add(hp)
                    tag[0] += 1
                    y = W.evaluate(kind, child, p) + (1.0 if again else 0.0)
                    told_keys.append(p)
                    items.append([W.enc_point(kind, p), y, tag[0]])
                do(("tell_many", items, a[2], a[3], rng.choice(["pos", "kw"])), full)
            elif k == "tell_pending_told":
                # a point whose result has already arrived is announced as pending (again): tolerated by
                # Learner1D (no-op), AverageLearner and SequenceLearner (marked pending)
                if kind in FREE_KINDS and told_keys:
                    do(("tell_pending", W.enc_point(kind, rng.choice(told_keys)), rng.choice(["pos", "kw"])), full)
            elif k == "tell_pending" and kind in FREE_KINDS:
                p = new_point("unsolicited")[0]
                hp = W.hashable(kind, p)
                if hp not in set(told_map(kind, child)) | {W.hashable(kind, q) for q in child.pending_points}:
                    do(("tell_pending", W.enc_point(kind, p), rng.choice(["pos", "kw"])), full)
            elif k == "loss":
                do(("loss", a[1], rng.choice(SPELLINGS)), full)
            elif k == "tell_bad":
                # a result the partial picker rejects (the point stays outstanding); with the identity picker: a result
                # / a point the wrapped learner itself rejects
                tag[0] += 1
                if pname != "identity":
                    src = rng.choice(["outstanding", "unsolicited", "again"])
                    got = new_point(src)
                    if got is not None:
                        if src == "outstanding":
                            outstanding.append(got[0])
                        do(("tell_bad", W.enc_point(kind, got[0]), rng.choice(BAD_KINDS), tag[0]), full)
                elif kind in ("l1d", "avg1d"):
                    src = rng.choice(["outstanding", "unsolicited"])
                    got = new_point(src)
                    if got is not None:
                        if src == "outstanding":
                            outstanding.append(got[0])
                        do(("tell_bad", W.enc_point(kind, got[0]), "none", tag[0]), full)
                elif kind == "int":
                    do(("tell", [0.37109375], 0.5, tag[0]), full)      # not a node of any interval
            elif k == "remove_unfinished" and kind != "lnd":       # F5
                do(("remove_unfinished",), full)
            elif k == "save":
                do(("save", rng.randrange(3)), full)
            elif k == "restore":
                cands = sorted(slots, key=str)
                if cands:
                    slot = rng.choice(cands)
                    how = rng.choice(RESTORE_HOWS)
                    if slot == "donor" and spec.get("copy_live") and rng.random() < 0.6:
                        how = rng.choice(LIVE_HOWS)
                    do(("restore", slot, how), True)
                    if how in LIVE_HOWS:
                        live_copied[0] = True
            elif k == "restore_live":
                if "donor" in slots:
                    do(("restore", "donor", rng.choice(LIVE_HOWS)), True)
                    live_copied[0] = True
            elif k == "donor_step":
                if live_copied[0]:
                    tag[0] += 1
                    do(("donor_step", tag[0]), full)
            elif k == "inner_tell":
                got = new_point(rng.choice(["outstanding", "unsolicited"]))
                if got is not None:
                    do(("inner_tell", W.enc_point(kind, got[0]), W.evaluate(kind, child, got[0])), full)
            elif k == "inner_load":
                if kind == "avg1d" and rng.random() < 0.5 and child.data:
                    x = rng.choice(list(child.data))
                    sds = rng.sample(range(8), rng.randint(1, 3))
                    do(("inner_tmap", x, [[sd, W.evaluate(kind, child, (sd, x))] for sd in sds]), full)
                elif slots:
                    do(("inner_load", rng.choice(sorted(slots, key=str))), full)
            if stop:
                break
    if rec is not None:
        rec.unwrap()
    if donor is not None and spec.get("copy_live"):
        # the other run was not touched by this one: it still holds exactly its own results
        dk = [W.hashable(kind, q) for q in donor["ds"].extra_data]
        if dk != donor["key_order"]:
            errors.append(("C18:copy_from_shares_extra_data",
                           f"the DataSaver this one copied from now has extra_data keys {dk[:6]}, it was told {donor['key_order'][:6]} "
                           f"(its wrapped learner knows {sorted(told_map(kind, donor['ds'].learner))[:6]})"))
    return {"steps": steps, "rec": rec, "ds": ds, "twin": twin, "errors": errors, "stop": stop, "child": child,
            "retell_at": retell_at[0], "drop_at": drop_at[0], "expected_extra": expected_extra, "key_order": key_order,
            "excused": excused, "loaded_extra": loaded_extra, "stats": stats, "tainted": tainted[0]}


def twin_check(spec, res):
    """Compare the run of the DataSaver with the lock-step run of the bare learner fed the picked values."""
    errs = []
    for j, (op, out, o, st, tout, ts) in enumerate(res["steps"]):
        if out[0] != tout[0]:
            errs.append(("C18:twin_outcome", f"step {j} {op[0]}: wrapped -> {out[:2]}, bare learner -> {tout[:2]}"))
            break
        if out[0] == "exc":
            if out[1] != tout[1]:
                errs.append(("C18:twin_outcome", f"step {j} {op[0]}: wrapped raised {out[1]}, bare learner raised {tout[1]}"))
            break
        if out[0] == "rejected" and out[1] != tout[1]:
            errs.append(("C18:twin_outcome", f"step {j} {op[0]}: the DataSaver raised {out[1]}, the picker raises {tout[1]}"))
            break
        if out[0] == "ask" and (out[1] != tout[1] or not all(feq(a, b) for a, b in zip(out[2], tout[2])) or len(out[2]) != len(tout[2])):
            errs.append(("C18:twin_ask", f"step {j}: ask({op[1]}) wrapped -> {out[1][:4]} {out[2][:4]}, bare -> {tout[1][:4]} {tout[2][:4]}"))
            break
        if out[0] == "donor" and out[1] != tout[1]:
            errs.append(("C18:twin_ask", f"step {j}: the other run asks for {out[1]} wrapped, {tout[1]} bare"))
            break
        if out[0] == "loss" and not feq(out[1], tout[1]):
            errs.append(("C18:twin_loss", f"step {j}: loss(real={op[1]}) wrapped {out[1]} != bare {tout[1]}"))
            break
        for key, sig in (("data", "C18:twin_data"), ("pend", "C18:twin_pending"), ("npoints", "C18:twin_npoints")):
            if st[key] != ts[key]:
                errs.append((sig, f"step {j} after {op[0]}: {key} wrapped {str(st[key])[:80]} != bare {str(ts[key])[:80]}"))
        if not feq(st["loss_r"], ts["loss_r"]) or not feq(st["loss_e"], ts["loss_e"]):
            errs.append(("C18:twin_loss", f"step {j} after {op[0]}: loss wrapped ({st['loss_r']},{st['loss_e']}) != bare ({ts['loss_r']},{ts['loss_e']})"))
        for name, v in st["attrs"].items():
            if v != ts["attrs"][name]:
                errs.append(("C18:twin_attribute", f"step {j} after {op[0]}: {name} wrapped {str(v)[:80]} != bare {str(ts['attrs'][name])[:80]}"))
        if errs:
            break
    return errs, res["twin"]


def persistence_check(spec, res, workdir, k):
    """extra_data (and the child's data) across save/load, pickling and _get_data/_set_data."""
    import cloudpickle
    from adaptive import DataSaver
    kind, pname = spec["kind"], spec["picker"]
    ds = res["ds"]
    errs = []
    want_extra = list(ds.extra_data.items())
    want_data = W.child_data(kind, ds)

    twin = res["twin"]

    def same(ds2, how, ref=None):
        if list(ds2.extra_data.items()) != want_extra:
            errs.append(("C18:persist_extra_data", f"extra_data differs after {how}"))
        # AverageLearner1D recomputes its means when it loads (another order of additions): the reference is
        # the bare twin put through the same round trip
        if W.child_data(kind, ds2) != (want_data if ref is None or kind != "avg1d" else W.child_data(kind, ref)):
            errs.append(("C18:persist_data", f"data differs after {how}"))
        if ref is not None and (W.child_data(kind, ds2) != W.child_data(kind, ref) or int(ds2.npoints) != int(ref.npoints)
                                or W.child_pending(kind, ds2) != W.child_pending(kind, ref)
                                or obs_loss(ds2, True) != obs_loss(ref, True) or obs_loss(ds2, False) != obs_loss(ref, False)):
            errs.append(("C18:persist_twin", f"after {how} the DataSaver differs from the bare learner put through the same round trip"))
        for x, r in want_extra[:5]:
            if ds2.extra_data[x] != r:
                errs.append(("C18:persist_extra_data", f"extra_data[{x!r}] not retrievable after {how}"))

    def fresh():
        return DataSaver(W.make_child(kind, spec.get("koff", 0), spec.get("size", 40)), arg_picker=make_picker(pname))
    try:
        fname = os.path.join(workdir, f"ds_{k % 8}.pickle")
        ds.save(fname)
        twin.save(fname + ".twin")
        ds2, ref2 = fresh(), fresh().learner
        ds2.load(fname)
        ref2.load(fname + ".twin")
        same(ds2, "save/load", ref2)
        ds3, ref3 = fresh(), fresh().learner
        ds3._set_data(copy.deepcopy(ds._get_data()) if kind != "int" else ds._get_data())
        ref3._set_data(copy.deepcopy(twin._get_data()) if kind != "int" else twin._get_data())
        same(ds3, "_set_data(_get_data())", ref3)
        if kind != "int":
            real_picker = ds.arg_picker
            ds.arg_picker = getattr(real_picker, "f", real_picker)          # the counting wrapper is harness-side
            try:
                blob = pickle.dumps(ds) if pname == "itemgetter" and kind not in ("lnd", "l2d", "avg1d") else cloudpickle.dumps(ds)
                same(pickle.loads(blob), "pickle", pickle.loads(cloudpickle.dumps(twin)))
            finally:
                ds.arg_picker = real_picker
    except Exception as e:
        errs.append(("C18:persist_exception", f"{type(e).__name__}: {e}"))
    return errs


# ----------------------------------------------------------------------
def op_term(op):
    k = op[0]
    if k == "restore":                  # op[3]: the extra_data of the state that is loaded
        return C.app("XSetData", C.lst(C.pair(W.pt_term(p), C.pair(C.flt(y), C.Z(t))) for p, y, t in op[3]))
    if k == "inner_tell":
        return C.app("XInner", C.app("CTell", W.pt_term(op[1]), C.flt(op[2])))
    if k == "inner_load":
        return "(XInner CSetData)"
    if k == "ask":
        t = C.app("@Ask OL R", C.nat(op[1]), C.bool_(op[2]))
    elif k == "tell":
        t = C.app("@Tell OL R", W.pt_term(op[1]), C.pair(C.flt(op[2]), C.Z(op[3])))
    elif k == "tell_many":
        t = C.app("@TellMany OL R", C.lst(C.pair(W.pt_term(it[0]), C.pair(C.flt(it[1]), C.Z(it[2]))) for it in op[1]))
    elif k == "tell_pending":
        t = C.app("@TellPending OL R", W.pt_term(op[1]))
    elif k == "loss":
        t = C.app("@Loss OL R", C.bool_(op[1]))
    else:
        t = "(@RemoveUnfinished OL R)"
    return C.app("XOp", t)


def out_term(o):
    if o[0] == "ask":
        return C.app("@LOAsk OL", C.lst(W.pt_term(p) for p in o[1]), C.lst(C.flt(v) for v in o[2]))
    if o[0] == "loss":
        return C.app("@LOLoss OL", C.flt(o[1]))
    return "(@LONone OL)"


def obs_term(o):
    return C.app("mkobs",
                 C.lst(C.pair(W.pt_term(p), C.pair(C.flt(y), C.Z(t))) for p, y, t in o["extra"]),
                 C.nat(o["npoints"]), C.lst(W.pt_term(p) for p in o["pend"]),
                 C.opt(o["data"], lambda d: C.lst(C.pair(W.pt_term(p), C.flt(v)) for p, v in d)),
                 C.flt(o["loss_r"]), C.flt(o["loss_e"]), "false")


def coq_ops(spec, res, steps):
    """Ops as the model sees them: the Tell carries (picked value, tag); a load carries the loaded extra_data;
    writing a checkpoint is not a state change."""
    pk = make_picker(spec["picker"])
    out = []
    for j, (op, o, ob, _, _, _) in enumerate(steps):
        if o[0] == "exc":
            break
        if ob is None:
            break                      # extra_data was malformed here (reported by the oracle)
        if op[0] in ("inner_tmap", "donor_step"):
            break                      # tell_many_at_point on the wrapped learner: not a call the oracle child records;
                                       # the other run goes on: it may share objects with the wrapped learner (copy_from)
        if op[0] == "save" or (op[0] == "tell_bad" and o[0] == "rejected"):
            continue                   # nothing happens to the saver (the model's picker is total)
        if op[0] == "tell":
            r = make_result(spec["picker"], op[2], op[3])
            op = ("tell", op[1], float(pk(r)), tag_of(spec["picker"], r))
        elif op[0] == "tell_many":
            rs = [make_result(spec["picker"], it[1], it[2]) for it in op[1]]
            op = ("tell_many", [[it[0], float(pk(r)), tag_of(spec["picker"], r)] for it, r in zip(op[1], rs)])
        elif op[0] == "restore":
            op = tuple(op) + (res["loaded_extra"][j],)
        out.append((op, o, ob))
    return out


def case_term(spec, res, overwrites=True):
    steps = res["steps"]
    if not overwrites and res.get("retell_at") is not None:
        steps = steps[:res["retell_at"]]          # a repaired F20: the model (code as it was) is not compared from here on
    if res.get("drop_at") is not None:
        steps = steps[:res["drop_at"]]            # results dropped by a load (reported by the oracle): likewise
    return C.pair(W.child_term(res["rec"]),
                  C.lst((C.tup(op_term(op), out_term(o), C.opt(ob, obs_term)) for op, o, ob in coq_ops(spec, res, steps)),
                        sep=";\n  "))


def nontrivial(steps):
    retold = ooo = pend = False
    told, asked = set(), []
    for op, out, o, _, _, _ in steps:
        if op[0] == "ask" and out[0] == "ask" and op[2]:
            asked += [tuple(p) for p in out[1]]
        elif op[0] in ("tell", "tell_many"):
            for key in ([tuple(op[1])] if op[0] == "tell" else [tuple(it[0]) for it in op[1]]):
                retold |= key in told
                told.add(key)
                if key in asked:
                    ooo |= asked.index(key) != 0
                    asked.remove(key)
        elif op[0] in ("tell_pending", "remove_unfinished"):
            pend = True
    return ooo and (retold or pend)


def run(chk: Check) -> int:
    chk.prove(["theories/Props/C18.vo", "theories/Run/DataSaverRun.vo"], THEOREMS)
    overwrites = probe_retell_overwrites()
    chk.log(f"probe: DataSaver.tell of a known point {'replaces' if overwrites else 'keeps'} extra_data (C10:F20)")
    ncases = 600 if chk.quick else 4000
    maxlen = 26 if chk.quick else 60
    cases, metas = [], []
    hist_ops, kinds, stops, sizes = {}, {}, {}, {}
    seen = set()
    persisted = 0
    _WORK[0] = str(chk.work)
    pstats = {}

    def report(spec, ops, errs):
        for sig, msg in errs:
            if sig not in seen:
                seen.add(sig)
                chk.fail(sig, f"DataSaver({spec['kind']}, picker={spec['picker']}): {msg}", {"spec": spec, "ops": ops})

    def add(spec, res, origin, k):
        nonlocal persisted
        steps = res["steps"]
        ops = [list(s[0]) for s in steps]
        cases.append(case_term(spec, res, overwrites))
        metas.append({"spec": spec, "ops": ops, "origin": origin})
        chk.note_case((spec["kind"], spec["picker"], ops), nontrivial(steps))
        for s in steps:
            hist_ops[s[0][0]] = hist_ops.get(s[0][0], 0) + 1
        kk = f"{spec['kind']}/{spec['picker']}"
        kinds[kk] = kinds.get(kk, 0) + 1
        bkt = f"len<={10 * (len(steps) // 10 + 1)}"
        sizes[bkt] = sizes.get(bkt, 0) + 1
        if res["stop"]:
            stops[res["stop"]] = stops.get(res["stop"], 0) + 1
        for key, v in res["stats"].items():
            pstats[key] = pstats.get(key, 0) + int(v)
        pstats["cases_wrapped_learner_held_data_before"] = pstats.get("cases_wrapped_learner_held_data_before", 0) + bool(spec.get("prefill"))
        pstats["cases_with_another_run"] = pstats.get("cases_with_another_run", 0) + bool(spec.get("donor"))
        if len(steps) > 6:
            chk.sample({"child": spec["kind"], "picker": spec["picker"], "ops": ops[:10]})
        errs = list(res["errors"])
        terrs, _ = twin_check(spec, res)
        errs += terrs
        if not res["stop"]:
            errs += persistence_check(spec, res, str(chk.work), k)
            persisted += 1
        report(spec, ops, errs)

    totals = {"cases": 0, "mism": 0, "legal": 0}

    def flush(tag):
        if not cases:
            return
        mism, legal, errors = chk.coq_cases(tag, PREAMBLE, "case", cases, "check", "is_legal",
                                            shard=min(250, max(8, len(cases) // 16 + 1)))
        for e in errors:
            chk.broke("correspondence", "Model/DataSaver.v cases could not be evaluated", e)
        for c, s in mism[:5]:
            m = metas[c]
            chk.broke("correspondence", f"Model/DataSaver.v vs DataSaver: case {m['origin']} step {s}",
                      {"spec": m["spec"], "ops": m["ops"][:s + 1]})
        totals["cases"] += len(cases)
        totals["mism"] += len(mism)
        totals["legal"] += legal
        for f in chk.work.glob(tag + "_*.v"):
            f.unlink()
        cases.clear()
        metas.clear()

    corpus = sorted((chk.work.parents[1] / "corpus" / "C18").glob("*.json"))
    for j, f in enumerate(corpus):
        d = json.loads(f.read_text())
        add(d["spec"], drive(d["spec"], concrete=d["ops"], overwrites=overwrites), "corpus/" + f.name, j)
    for k in range(ncases):
        rng = chk.rng("case", k)
        kind = KINDS[k % len(KINDS)] if k < 21 else rng.choice(KINDS)
        spec = {"kind": kind, "picker": PICKERS[(k // len(KINDS)) % 3] if k < 21 else rng.choice(PICKERS),
                "npseed": rng.randrange(10 ** 6), "koff": rng.randrange(8), "size": rng.choice([4, 12, 40])}
        ml = maxlen if kind not in ("lnd", "int", "l2d") else min(maxlen, 20)
        if rng.random() < 0.3:           # the learner already holds data when it is wrapped
            spec["prefill"] = rng.randint(1, 6)
        if rng.random() < 0.35:          # another run of the same learner, to be loaded / copied into this one
            dspec = dict(spec, npseed=rng.randrange(10 ** 6), prefill=rng.choice([0, 0, 3]))
            dres = drive(dspec, gen_history(rng, kind, min(ml, 14), persist=False), rng, record=False, overwrites=overwrites,
                         is_donor=True)
            spec["donor"] = {"npseed": dspec["npseed"], "prefill": dspec["prefill"], "ops": [list(st[0]) for st in dres["steps"]]}
            if COPY_LIVE and rng.random() < 0.5:
                spec["copy_live"] = True
        hist = gen_history(rng, kind, ml)
        if spec.get("copy_live"):        # ... copied in memory while it goes on living and being told
            at = rng.randrange(len(hist) + 1)
            hist.insert(at, ("restore_live",))
            for _ in range(rng.randint(1, 3)):
                hist.insert(rng.randint(at + 1, len(hist)), ("donor_step",))
        res = drive(spec, hist, rng, overwrites=overwrites)
        add(spec, res, f"seed{chk.seed}/{k}", k)
        if len(cases) >= 1500:
            flush(f"cases{k}")
    flush("cases")
    exhaustive = 0
    if not chk.quick:
        # every op word of length <= 4 over a 9-letter alphabet after a warm-up, Learner1D and AverageLearner, each picker
        import itertools
        alphabet = [("ask", 1, True), ("ask", 2, False), ("tell", "outstanding", False), ("tell_many", 2, "gen", "map"),
                    ("tell", "again", True), ("tell_pending",), ("tell_pending_told",), ("loss", False), ("remove_unfinished",)]
        warm = [("ask", 3, True), ("tell", "outstanding", False)]
        for kind in ("l1d", "avg"):
            for pname in PICKERS:
                for L in range(1, 5):
                    for word in itertools.product(alphabet, repeat=L):
                        spec = {"kind": kind, "picker": pname, "npseed": 1, "koff": 1, "size": 40}
                        res = drive(spec, warm + list(word), random.Random(exhaustive), overwrites=overwrites)
                        add(spec, res, f"exhaustive/{kind}/{pname}/{exhaustive}", exhaustive)
                        exhaustive += 1
                flush(f"exh_{kind}_{pname}")
        # every word of length <= 4 of tells, checkpoints, loads and inner tells, every wrapped learner type
        alphabet2 = [("ask", 1, True), ("tell", "outstanding", False), ("tell", "unsolicited", False), ("save",), ("restore",),
                     ("inner_tell",)]
        for kind in KINDS:
            for L in range(1, 5):
                for word in itertools.product(alphabet2, repeat=L):
                    if ("restore",) not in word or ("save",) not in word:
                        continue
                    spec = {"kind": kind, "picker": "itemgetter", "npseed": 1, "koff": 1, "size": 40, "prefill": exhaustive % 2}
                    res = drive(spec, warm + list(word), random.Random(exhaustive), overwrites=overwrites)
                    add(spec, res, f"exhaustive2/{kind}/{exhaustive}", exhaustive)
                    exhaustive += 1
            flush(f"exh2_{kind}")
    chk.extra.update({"op_histogram": hist_ops, "child_picker_histogram": kinds, "length_histogram": sizes,
                      "histories_stopped": stops, "persistence_round_trips": persisted,
                      "legal_histories_per_coq": totals["legal"], "cases_compared_in_coq": totals["cases"],
                      "persistence_into_holding_savers": pstats,
                      "mismatches": totals["mism"], "exhaustive_small_scope_cases": exhaustive, "retell_replaces_extra_data": overwrites, "exhaustive": False})
    chk.log(f"correspondence: {totals['cases']} cases, {totals['mism']} mismatches, {totals['legal']} legal; oracle signatures {sorted(seen)}")
    return chk.finish(
        rule="histories generated by driving the real DataSaver over Learner1D / Learner2D / LearnerND / SequenceLearner / "
             "AverageLearner / AverageLearner1D / IntegratorLearner (30 % of them already holding data when wrapped) with three pickers (operator.itemgetter, a lambda on dict results, identity): asks (committing and not), "
             "out-of-order, unsolicited and repeated tells of full results, tell_many batches of 0-5 (lists, tuples and one-shot iterables: "
             "generator, map, zip-derived, iter; mixed new/known points), tell_pending of new and of already told points, loss(real) -- every delegated method with positional, keyword and "
             "defaulted spellings of its parameters, the same on wrapper and twin --, results the partial pickers reject (missing key, "
             "wrong type, None: the saver must raise and stay as it was, the twin is told nothing) and tells the wrapped learner "
             "itself rejects, "
             "remove_unfinished, checkpoints (save) and load / _set_data / copy_from of an earlier checkpoint or of another run INTO "
             "the saver as it is, tells and loads on the wrapped learner behind the saver's back; each history is "
             "run in lock-step on the bare learner fed the picked values (twin; every public observable compared after every "
             "operation) and ends with save/load, pickle and _get_data/_set_data round "
             "trips; non-trivial = an out-of-order tell and (a point told twice or pending points marked/discarded); distinct by "
             "(child, picker, op list)",
        assumptions=["hand-written model Model/DataSaver.v tied to the code by the sampled correspondence only",
                     "what a DataSaver has to keep after a load into a saver that holds other points depends on the wrapped "
                     "learner's own _set_data (probed on the bare learner: Learner1D / SequenceLearner / AverageLearner1D add the "
                     "loaded points, Learner2D / LearnerND / AverageLearner / IntegratorLearner replace their data); for the "
                     "adding learners the code drops results of points the learner keeps (listed finding "
                     "C18:load_drops_told_result) and the model comparison stops at such a load",
                     "a wrapped learner that cannot be observed after a load (Learner2D: loss() raises when its stack lost the "
                     "corner points) ends the history; it must fail the same way with and without the wrapper",
                     "the wrapped learner enters the model run as a recorded oracle table (Run/OracleChild.v)",
                     "C18_extra_data assumes == on points is an equivalence relation (PointLaws)",
                     "IntegratorLearner.tell_pending takes no argument, so DataSaver.tell_pending is not exercised over it; "
                     "LearnerND gets no remove_unfinished (F5) and no unsolicited points (F12)"])


def replay(doc) -> int:
    bad = 0
    items = doc.get("failing_inputs", []) + [b for b in doc.get("no_longer_checks", []) if isinstance(b.get("detail"), dict)]
    for f in items:
        r = f.get("replay") or f.get("detail")
        res = drive(r["spec"], concrete=r["ops"], overwrites=probe_retell_overwrites())
        errs = res["errors"] + twin_check(r["spec"], res)[0]
        print("replayed", r["spec"], len(res["steps"]), "ops ->", errs[:3] or "oracle silent")
        bad += bool(errs)
    return 1 if bad else 0
