"""C18 -- DataSaver is transparent: the wrapped learner behaves as if unwrapped.

proof          : coq/theories/Props/C18.v (model Model/DataSaver.v over Model/GenericLearner.v)
correspondence : seeded histories on the real DataSaver over a real child whose calls are recorded
                 (Run/OracleChild.v) vs the model (vm_compute in Coq)
search         : from-scratch twin oracle: the same history on the bare learner fed the picked values;
                 extra_data keys/values; picker called exactly once per tell; save/load, pickle,
                 _get_data/_set_data round trips
"""
from __future__ import annotations

import json
import math
import operator
import os
import pickle
import random

import numpy as np

from .. import coqio as C
from .. import impl_wrappers as W
from ..core import Check

THEOREMS = {n: "Props.C18" for n in ["C18_bisimulation", "C18_bisimulation_obs", "C18_tell_many_is_tells", "C18_extra_data",
                                          "C18_roundtrip"]}

PREAMBLE = """From Coq Require Import ZArith PrimFloat List. Import ListNotations.
From AV Require Import Base.Prelude Base.FloatUtil Model.GenericLearner Model.DataSaver Run.OracleChild Run.DataSaverRun.
Open Scope nat_scope."""

KINDS = ["l1d", "lnd", "seq", "avg", "int"]
PICKERS = ["itemgetter", "lambda_dict", "identity"]


def make_picker(name):
    if name == "itemgetter":
        return operator.itemgetter("y")
    if name == "lambda_dict":
        return lambda r: r["y"]
    return lambda r: r


def make_result(name, y, tag):
    """The full result of one evaluation."""
    if name == "identity":
        return float(y)
    return {"y": float(y), "tag": int(tag), "note": f"run{tag}"}


def tag_of(name, r):
    return 0 if name == "identity" else int(r["tag"])


def probe_retell_overwrites():
    """Does DataSaver.tell of an already known point replace extra_data (the code as it is; C10 lists this
    as finding F20 because Learner1D keeps the FIRST value)?  If a later repair keeps the first result
    instead, the oracle follows it and the model comparison stops at the first such re-tell (DESIGN 4.7)."""
    from adaptive import DataSaver, Learner1D
    try:
        ds = DataSaver(Learner1D(lambda x: x, (-1.0, 1.0)), arg_picker=operator.itemgetter("y"))
        first, second = {"y": 1.0, "tag": 1}, {"y": 2.0, "tag": 2}
        ds.tell(0.0, first)
        ds.tell(0.0, second)
        return ds.extra_data[0.0] != first        # only "keeps exactly the first result" counts as repaired
    except Exception:
        return True


class CountingPicker:
    def __init__(self, f):
        self.f, self.calls = f, []

    def __call__(self, r):
        self.calls.append(r)
        return self.f(r)


def safe_loss(l, real):
    try:
        return float(l.loss(real=real))
    except ZeroDivisionError:
        return float("nan")


def feq(a, b):
    return a == b or (math.isnan(a) and math.isnan(b))


def public_state(kind, l):
    """What C18 observes of a learner (wrapped or bare)."""
    return {"npoints": int(l.npoints), "pend": W.child_pending(kind, l), "data": W.child_data(kind, l),
            "loss_r": safe_loss(l, True), "loss_e": safe_loss(l, False)}


def dec_point(kind, child, enc):
    if kind in ("l1d", "int"):
        return float(enc[0])
    if kind == "avg":
        return int(enc[0])
    if kind == "seq":
        i = int(enc[0])
        return (i, child.sequence[i])
    return tuple(float(c) for c in enc)


def gen_history(rng, kind, maxlen):
    h = []
    for _ in range(rng.randint(3, maxlen)):
        r = rng.random()
        if r < 0.30:
            h.append(("ask", rng.choice([1, 1, 2, 3, 5, 0]), rng.random() < 0.85))
        elif r < 0.62:
            h.append(("tell", rng.choice(["outstanding", "outstanding", "outstanding", "unsolicited", "again"]), rng.random() < 0.7))
        elif r < 0.70:
            h.append(("tell_pending",))
        elif r < 0.74:
            h.append(("tell_pending_told",))
        elif r < 0.82:
            h.append(("tell_many", rng.choice([0, 1, 2, 2, 3, 4, 5]), rng.choice(ITER_MODES), rng.choice(ITER_MODES)))
        elif r < 0.92:
            h.append(("loss", rng.random() < 0.5))
        else:
            h.append(("remove_unfinished",))
    return h


ITER_MODES = ["list", "tuple", "gen", "map", "zip", "iter"]


def one_shot(items, mode, other):
    """`items` as the given kind of iterable; all but list/tuple can be consumed only once."""
    if mode == "list":
        return list(items)
    if mode == "tuple":
        return tuple(items)
    if mode == "gen":
        return (v for v in items)
    if mode == "map":
        return map(lambda v: v, items)
    if mode == "zip":                   # derived from a zip of both arguments
        return map(operator.itemgetter(0), zip(list(items), list(other) + [None] * len(items)))
    return iter(list(items))


def apply_op(kind, l, op, wrapped, picker_name):
    """One concrete op on a learner; returns ("ask", pts, imps) / ("loss", v) / ("none",) / ("exc", type)."""
    try:
        if op[0] == "ask":
            pts, imps = l.ask(op[1], tell_pending=op[2])
            return ("ask", [W.enc_point(kind, p) for p in pts], [float(v) for v in imps], list(pts))
        if op[0] == "tell":
            child = l.learner if wrapped else l
            p = dec_point(kind, child, op[1])
            r = make_result(picker_name, op[2], op[3])
            l.tell(p, r if wrapped else make_picker(picker_name)(r))
            return ("none",)
        if op[0] == "tell_many":
            child = l.learner if wrapped else l
            xs = [dec_point(kind, child, it[0]) for it in op[1]]
            rs = [make_result(picker_name, it[1], it[2]) for it in op[1]]
            if wrapped:
                l.tell_many(one_shot(xs, op[2], rs), one_shot(rs, op[3], xs))
            else:                       # the bare learner fed the picked values, one by one
                pk = make_picker(picker_name)
                for p, r in zip(xs, rs):
                    l.tell(p, pk(r))
            return ("none",)
        if op[0] == "tell_pending":
            child = l.learner if wrapped else l
            l.tell_pending(dec_point(kind, child, op[1]))
            return ("none",)
        if op[0] == "loss":
            return ("loss", float(l.loss(real=op[1])))
        l.remove_unfinished()
        return ("none",)
    except Exception as e:        # compared between the twins
        return ("exc", type(e).__name__)


def drive(spec, hist=None, rng=None, concrete=None, record=True, overwrites=True):
    """Run DataSaver(child) on a history.  Returns dict(steps, rec, ds, picker, errors)."""
    from adaptive import DataSaver
    kind, pname = spec["kind"], spec["picker"]
    np.random.seed(spec.get("npseed", 1))
    random.seed(spec.get("npseed", 1))
    child = W.make_child(kind, spec.get("koff", 0), spec.get("size", 40))
    rec = W.Recorder(kind, child, 0) if record else None
    picker = CountingPicker(make_picker(pname))
    ds = DataSaver(child, arg_picker=picker)
    steps, errors, outstanding, told_keys = [], [], [], []
    expected_extra = {}        # hashable point -> last full result (from scratch)
    key_order = []
    tag = [100]
    stop = None

    retell_at = [None]       # index of the first re-tell the child ignored (F20 trigger), if any

    def items_of(op):
        if op[0] == "tell":
            return [(op[1], op[2], op[3])]
        if op[0] == "tell_many":
            return [tuple(it) for it in op[1]]
        return []

    def do(op, full=True):
        nonlocal stop
        try:
            _do(op, full)
        except Exception as e:          # the implementation left a state the harness cannot even observe
            errors.append(("C18:unobservable_state", f"{type(e).__name__}: {e} while observing the DataSaver after {op[0]}"))
            stop = "unobservable"

    def _do(op, full):
        nonlocal stop
        ncalls = len(picker.calls)
        items = items_of(op)
        cur = {W.hashable(kind, q): v for q, v in child.data.items()} if items else {}
        out = apply_op(kind, ds, op, True, pname)
        if items:
            results = [make_result(pname, y, t) for _, y, t in items]
            if out[0] == "none":
                final = {W.hashable(kind, q): v for q, v in child.data.items()}
                for (enc, y, t), r in zip(items, results):
                    hp = W.hashable(kind, dec_point(kind, child, enc))
                    before = cur.get(hp)
                    unchanged = before is not None and final.get(hp) == before
                    differs = float(make_picker(pname)(r)) != float(before) if before is not None else True
                    if unchanged and retell_at[0] is None:
                        retell_at[0] = len(steps)
                    if hp not in expected_extra:
                        key_order.append(hp)
                        expected_extra[hp] = [r]
                    elif overwrites or not unchanged:
                        expected_extra[hp] = [r]
                    elif not differs:
                        expected_extra[hp] = expected_extra[hp] + [r]     # repaired F20, same value: either result is fine
                    cur[hp] = final.get(hp)
                got = picker.calls[ncalls:]
                if len(got) != len(results) or any(a != b for a, b in zip(got, results)):
                    errors.append(("C18:picker_once", f"{op[0]} of {len(results)} result(s) called the picker {len(got)} times "
                                                      f"(arguments {got[:3]!r}, results {results[:3]!r})"))
        elif len(picker.calls) != ncalls:
            errors.append(("C18:picker_once", f"{op[0]} called the picker"))
        if out[0] == "ask" and op[2]:
            outstanding.extend(out[3])
        if op[0] == "remove_unfinished":
            outstanding.clear()
        # extra_data against the from-scratch expectation
        extra_ok = False
        try:
            keys = [W.hashable(kind, k) for k in ds.extra_data.keys()]
        except Exception:
            keys = list(ds.extra_data.keys())
        lost = [hp for hp in key_order if hp not in keys]
        if lost and out[0] != "exc":
            errors.append(("C18:told_result_lost", f"after {op[0]} the full result of told point(s) {lost[:4]} is no longer "
                                                   f"retrievable from extra_data (keys {keys[:6]})"))
        elif keys != key_order and out[0] != "exc":
            errors.append(("C18:extra_data_keys", f"extra_data keys {keys[:6]} != told points {key_order[:6]}"))
        elif out[0] != "exc" and any(ds.extra_data[k] not in expected_extra[W.hashable(kind, k)] for k in ds.extra_data):
            errors.append(("C18:extra_data_values", "extra_data value is not the last full result told for the point"))
        else:
            extra_ok = True
        o = st = None
        if out[0] == "exc":
            stop = "exception:" + out[1]
        elif not extra_ok:
            stop = "extra_data-wrong"          # reported above; the model comparison needs well-formed extra_data
            st = public_state(kind, ds)        # the twin comparison still runs on this step
        else:
            if rec is not None and full:
                rec.mark_full()
            st = public_state(kind, ds)
            o = {"extra": [(W.enc_point(kind, k), float(make_picker(pname)(v)), tag_of(pname, v)) for k, v in ds.extra_data.items()],
                 "npoints": st["npoints"], "pend": st["pend"], "data": st["data"] if full else None,
                 "loss_r": st["loss_r"], "loss_e": st["loss_e"]}
        steps.append((op, out, o, st))

    def new_point(source):
        """A point for a tell: (point, is_again) or None."""
        if source == "outstanding" and outstanding:
            return outstanding.pop(rng.randrange(len(outstanding))), False
        if source == "unsolicited" and kind in ("l1d", "seq", "avg"):
            if kind == "l1d":
                return round(rng.uniform(*child.bounds), 3), False
            if kind == "seq":
                i = rng.randrange(len(child.sequence))
                return (i, child.sequence[i]), False
            return int(child.npoints + len(child.pending_points) + rng.randrange(4)), False
        if source == "again" and told_keys and kind in ("l1d", "seq", "avg"):
            return rng.choice(told_keys), True
        return None

    if concrete is not None:
        for op in concrete:
            do(tuple(op))
            if stop:
                break
    else:
        if kind == "avg":          # F11: AverageLearner.ask / loss(real=False) divide by npoints = 0
            tag[0] += 1
            told_keys.append(0)
            do(("tell", [0.0], W.evaluate(kind, child, 0), tag[0]))
        for j, a in enumerate(hist):
            full = rng.random() < 0.3 or j == len(hist) - 1
            k = a[0]
            if k == "ask":
                # LearnerND.ask(0) raises ValueError, AverageLearner.ask(0) ZeroDivisionError (quirks of the
                # children, the same with and without the wrapper): keep only a few
                do(("ask", max(a[1], 1) if kind in ("lnd", "avg") and rng.random() < 0.9 else a[1], a[2]), full)
            elif k == "tell":
                p = None
                if a[1] == "outstanding" and outstanding:
                    p = outstanding.pop(rng.randrange(len(outstanding)) if a[2] else 0)
                elif a[1] == "unsolicited" and kind in ("l1d", "seq", "avg"):
                    if kind == "l1d":
                        p = round(rng.uniform(*child.bounds), 3)
                    elif kind == "seq":
                        i = rng.randrange(len(child.sequence))
                        p = (i, child.sequence[i])
                    else:
                        p = int(child.npoints + len(child.pending_points) + rng.randrange(4))
                elif a[1] == "again" and told_keys and kind in ("l1d", "seq", "avg"):
                    p = rng.choice(told_keys)
                if p is not None:
                    tag[0] += 1
                    y = W.evaluate(kind, child, p) if a[1] != "again" else W.evaluate(kind, child, p) + 1.0
                    told_keys.append(p)
                    do(("tell", W.enc_point(kind, p), y, tag[0]), full)
            elif k == "tell_many":
                items, seen_hp = [], set()
                for _ in range(a[1]):
                    got = new_point(rng.choice(["outstanding", "outstanding", "unsolicited", "again"]))
                    if got is None:
                        continue
                    p, again = got
                    hp = W.hashable(kind, p)
                    if hp in seen_hp and (kind not in ("l1d", "avg") or rng.random() < 0.8):
                        continue            # mostly distinct points inside one batch
                    seen_hp.add(hp)
                    tag[0] += 1
                    y = W.evaluate(kind, child, p) + (1.0 if again else 0.0)
                    told_keys.append(p)
                    items.append([W.enc_point(kind, p), y, tag[0]])
                do(("tell_many", items, a[2], a[3]), full)
            elif k == "tell_pending_told":
                # a point whose result has already arrived is announced as pending (again): tolerated by
                # Learner1D (no-op), AverageLearner and SequenceLearner (marked pending)
                if kind in ("l1d", "seq", "avg") and told_keys:
                    do(("tell_pending", W.enc_point(kind, rng.choice(told_keys))), full)
            elif k == "tell_pending" and kind in ("l1d", "seq", "avg"):
                if kind == "l1d":
                    p = round(rng.uniform(*child.bounds), 3)
                elif kind == "avg":
                    p = int(child.npoints + len(child.pending_points) + rng.randrange(3))
                else:
                    i = rng.randrange(len(child.sequence))
                    p = (i, child.sequence[i])
                hp = W.hashable(kind, p)
                if hp not in {W.hashable(kind, q) for q in child.data} | {W.hashable(kind, q) for q in child.pending_points}:
                    do(("tell_pending", W.enc_point(kind, p)), full)
            elif k == "loss":
                do(("loss", a[1]), full)
            elif k == "remove_unfinished" and kind != "lnd":       # F5
                do(("remove_unfinished",), full)
            if stop:
                break
    if rec is not None:
        rec.unwrap()
    return {"steps": steps, "rec": rec, "ds": ds, "errors": errors, "stop": stop, "child": child,
            "retell_at": retell_at[0]}


def twin_check(spec, res):
    """Replay the concrete history on the bare learner fed the picked values and compare."""
    kind, pname = spec["kind"], spec["picker"]
    np.random.seed(spec.get("npseed", 1))
    random.seed(spec.get("npseed", 1))
    twin = W.make_child(kind, spec.get("koff", 0), spec.get("size", 40))
    errs = []
    for j, (op, out, o, st) in enumerate(res["steps"]):
        tout = apply_op(kind, twin, op, False, pname)
        if out[0] != tout[0]:
            errs.append(("C18:twin_outcome", f"step {j} {op[0]}: wrapped -> {out[:2]}, bare learner -> {tout[:2]}"))
            break
        if out[0] == "exc":
            if out[1] != tout[1]:
                errs.append(("C18:twin_outcome", f"step {j} {op[0]}: wrapped raised {out[1]}, bare learner raised {tout[1]}"))
            break
        if out[0] == "ask" and (out[1] != tout[1] or not all(feq(a, b) for a, b in zip(out[2], tout[2])) or len(out[2]) != len(tout[2])):
            errs.append(("C18:twin_ask", f"step {j}: ask({op[1]}) wrapped -> {out[1][:4]} {out[2][:4]}, bare -> {tout[1][:4]} {tout[2][:4]}"))
            break
        if out[0] == "loss" and not feq(out[1], tout[1]):
            errs.append(("C18:twin_loss", f"step {j}: loss(real={op[1]}) wrapped {out[1]} != bare {tout[1]}"))
            break
        ts = public_state(kind, twin)
        for key, sig in (("data", "C18:twin_data"), ("pend", "C18:twin_pending"), ("npoints", "C18:twin_data")):
            if st[key] != ts[key]:
                errs.append((sig, f"step {j} after {op[0]}: {key} wrapped {str(st[key])[:80]} != bare {str(ts[key])[:80]}"))
        if not feq(st["loss_r"], ts["loss_r"]) or not feq(st["loss_e"], ts["loss_e"]):
            errs.append(("C18:twin_loss", f"step {j} after {op[0]}: loss wrapped ({st['loss_r']},{st['loss_e']}) != bare ({ts['loss_r']},{ts['loss_e']})"))
        if errs:
            break
    return errs, twin


def persistence_check(spec, res, workdir, k):
    """extra_data (and the child's data) across save/load, pickling and _get_data/_set_data."""
    import cloudpickle
    from adaptive import DataSaver
    kind, pname = spec["kind"], spec["picker"]
    ds = res["ds"]
    errs = []
    want_extra = list(ds.extra_data.items())
    want_data = W.child_data(kind, ds)

    def same(ds2, how):
        if list(ds2.extra_data.items()) != want_extra:
            errs.append(("C18:persist_extra_data", f"extra_data differs after {how}"))
        if W.child_data(kind, ds2) != want_data:
            errs.append(("C18:persist_data", f"data differs after {how}"))
        for x, r in want_extra[:5]:
            if ds2.extra_data[x] != r:
                errs.append(("C18:persist_extra_data", f"extra_data[{x!r}] not retrievable after {how}"))

    def fresh():
        return DataSaver(W.make_child(kind, spec.get("koff", 0), spec.get("size", 40)), arg_picker=make_picker(pname))
    try:
        fname = os.path.join(workdir, f"ds_{k % 8}.pickle")
        ds.save(fname)
        ds2 = fresh()
        ds2.load(fname)
        same(ds2, "save/load")
        ds3 = fresh()
        ds3._set_data(ds._get_data())
        same(ds3, "_set_data(_get_data())")
        if kind != "int":
            real_picker = ds.arg_picker
            ds.arg_picker = real_picker.f          # the counting wrapper is harness-side
            try:
                blob = pickle.dumps(ds) if pname == "itemgetter" and kind != "lnd" else cloudpickle.dumps(ds)
                same(pickle.loads(blob), "pickle")
            finally:
                ds.arg_picker = real_picker
    except Exception as e:
        errs.append(("C18:persist_exception", f"{type(e).__name__}: {e}"))
    return errs


# ----------------------------------------------------------------------
def op_term(op):
    k = op[0]
    if k == "ask":
        return C.app("@Ask OL R", C.nat(op[1]), C.bool_(op[2]))
    if k == "tell":
        return C.app("@Tell OL R", W.pt_term(op[1]), C.pair(C.flt(op[2]), C.Z(op[3])))
    if k == "tell_many":
        return C.app("@TellMany OL R", C.lst(C.pair(W.pt_term(it[0]), C.pair(C.flt(it[1]), C.Z(it[2]))) for it in op[1]))
    if k == "tell_pending":
        return C.app("@TellPending OL R", W.pt_term(op[1]))
    if k == "loss":
        return C.app("@Loss OL R", C.bool_(op[1]))
    return "(@RemoveUnfinished OL R)"


def out_term(o):
    if o[0] == "ask":
        return C.app("@LOAsk OL", C.lst(W.pt_term(p) for p in o[1]), C.lst(C.flt(v) for v in o[2]))
    if o[0] == "loss":
        return C.app("@LOLoss OL", C.flt(o[1]))
    return "(@LONone OL)"


def obs_term(o):
    return C.app("mkobs",
                 C.lst(C.pair(W.pt_term(p), C.pair(C.flt(y), C.Z(t))) for p, y, t in o["extra"]),
                 C.nat(o["npoints"]), C.lst(W.pt_term(p) for p in o["pend"]),
                 C.opt(o["data"], lambda d: C.lst(C.pair(W.pt_term(p), C.flt(v)) for p, v in d)),
                 C.flt(o["loss_r"]), C.flt(o["loss_e"]), "false")


def coq_ops(spec, steps):
    """Ops as the model sees them: the Tell carries (picked value, tag)."""
    pk = make_picker(spec["picker"])
    out = []
    for op, o, ob, _ in steps:
        if o[0] == "exc":
            break
        if ob is None:
            break                      # extra_data was malformed here (reported by the oracle)
        if op[0] == "tell":
            r = make_result(spec["picker"], op[2], op[3])
            op = ("tell", op[1], float(pk(r)), tag_of(spec["picker"], r))
        elif op[0] == "tell_many":
            rs = [make_result(spec["picker"], it[1], it[2]) for it in op[1]]
            op = ("tell_many", [[it[0], float(pk(r)), tag_of(spec["picker"], r)] for it, r in zip(op[1], rs)])
        out.append((op, o, ob))
    return out


def case_term(spec, res, overwrites=True):
    steps = res["steps"]
    if not overwrites and res.get("retell_at") is not None:
        steps = steps[:res["retell_at"]]          # a repaired F20: the model (code as it was) is not compared from here on
    return C.pair(W.child_term(res["rec"]),
                  C.lst((C.tup(op_term(op), out_term(o), C.opt(ob, obs_term)) for op, o, ob in coq_ops(spec, steps)),
                        sep=";\n  "))


def nontrivial(steps):
    retold = ooo = pend = False
    told, asked = set(), []
    for op, out, o, _ in steps:
        if op[0] == "ask" and out[0] == "ask" and op[2]:
            asked += [tuple(p) for p in out[1]]
        elif op[0] in ("tell", "tell_many"):
            for key in ([tuple(op[1])] if op[0] == "tell" else [tuple(it[0]) for it in op[1]]):
                retold |= key in told
                told.add(key)
                if key in asked:
                    ooo |= asked.index(key) != 0
                    asked.remove(key)
        elif op[0] in ("tell_pending", "remove_unfinished"):
            pend = True
    return ooo and (retold or pend)


def run(chk: Check) -> int:
    chk.prove(["theories/Props/C18.vo", "theories/Run/DataSaverRun.vo"], THEOREMS)
    overwrites = probe_retell_overwrites()
    chk.log(f"probe: DataSaver.tell of a known point {'replaces' if overwrites else 'keeps'} extra_data (C10:F20)")
    ncases = 600 if chk.quick else 4000
    maxlen = 26 if chk.quick else 60
    cases, metas = [], []
    hist_ops, kinds, stops, sizes = {}, {}, {}, {}
    seen = set()
    persisted = 0

    def report(spec, ops, errs):
        for sig, msg in errs:
            if sig not in seen:
                seen.add(sig)
                chk.fail(sig, f"DataSaver({spec['kind']}, picker={spec['picker']}): {msg}", {"spec": spec, "ops": ops})

    def add(spec, res, origin, k):
        nonlocal persisted
        steps = res["steps"]
        ops = [list(s[0]) for s in steps]
        cases.append(case_term(spec, res, overwrites))
        metas.append({"spec": spec, "ops": ops, "origin": origin})
        chk.note_case((spec["kind"], spec["picker"], ops), nontrivial(steps))
        for s in steps:
            hist_ops[s[0][0]] = hist_ops.get(s[0][0], 0) + 1
        kk = f"{spec['kind']}/{spec['picker']}"
        kinds[kk] = kinds.get(kk, 0) + 1
        bkt = f"len<={10 * (len(steps) // 10 + 1)}"
        sizes[bkt] = sizes.get(bkt, 0) + 1
        if res["stop"]:
            stops[res["stop"]] = stops.get(res["stop"], 0) + 1
        if len(steps) > 6:
            chk.sample({"child": spec["kind"], "picker": spec["picker"], "ops": ops[:10]})
        errs = list(res["errors"])
        terrs, _ = twin_check(spec, res)
        errs += terrs
        if not res["stop"]:
            errs += persistence_check(spec, res, str(chk.work), k)
            persisted += 1
        report(spec, ops, errs)

    totals = {"cases": 0, "mism": 0, "legal": 0}

    def flush(tag):
        if not cases:
            return
        mism, legal, errors = chk.coq_cases(tag, PREAMBLE, "case", cases, "check", "is_legal",
                                            shard=min(250, max(8, len(cases) // 16 + 1)))
        for e in errors:
            chk.broke("correspondence", "Model/DataSaver.v cases could not be evaluated", e)
        for c, s in mism[:5]:
            m = metas[c]
            chk.broke("correspondence", f"Model/DataSaver.v vs DataSaver: case {m['origin']} step {s}",
                      {"spec": m["spec"], "ops": m["ops"][:s + 1]})
        totals["cases"] += len(cases)
        totals["mism"] += len(mism)
        totals["legal"] += legal
        for f in chk.work.glob(tag + "_*.v"):
            f.unlink()
        cases.clear()
        metas.clear()

    corpus = sorted((chk.work.parents[1] / "corpus" / "C18").glob("*.json"))
    for j, f in enumerate(corpus):
        d = json.loads(f.read_text())
        add(d["spec"], drive(d["spec"], concrete=d["ops"], overwrites=overwrites), "corpus/" + f.name, j)
    for k in range(ncases):
        rng = chk.rng("case", k)
        kind = KINDS[k % len(KINDS)] if k < 15 else rng.choice(KINDS)
        spec = {"kind": kind, "picker": PICKERS[(k // len(KINDS)) % 3] if k < 15 else rng.choice(PICKERS),
                "npseed": rng.randrange(10 ** 6), "koff": rng.randrange(8), "size": rng.choice([4, 12, 40])}
        ml = maxlen if kind not in ("lnd", "int") else min(maxlen, 20)
        res = drive(spec, gen_history(rng, kind, ml), rng, overwrites=overwrites)
        add(spec, res, f"seed{chk.seed}/{k}", k)
        if len(cases) >= 1500:
            flush(f"cases{k}")
    flush("cases")
    exhaustive = 0
    if not chk.quick:
        # every op word of length <= 4 over a 9-letter alphabet after a warm-up, Learner1D and AverageLearner, each picker
        import itertools
        alphabet = [("ask", 1, True), ("ask", 2, False), ("tell", "outstanding", False), ("tell_many", 2, "gen", "map"),
                    ("tell", "again", True), ("tell_pending",), ("tell_pending_told",), ("loss", False), ("remove_unfinished",)]
        warm = [("ask", 3, True), ("tell", "outstanding", False)]
        for kind in ("l1d", "avg"):
            for pname in PICKERS:
                for L in range(1, 5):
                    for word in itertools.product(alphabet, repeat=L):
                        spec = {"kind": kind, "picker": pname, "npseed": 1, "koff": 1, "size": 40}
                        res = drive(spec, warm + list(word), random.Random(exhaustive), overwrites=overwrites)
                        add(spec, res, f"exhaustive/{kind}/{pname}/{exhaustive}", exhaustive)
                        exhaustive += 1
                flush(f"exh_{kind}_{pname}")
    chk.extra.update({"op_histogram": hist_ops, "child_picker_histogram": kinds, "length_histogram": sizes,
                      "histories_stopped": stops, "persistence_round_trips": persisted,
                      "legal_histories_per_coq": totals["legal"], "cases_compared_in_coq": totals["cases"],
                      "mismatches": totals["mism"], "exhaustive_small_scope_cases": exhaustive, "retell_replaces_extra_data": overwrites, "exhaustive": False})
    chk.log(f"correspondence: {totals['cases']} cases, {totals['mism']} mismatches, {totals['legal']} legal; oracle signatures {sorted(seen)}")
    return chk.finish(
        rule="histories generated by driving the real DataSaver over Learner1D / LearnerND / SequenceLearner / AverageLearner / "
             "IntegratorLearner with three pickers (operator.itemgetter, a lambda on dict results, identity): asks (committing and not), "
             "out-of-order, unsolicited and repeated tells of full results, tell_many batches of 0-5 (lists, tuples and one-shot iterables: "
             "generator, map, zip-derived, iter; mixed new/known points), tell_pending of new and of already told points, loss(real), "
             "remove_unfinished; each history is "
             "replayed on the bare learner fed the picked values (twin) and ends with save/load, pickle and _get_data/_set_data round "
             "trips; non-trivial = an out-of-order tell and (a point told twice or pending points marked/discarded); distinct by "
             "(child, picker, op list)",
        assumptions=["hand-written model Model/DataSaver.v tied to the code by the sampled correspondence only",
                     "the wrapped learner enters the model run as a recorded oracle table (Run/OracleChild.v)",
                     "C18_extra_data assumes == on points is an equivalence relation (PointLaws)",
                     "IntegratorLearner.tell_pending takes no argument, so DataSaver.tell_pending is not exercised over it; "
                     "LearnerND gets no remove_unfinished (F5) and no unsolicited points (F12)"])


def replay(doc) -> int:
    bad = 0
    items = doc.get("failing_inputs", []) + [b for b in doc.get("no_longer_checks", []) if isinstance(b.get("detail"), dict)]
    for f in items:
        r = f.get("replay") or f.get("detail")
        res = drive(r["spec"], concrete=r["ops"])
        errs = res["errors"] + twin_check(r["spec"], res)[0]
        print("replayed", r["spec"], len(res["steps"]), "ops ->", errs[:3] or "oracle silent")
        bad += bool(errs)
    return 1 if bad else 0
