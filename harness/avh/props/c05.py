"""C05 -- Runners drive a learner through a legal history under every completion schedule.

proof          : coq/theories/Props/C05.v (model Model/Runner.v, proofs Proofs/RunnerProofs.v)
correspondence : the REAL BlockingRunner / AsyncRunner under a controlled scheduler (no threads, no
                 timing; harness/avh/impl_runner.py); the recorded trace is replayed through the
                 model inside Coq (vm_compute), step by step
search         : from-scratch oracle of the property text (harness/avh/impl_runner_oracle.py)
"""
from __future__ import annotations

from .. import impl_runner as I
from .. import impl_runner_oracle as O
from ..core import Check

THEOREMS = {n: "Props.C05" for n in [
    "C05_only_handed_out_once", "C05_at_most_ntasks", "C05_pending_is_in_flight", "C05_keeps_full",
    "C05_clean_stop"]}
ORACLES = [O.oracle_c05]
LIMIT = 120000      # schedules per configuration (never reached by the configurations below)


def nontrivial(rec, ft):
    return (ft["multi"] or ft["ooo"]) and (ft["outstanding"] or ft["cancelled"] or ft["late_result"])


def base_spec(kind, ntasks, total, goal, cancel=False, learner="mock", log=True):
    return {"kind": kind, "learner": learner, "total": total, "goal": goal, "ntasks": ntasks, "ncores": 1,
            "retries": 0, "raise": True, "log": log, "allow_cancel": cancel, "shutdown_executor": True, "faults": {}}


def run(chk: Check) -> int:
    chk.prove(["theories/Props/C05.vo", "theories/Run/RunnerRun.vo"], THEOREMS)
    col = I.Collector(chk, "C05", ORACLES, nontrivial)
    for name, doc in I.corpus_docs("C05"):
        col.add(I.rerun(doc), name)
    # --- sampled: all runner kinds, learners, task counts, failures, cancellation
    n = 1500 if chk.quick else 8000
    for k in range(n):
        if col.enough():
            break
        rng = chk.rng("case", k)
        spec = I.random_spec(rng, faults=rng.random() < 0.35, big=not chk.quick, elastic_p=0.15)
        col.add(I.safe_run(col, spec, I.RandomSched(rng), f"seed{chk.seed}/{k}"), f"seed{chk.seed}/{k}")
    # --- exhaustive small scope: every schedule (every ordered sub-list of the futures in flight
    #     at every wait, cancellation at every wait and -- BlockingRunner -- inside every executor.submit
    #     call, first and mid-batch ones included, every futures-were-already-running choice)
    exh, truncated, nslow = {}, 0, 0
    if chk.quick:
        plans = [(kind, nt, T, T - 1, "all", True) for kind in I.KINDS for nt in (2, 3) for T in (2, 4)]
        plans += [(kind, 3, 5, 5, "all", False) for kind in I.KINDS]
    else:
        plans = []
        for kind in I.KINDS:
            for nt in (1, 2, 3):
                for T in range(1, 8):
                    plans.append((kind, nt, T, T, "all", False))            # run to completion, all orders
                    if T >= 2:
                        plans.append((kind, nt, T, T - 1, "all", True))     # early goal + cancellation at every wait
    for kind, nt, T, goal, orders, cancel in plans:
        spec = base_spec(kind, nt, T, goal, cancel)
        if kind == "async_coro":
            # coroutine function with asynchronous clean-up on cancellation: every other configuration
            nslow += 1
            spec["slow_cancel"] = nslow % 2 == 1
        cnt = 0
        if col.enough():
            break
        for rec in I.enumerate_scheds(lambda s, spec=spec: I.safe_run(col, spec, s, "exhaustive"), orders=orders, cancel=cancel, limit=LIMIT):
            cnt += 1
            # very large configurations: the oracle sees every schedule, Coq every third beyond the first 8000
            col.add(rec, f"exhaustive {kind} ntasks={nt} evals<={T} goal={goal} #{cnt}", coq=(cnt <= 8000 or cnt % 3 == 0))
            if rec is None or rec.machinery or col.enough():
                break
        exh[f"{kind} ntasks={nt} evals<={T} goal={goal} cancel={cancel}"] = cnt
        truncated += cnt >= LIMIT
    col.flush()
    st = col.stats
    chk.extra.update(st)
    chk.extra.update({"exhaustive_schedules_per_config": exh, "exhaustive_small_scope_cases": sum(exh.values()),
                      "exhaustive_configs_truncated_at_limit": truncated, "exhaustive": False})
    chk.log(f"runs {st['runs']} (exhaustive {sum(exh.values())}), compared in Coq {st['compared_in_coq']}, "
            f"mismatches {st['mismatches']}, oracle failures {st['oracle_failures']}")
    return chk.finish(
        rule="real BlockingRunner/AsyncRunner(coroutine and run_in_executor) driven by a controlled scheduler: random specs "
             "(mock/Learner1D/SequenceLearner/AverageLearner, ntasks 1..13 or ncores, goals, fault plans, cancellation) with random "
             "schedules, plus exhaustive enumeration of all schedules for small task counts; cancellation is injected inside a wait "
             "and (BlockingRunner) inside the k-th executor.submit call, for every k; coroutine functions with and without asynchronous "
             "clean-up on cancellation; non-trivial = at least one multi- or "
             "out-of-order completion and (stop with futures outstanding, cancellation, or a result arriving at shutdown); "
             "distinct by (spec, schedule)",
        assumptions=["hand-written model Model/Runner.v tied to adaptive/runner.py by the sampled + small-scope-exhaustive correspondence",
                     "concurrent.futures.wait / asyncio.wait / Future semantics trusted as documented; real threads, processes, "
                     "pickling and timing are not modelled",
                     "C05_at_most_ntasks and C05_keeps_full assume the learner returns at most n points for ask(n)"])


def replay(doc) -> int:
    return I.replay_failures(doc, ORACLES)
