"""C09 -- Asking without committing leaves a learner unchanged; committing is the same ask.

proof          : coq/theories/Props/C09.v about the executable models
                   Model/Seq.v, Model/L1D.v, Model/Avg.v            -- the candidate computation is a pure function of the
                       state (as in the code); the committing ask is that computation + tell_pending of each point
                   Model/Avg1D.v + Model/Avg1DPend.v (_partial)     -- same, for samples and the pending set (loss not modelled)
                   Model/DataSaver.v                                 -- C09 of the wrapper from C09 of the wrapped learner
                   Model/Balancing.v, Model/Integrator.v, Model/LND.v -- restore-based asks: the non-committing ask is the
                       output of the committing computation on a state that is handed back (noop BY CONSTRUCTION, see the
                       comments in Props/C09.v); proved content: the committing ask leaves children / data / pending set
                       as ask(n, False) + tell_pending(each) does (_partial: caches, cycle position, LearnerND's queue differ)
correspondence : Seq, L1D, Avg, Avg1D+pending and the Integrator (incl. ask(n, tell_pending=False): the real learner is
                 observed after the rolled-back call) vs the real classes on histories rich in non-committing asks,
                 compared step by step inside Coq; the other models are tied by their owning checks (C15, C18, C04)
search         : twin oracle on the REAL classes, all learner types, both wrappers and wrappers INSIDE wrappers (BalancingLearner
                 over DataSavers, DataSaver over a BalancingLearner, BalancingLearner over BalancingLearners, three levels; the
                 snapshot reads data / pending points / losses from every inner learner object): at every visited state
                 ask(n,False) twice -> same answer, snapshot unchanged, an untouched twin (built by replaying the
                 history, never by copying) answers a common continuation identically; ask(n,True) on a twin returns
                 the same points/improvements and leaves the state of ask(n,False)+tell_pending(each)
"""
from __future__ import annotations

import concurrent.futures as cf
import itertools
import json
import random
import warnings

from .. import impl_generic as G
from .. import impl_l1d as I
from ..core import Check, NPROC
from . import c17

THEOREMS = {n: "Props.C09" for n in ["C09_seq_noop", "C09_seq_commit", "C09_l1d_noop", "C09_l1d_commit",
                                     "C09_avg_noop", "C09_avg_commit",
                                     "C09_avg1d_noop_partial", "C09_avg1d_commit_partial",
                                     "C09_ds_noop", "C09_ds_commit", "C09_bal_noop", "C09_bal_commit_partial",
                                     "C09_bal_commit_losses_partial", "C09_bal_child_hyps_inhabited",
                                     "C09_int_noop", "C09_int_commit_partial",
                                     "C09_lnd_noop", "C09_lnd_commit_partial"]}

# what chk.prove builds: the property file and the Run files of every correspondence of this check
VO_TARGETS = ["theories/Props/C09.vo", "theories/Run/SeqRun.vo", "theories/Run/L1DRun.vo", "theories/Run/AvgRun.vo",
              "theories/Run/IntegratorRun.vo", "theories/Run/BookkeepingRun.vo"]

# signatures of defects already known on the unchanged tree (DESIGN section 9); identical strings go into
# known_findings.json when the main session decides not to repair them
SIG_F3 = "C09:F3 BalancingLearner.ask(tell_pending=False) wipes children's pending points (restore via __getstate__ drops them)"
SIG_F3B = "C09:F3b BalancingLearner.ask(tell_pending=False) does not restore _cycle / caches"
SIG_F4 = "C09:F4 IntegratorLearner.ask(tell_pending=False) re-queues in-flight points (same abscissa handed out twice)"
SIG_F4B = ("C09:F4b IntegratorLearner.ask(tell_pending=False) beyond the stack is not rolled back "
           "(snapshot aliases ivals / pending_points mutated by _fill_stack)")
SIG_F7 = "C09:F7 Learner2D unusable on numpy>=2.x/scipy>=1.15 (choose_point_in_triangle raises)"
SIG_F16 = "C09:F16 BalancingLearner over IntegratorLearner cannot ask (IntegratorLearner.tell_pending() takes no point)"
SIG_F18 = ("C09:F18 BalancingLearner.ask(tell_pending=False) rebuilds Learner1D-type children through tell_many "
           "(restore via __setstate__): x-scale, bounding box and interval bookkeeping differ afterwards")
SIG_F19 = ("C09:F19 AverageLearner1D.ask takes next(iter(_undersampled_points)): the answer depends on the iteration order of a "
           "set, which a snapshot/restore of the learner does not preserve")
SIG_F2 = ("C09:F2 BalancingLearner.tell_pending leaves _pending_loss stale (C15:F2): loss(real=False) after a committing ask "
          "differs from ask(tell_pending=False) followed by tell_pending of each point")
SIG_F10 = ("C09:F10 Learner2D.ask(tell_pending=False) rewrites _stack (and leaves the combined interpolator stale): repeated and "
           "later answers differ from an untouched twin")
SIG_F27 = ("C09:F27 Learner2D interpolates over pending_points in set iteration order: after ask(tell_pending=False) (points added "
           "and discarded again, or a snapshot/restore) the same pending points give answers that differ in the last digits and then "
           "in the point chosen")
SIG_F29 = ("C09:F29 LearnerND keeps outdated entries in _simplex_queue (sub-simplices of discarded or re-built sub-triangulations, "
           "revived with an old loss when vertex numbers are reused): ask(n, True) consumes them, ask(n, False) + "
           "tell_pending(each) does not, later asks differ")
SIG_F28 = ("C09:F28 IntegratorLearner sums igral and err over a set of intervals: after the snapshot/restore of "
           "ask(tell_pending=False) the same intervals are summed in another order and loss() differs in the last bit")
SIG_F30 = ("C09:F30 BalancingLearner.ask(tell_pending=False) over DataSaver children wipes the wrapped learners' pending points "
           "(utils.restore deep-copies the wrapped learner through __getstate__)")
SIG_F36 = ("C09:F36 BalancingLearner.ask(tell_pending=False) over BalancingLearner children does not roll the inner BalancingLearners "
           "back (utils.restore deep-copies their list of learners through __getstate__: the grandchildren lose their pending points; "
           "and their bound _ask_and_tell method: later asks run on a detached copy)")
SIG_F17 = ("C09:F17 BalancingLearner.ask(tell_pending=False) resets AverageLearner1D children to default parameters "
           "(restore via __setstate__ re-runs __init__ without delta/alpha/min_samples/...)")


# ---------------------------------------------------------------- configurations
def base_specs():
    return [{"kind": "L1D"}, {"kind": "L1D", "loss": "curvature", "bounds": [0.0, 4.0]},
            {"kind": "LND"}, {"kind": "LND", "dim": 3, "loss": "uniform"},
            {"kind": "Avg"}, {"kind": "Avg", "min_npoints": 4, "atol": 0.5},
            {"kind": "Avg1D"}, {"kind": "Avg1D", "min_samples": 2, "delta": 0.6},
            {"kind": "Seq"}, {"kind": "Seq", "n": 7, "elements": "int"},
            {"kind": "Int"}, {"kind": "Int", "tol": 1e-2},
            {"kind": "L2D"},
            # axes with different (here: disjoint) ranges
            {"kind": "LND", "bounds": [[0.0, 1.0], [2.0, 3.0]]}, {"kind": "L2D", "bounds": [[0.0, 1.0], [2.0, 3.0]]}]


def child_spec(kind):
    return {"L1D": {"kind": "L1D"}, "LND": {"kind": "LND"}, "Avg": {"kind": "Avg"},
            "Avg1D": {"kind": "Avg1D", "min_samples": 2, "delta": 0.6}, "Seq": {"kind": "Seq", "n": 30, "elements": "int"},
            "Int": {"kind": "Int"}, "L2D": {"kind": "L2D"}}[kind]


def all_specs(l2d_ok: bool, bal_int_ok: bool):
    specs = [s for s in base_specs() if s["kind"] != "L2D" or l2d_ok]
    kinds = ["L1D", "LND", "Avg", "Avg1D", "Seq"] + (["Int"] if bal_int_ok else []) + (["L2D"] if l2d_ok else [])
    for k in kinds:
        for i, st in enumerate(G.STRATEGIES):
            specs.append({"kind": "Bal", "child": child_spec(k), "nchild": 2 + (i % 2), "strategy": st})
    for k in ["L1D", "LND", "Avg", "Avg1D", "Seq", "Int"] + (["L2D"] if l2d_ok else []):
        specs.append({"kind": "DS", "child": child_spec(k)})
    return specs


def nested_specs(l2d_ok: bool):
    """Wrappers INSIDE wrappers: BalancingLearner over DataSaver[X] (every X a BalancingLearner can drive, all four
    strategies), DataSaver[BalancingLearner[X]], BalancingLearner over BalancingLearners (the library only demands that the
    children are of one class), and three levels.  A tentative ask of the outer learner must roll back the INNERMOST
    learners too (C09:F30: utils.restore lost the pending points of a learner held by a DataSaver)."""
    kinds = ["L1D", "LND", "Avg", "Avg1D", "Seq"] + (["L2D"] if l2d_ok else [])
    st = G.STRATEGIES
    specs = []
    for k in kinds:
        for i, s in enumerate(st):
            specs.append({"kind": "Bal", "child": {"kind": "DS", "child": child_spec(k)}, "nchild": 2 + (i % 2), "strategy": s})
    for i, k in enumerate(kinds):
        specs.append({"kind": "DS", "child": {"kind": "Bal", "child": child_spec(k), "nchild": 2 + (i % 2), "strategy": st[i % 4]}})
    for i in (1, 2, 3):
        specs.append({"kind": "DS", "child": {"kind": "Bal", "child": child_spec("L1D"), "nchild": 2, "strategy": st[i]}})
    for i, k in enumerate(kinds):
        specs.append({"kind": "Bal", "child": {"kind": "Bal", "child": child_spec(k), "nchild": 2, "strategy": st[(i + 1) % 4]},
                      "nchild": 2, "strategy": st[i % 4]})
    specs.append({"kind": "Bal", "child": {"kind": "Bal", "child": child_spec("L1D"), "nchild": 2, "strategy": "cycle"},
                  "nchild": 2, "strategy": "cycle"})
    specs.append({"kind": "Bal", "child": {"kind": "DS", "child": {"kind": "Bal", "child": child_spec("L1D"), "nchild": 2, "strategy": "npoints"}},
                  "nchild": 2, "strategy": "loss_improvements"})
    specs.append({"kind": "Bal", "child": {"kind": "DS", "child": {"kind": "Bal", "child": child_spec("Avg"), "nchild": 2, "strategy": "cycle"}},
                  "nchild": 2, "strategy": "loss"})
    specs.append({"kind": "DS", "child": {"kind": "Bal", "child": {"kind": "DS", "child": child_spec("L1D")}, "nchild": 2, "strategy": "loss_improvements"}})
    specs.append({"kind": "DS", "child": {"kind": "Bal", "child": {"kind": "DS", "child": child_spec("LND")}, "nchild": 2, "strategy": "npoints"}})
    return specs


def raising_specs():
    """Configurations on which a tentative request fails HALF-WAY (after points were handed out inside the rolled-back call):
    BalancingLearner over SequenceLearners of unequal length incl. a nearly exhausted one; IntegratorLearner on a domain so
    narrow that the intervals cannot be refined further.  A tentative ask that raises must leave no trace either and raise
    the same exception when repeated; probed with large n (spec key big_n)."""
    specs = []
    for i, st in enumerate(G.STRATEGIES):
        specs.append({"kind": "Bal", "child": {"kind": "Seq", "n": 12, "elements": "int"}, "child_ns": [3, 12], "nchild": 2,
                      "strategy": st, "big_n": True})
        specs.append({"kind": "Bal", "child": {"kind": "Seq", "n": 9, "elements": "list"}, "child_ns": [[1, 9, 4], [5, 2, 9]][i % 2],
                      "nchild": 3, "strategy": st, "big_n": True})
    specs += [{"kind": "Int", "bounds": [0.0, 1e-12], "big_n": True}, {"kind": "Int", "bounds": [1.0, 1.000000001], "big_n": True},
              {"kind": "DS", "child": {"kind": "Int", "bounds": [0.0, 1e-12]}, "big_n": True}]
    return specs


def l2d_smoke():
    """None when Learner2D can go beyond its four corners, else the exception."""
    ad = G.adapter({"kind": "L2D"})
    try:
        l = ad.make()
        pts, _ = l.ask(4)
        for p in pts:
            l.tell(p, ad.value(p))
        pts, _ = l.ask(3)
        for p in pts:
            l.tell(p, ad.value(p))
        l.ask(2, tell_pending=False)
        l.loss()
        return None
    except Exception as e:  # noqa: BLE001
        return G.exc_value(e)


def bal_int_smoke():
    ad = G.adapter({"kind": "Bal", "child": {"kind": "Int"}, "nchild": 2, "strategy": "cycle"})
    out = G.apply_op(ad, ad.make(), ["ask", 1, True])
    return out if G.is_exc(out) else None


# ---------------------------------------------------------------- mechanism detectors (known defects)
def leaves(ad, l):
    """(adapter, learner) of every base learner under the wrappers."""
    k = ad.spec["kind"]
    if k == "Bal":
        return [x for c in l.learners for x in leaves(ad.child, c)]
    if k == "DS":
        return leaves(ad.child, l.learner)
    return [(ad, l)]


def pre_state(ad, l):
    """What the detectors need to remember from before the non-committing ask."""
    st = {"leaf_pending": None, "inflight": [], "params": None}
    if G.has_bal(ad.spec):
        # the pending points of every INNERMOST learner, read from that object (for a plain BalancingLearner: its children)
        st["leaf_pending"] = [frozenset(a.pending(b)) for a, b in leaves(ad, l)]
        if G.base_kind(ad.spec) == "Avg1D":
            st["params"] = [avg1d_params(b) for a, b in leaves(ad, l)]
    if ad.spec["kind"] == "Bal":
        st["child_fp"] = [G.fp_attrs(c) for c in l.learners]
    st["l2d_stack"] = [G.canon(list(b._stack.items())) for a, b in leaves(ad, l) if a.spec["kind"] == "L2D"]
    st["l2d_pending_order"] = [list(b.pending_points) for a, b in leaves(ad, l) if a.spec["kind"] == "L2D"]
    st["under_order"] = [list(b._undersampled_points) for a, b in leaves(ad, l) if a.spec["kind"] == "Avg1D"]
    for a, b in leaves(ad, l):
        if a.spec["kind"] == "Int":
            stack = set(b._stack)
            st["inflight"].append(frozenset(x for x in b.pending_points if x not in stack and x not in b.data))
            st.setdefault("ivals", []).append((len(b.ivals), frozenset(b.pending_points)))
    return st


def avg1d_params(c):
    return (c.delta, c.alpha, c.min_samples, c.max_samples, c.min_error, c.neighbor_sampling)


def _leaf_marks(a, b):
    return [(frozenset(x.pending(y)), avg1d_params(y) if x.spec["kind"] == "Avg1D" else None) for x, y in leaves(a, b)]


def restore_alone_wipes(ad, H, path):
    """Mechanism probe on a fresh twin: utils.restore around NOTHING, applied to the learner at `path`; do pending points of
    an innermost learner below it vanish (or are its parameters reset)?"""
    from adaptive.utils import restore
    T = G.replay(ad, H)
    a, b = {p: (x, y) for p, x, y in G.walk(ad, T)}[path]
    before = _leaf_marks(a, b)
    with restore(b):
        pass
    return any(x[0] - y[0] or x[1] != y[1] for x, y in zip(before, _leaf_marks(a, b)))


def detached_bal_nodes(ad, l):
    """Paths of the BalancingLearners whose strategy method (kept as a bound method in __dict__) is bound to ANOTHER
    object than the learner itself: what a deep copy of the learner's __dict__ leaves behind."""
    return [p for p, a, b in G.walk(ad, l)
            if a.spec["kind"] == "Bal" and getattr(b.__dict__.get("_ask_and_tell"), "__self__", b) is not b]


def nested_attribution(ad, X, msg):
    """A failure on a NESTED configuration after a tentative ask of X: is an inner BalancingLearner left detached?"""
    if G.wrapper_depth(ad.spec) < 2:
        return None
    det = detached_bal_nodes(ad, X)
    if not det:
        return None
    return SIG_F36, (f"{msg}; after the tentative ask the inner BalancingLearner(s) at {[G.path_name(p) for p in det]} run their "
                     f"strategy on a detached deep copy (the bound method _ask_and_tell was deep-copied by utils.restore)")


def nested_loss_mechanism(ad, H, lost_paths):
    """Innermost learners of a NESTED configuration lost pending points in a tentative ask: which learner on the way
    down is the one that utils.restore (applied by the BalancingLearner above it) does not roll back -- the deepest one
    whose restore alone loses the points.  A DataSaver: C09:F30.  A BalancingLearner: its list of learners (C09:F36)."""
    kinds = {p: a.spec["kind"] for p, a, _ in G.walk(ad, G.replay(ad, []))}
    for leaf in lost_paths:
        for k in range(len(leaf) - 1, 0, -1):
            path = leaf[:k]
            try:
                wipes = restore_alone_wipes(ad, H, path)
            except Exception:  # noqa: BLE001
                wipes = False
            if wipes:
                who = "DataSaver" if kinds[path] == "DS" else "BalancingLearner"
                return (SIG_F30 if kinds[path] == "DS" else SIG_F36), f"utils.restore of the {who} at {G.path_name(path)} alone loses them"
    return None


def known_mechanism(ad, l, pre, H=None):
    """After ask(n, False): which listed defect, if any, visibly fired on this learner."""
    if pre["leaf_pending"] is not None:
        lv = leaves(ad, l)
        now = [frozenset(a.pending(b)) for a, b in lv]
        lost = [(i, len(a - b)) for i, (a, b) in enumerate(zip(pre["leaf_pending"], now)) if a - b]
        if lost and G.wrapper_depth(ad.spec) < 2 and ad.spec["kind"] == "Bal":
            return SIG_F3, f"children lost pending points: {[f'child {i}: {k} lost' for i, k in lost]}"
        if lost and H is not None:
            paths = [p for p, a, _ in G.walk(ad, l) if a.spec["kind"] not in ("Bal", "DS")]
            mech = nested_loss_mechanism(ad, H, [paths[i] for i, _ in lost])
            if mech:
                return mech[0], (f"innermost learners lost pending points: "
                                 f"{[f'learner at {G.path_name(paths[i])}: {k} lost' for i, k in lost]} ({mech[1]})")
        if pre["params"] is not None:
            nowp = [avg1d_params(b) for a, b in lv]
            if nowp != pre["params"] and H is not None and G.wrapper_depth(ad.spec) >= 2:
                paths = [p for p, a, _ in G.walk(ad, l) if a.spec["kind"] not in ("Bal", "DS")]
                mech = nested_loss_mechanism(ad, H, [paths[i] for i, (x, y) in enumerate(zip(pre["params"], nowp)) if x != y])
                if mech:
                    return mech[0], (f"innermost AverageLearner1D parameters (delta, alpha, min_samples, ...) reset "
                                     f"{pre['params'][0]} -> {nowp[0]}: rebuilt through __setstate__ ({mech[1]})")
            if nowp != pre["params"]:
                return SIG_F17, f"child parameters (delta, alpha, min_samples, max_samples, min_error, neighbor_sampling) {pre['params'][0]} -> {nowp[0]}"
    ints = [(a, b) for a, b in leaves(ad, l) if a.spec["kind"] == "Int"]
    for (a, b), infl, (niv, pend) in zip(ints, pre["inflight"], pre.get("ivals", [])):
        requeued = [x for x in infl if x in b._stack]
        if requeued:
            return SIG_F4, f"{len(requeued)} abscissa(e) already handed out are back on the stack, e.g. {requeued[0]!r}"
        if len(b.ivals) != niv or frozenset(b.pending_points) != pend:
            return SIG_F4B, (f"after the call the learner has {len(b.ivals)} live intervals (before {niv}) and "
                             f"{len(b.pending_points)} pending points (before {len(pend)})")
    return None


def cycle_pos(l):
    """Position of the 'cycle' strategy's iterator.  copy.copy(itertools.cycle) is wrong during the first pass, so the
    position is read by consuming one element and installing an equivalent fresh iterator (counterfactual twins only)."""
    if getattr(l, "_cycle", None) is None:
        return None
    pos = next(l._cycle)
    l._cycle = itertools.cycle(range(len(l.learners)))
    for _ in range(pos):
        next(l._cycle)
    return pos


def save_balancing_private(l):
    import copy
    return (copy.deepcopy(l._ask_cache), dict(l._loss), dict(l._pending_loss), cycle_pos(l))


def restore_balancing_private(l, saved):
    """Counterfactual repair used only to attribute a failure to F3b: put the
    BalancingLearner's own caches and _cycle back to what they were."""
    import copy
    cache, loss, ploss, pos = saved
    l._ask_cache, l._loss, l._pending_loss = copy.deepcopy(cache), dict(loss), dict(ploss)
    if pos is not None:
        l._cycle = itertools.cycle(range(len(l.learners)))
        for _ in range(pos):
            next(l._cycle)


def bal_nodes(ad, l):
    """Every BalancingLearner of the tree, outermost first."""
    return [b for _, a, b in G.walk(ad, l) if a.spec["kind"] == "Bal"]


def drop_loss_caches(ad, l):
    for b in bal_nodes(ad, l):
        b._loss, b._pending_loss = {}, {}


def align_cycles(ad, C, D):
    """Give every 'cycle' BalancingLearner of D the round-robin position of its counterpart in C."""
    for c, d in zip(bal_nodes(ad, C), bal_nodes(ad, D)):
        if getattr(c, "_strategy", None) == "cycle" and getattr(d, "_strategy", None) == "cycle":
            restore_balancing_private(d, save_balancing_private(d)[:3] + (cycle_pos(c),))


L1D_REBUILD_ATTRS = {"_scale", "_bbox", "_oldscale", "losses", "losses_combined", "neighbors", "neighbors_combined",
                     "_distances", "rescaled_error", "error", "_vdim", "_undersampled_points", "_number_samples", "_data_samples", "data"}


def children_changed(ad, l, pre):
    """{child index: [attributes whose fingerprint changed]} across the non-committing ask."""
    out = {}
    for i, (c, before) in enumerate(zip(l.learners, pre["child_fp"])):
        now = G.fp_attrs(c)
        ch = sorted(k for k in set(before) | set(now) if before.get(k) != now.get(k))
        if ch:
            out[i] = ch
    return out


# ---------------------------------------------------------------- the twin experiment at one state
def script_standard(rng):
    return [("ask", rng.choice([1, 2, 3, 5])), ("tell", 2), ("ask", rng.choice([1, 2, 4])), ("askf", rng.choice([1, 3])),
            ("tell", 3), ("ask", rng.choice([1, 2]))]


def script_resume(rng):
    """Cancel and resume: discard what is outstanding, then ask / tell again."""
    return [("discard", 0), ("ask", rng.choice([2, 3, 5])), ("tell", 2), ("ask", rng.choice([4, 6])), ("askf", 3), ("tell", 3),
            ("discard", 0), ("ask", 4)]


def script_long(rng):
    """Several committing asks of size >= 4 without intermediate tells first (pending points accumulate)."""
    return [("ask", rng.choice([4, 5, 6])), ("ask", 4), ("tell", 3), ("ask", rng.choice([4, 5])), ("tell", 4), ("ask", 4)]


def _same_answer(ob, ox, imp_rel):
    """True / False, or "close" when the answers agree only within the tolerance (geometry computed in another order)."""
    if G.answer_key(ob) == G.answer_key(ox):
        return True
    if not imp_rel or G.is_exc(ob) or G.is_exc(ox) or ob[0] != "ask" or ox[0] != "ask":
        return False
    import math
    import numpy as np
    if len(ob[1]) != len(ox[1]) or len(ob[2]) != len(ox[2]):
        return False
    def flat(v):
        return [float(v)] if not isinstance(v, (list, tuple)) else [y for x in v for y in flat(x)]
    try:
        pa, pb = np.asarray(flat(ob[1])), np.asarray(flat(ox[1]))
    except Exception:  # noqa: BLE001
        return False
    if pa.shape != pb.shape or not np.allclose(pa, pb, rtol=1e-12, atol=1e-14):
        return False
    if not all(a == b or math.isclose(a, b, rel_tol=imp_rel) for a, b in zip(ob[2], ox[2])):
        return False
    return True if G.canon(ob[1]) == G.canon(ox[1]) else "close"


def run_continuation(ad, X, B, rng, script=None, who="the untouched twin", imp_rel=0.0):
    """Same ops on the probed learner X and the reference twin B; first difference or None.  imp_rel > 0: the loss
    improvements (not the points) are compared to that relative tolerance."""
    script = script if script is not None else script_standard(rng)
    got = []
    for what, k in script:
        if what in ("ask", "askf", "discard"):
            op = ["remove_unfinished"] if what == "discard" else ["ask", k, what == "ask"]
            ob, ox = G.apply_op(ad, B, op), G.apply_op(ad, X, op)
            same = _same_answer(ob, ox, imp_rel)
            if not same:
                return f"{op} answered {G.short(ox)} but {who} answered {G.short(ob)}", op
            if same == "close":
                return None, None       # same points up to the last bit: the twins can no longer be driven with identical tells
            if G.is_exc(ob):
                return None, None
            if what == "ask":
                got += ob[1]
            elif what == "discard" and not ad.discard_noop:
                got = []
        else:
            for p in got[:k]:
                op = ["tell", p, G.plain(ad.value(ad.point(p)))]
                ob, ox = G.apply_op(ad, B, op), G.apply_op(ad, X, op)
                if G.answer_key(ob) != G.answer_key(ox):
                    return f"{G.short(op)} -> {G.short(ox)} but on {who} {G.short(ob)}", op
                if G.is_exc(ob):
                    return None, None
            got = got[k:]
    sb, sx = G.snapshot(ad, B), G.snapshot(ad, X)
    d = G.diff_snap(sb, sx)
    if d:
        k = d[0]
        return f"after a common continuation {k} differs: {G.short(sx[k])} vs {who} {G.short(sb[k])}", None
    return None, None


def unobserved_experiment(ad, H, n, seed, counterfactual=False):
    """Twins on which NO read-only observation is made: one gets the two non-committing asks, the other nothing; then
    the cancel-and-resume continuation.  (loss() and snapshots touch the same private caches as ask(): observing both
    twins first would equalise them.)"""
    A0, B0 = G.replay(ad, H), G.replay(ad, H)
    saved = save_balancing_private(A0) if counterfactual else None
    for _ in range(2):
        G.apply_op(ad, A0, ["ask", n, False])
        if counterfactual:
            restore_balancing_private(A0, saved)
    rng = random.Random(seed + 7)
    return run_continuation(ad, A0, B0, rng, script_resume(rng), "the twin that was never asked nor observed")[0]


class _SortedPendingInterp:
    """Counterfactual used only for attribution (F27): Learner2D._data_interp reading the pending points in sorted order."""

    def __enter__(self):
        from adaptive.learner import learner2D as m
        self.m, self.orig = m, m.Learner2D._data_interp

        def _data_interp(lrn):
            if not lrn.pending_points:
                return self.orig(lrn)
            saved = lrn.pending_points
            lrn.pending_points = _SortedSet(saved)
            try:
                return self.orig(lrn)
            finally:
                lrn.pending_points = saved
        m.Learner2D._data_interp = _data_interp
        return self

    def __exit__(self, *a):
        self.m.Learner2D._data_interp = self.orig


class _FsumIntegrals:
    """Counterfactual used only for attribution (F28): IntegratorLearner.igral / err as order-independent sums."""

    def __enter__(self):
        import math
        import sys as _sys
        from adaptive.learner import integrator_learner as m
        self.cls, self.orig = m.IntegratorLearner, (m.IntegratorLearner.igral, m.IntegratorLearner.err)

        def igral(lrn):
            return math.fsum(i.igral for i in lrn.approximating_intervals)

        def err(lrn):
            if lrn.approximating_intervals:
                e = math.fsum(i.err for i in lrn.approximating_intervals)
                return float("inf") if e > _sys.float_info.max else e
            return float("inf")
        m.IntegratorLearner.igral, m.IntegratorLearner.err = property(igral), property(err)
        return self

    def __exit__(self, *a):
        self.cls.igral, self.cls.err = self.orig


def normalise_lnd_queues(ad, l):
    """Counterfactual used only for attribution (F29): drop from every LearnerND's queue the entries that are not the
    current loss of an existing (sub-)simplex, and duplicates."""
    import math
    from adaptive.learner import learnerND as m
    for a, b in leaves(ad, l):
        if a.spec["kind"] != "LND" or b.tri is None:
            continue
        keep, seen = [], set()
        for loss, simplex, sub in b._simplex_queue:
            if simplex not in b.tri.simplices or (simplex, sub) in seen:
                continue
            if sub is None:
                ok = simplex not in b._subtriangulations and b._losses.get(simplex) == loss
            else:
                st = b._subtriangulations.get(simplex)
                ok = st is not None and sub in st.simplices and math.isclose(
                    loss, st.volume(sub) * b._losses[simplex] / b.tri.volume(simplex), rel_tol=1e-9)
            if ok:
                seen.add((simplex, sub))
                keep.append((loss, simplex, sub))
        b._simplex_queue = m.SortedKeyList(keep, key=m._simplex_evaluation_priority)


def commit_later_with_clean_queues(ad, H, n, seed):
    """The committing-ask experiment on twins whose LearnerND queues were cleaned first; the difference or None."""
    C, D = G.replay(ad, H), G.replay(ad, H)
    for l in (C, D):
        normalise_lnd_queues(ad, l)
    rc = G.apply_op(ad, C, ["ask", n, True])
    rd = G.apply_op(ad, D, ["ask", n, False])
    if G.is_exc(rc) or G.is_exc(rd) or G.answer_key(rc) != G.answer_key(rd):
        return "answers differ"
    for p in rd[1]:
        G.apply_op(ad, D, ["tell_pending", p])
    for l in (C, D):
        normalise_lnd_queues(ad, l)
        drop_loss_caches(ad, l)
    align_cycles(ad, C, D)
    rng = random.Random(seed + 13)
    return run_continuation(ad, C, D, rng, script_long(rng), "the other twin", imp_rel=1e-9)[0]


class _PurgeStaleQueue:
    """Counterfactual used only for attribution (F29): LearnerND.remove_unfinished also drops the queue entries of
    sub-simplices."""

    def __enter__(self):
        from adaptive.learner import learnerND as m
        self.cls, self.orig = m.LearnerND, m.LearnerND.remove_unfinished
        orig = self.orig

        def remove_unfinished(lrn):
            orig(lrn)
            lrn._simplex_queue = m.SortedKeyList((e for e in lrn._simplex_queue if e[2] is None), key=m._simplex_evaluation_priority)
        m.LearnerND.remove_unfinished = remove_unfinished
        return self

    def __exit__(self, *a):
        self.cls.remove_unfinished = self.orig


class _SortedSet(set):
    def __iter__(self):
        return iter(sorted(set.__iter__(self)))


def probe_state(ad, H, n, seed, _counterfactual=False):
    """The C09 experiment at the state reached by history H.  Returns a list of
    (signature, what) -- empty when everything holds."""
    name = G.spec_name(ad.spec)
    fails = []
    A = G.replay(ad, H)
    pre = pre_state(ad, A)
    s0 = G.snapshot(ad, A)
    r1 = G.apply_op(ad, A, ["ask", n, False])
    mech = known_mechanism(ad, A, pre, H)
    if mech:
        return [(mech[0], f"{name} after {len(H)} ops, ask({n}, tell_pending=False): {mech[1]}")], True
    post_l2d_stack = [G.canon(list(b._stack.items())) for a, b in leaves(ad, A) if a.spec["kind"] == "L2D"]
    s1 = G.snapshot(ad, A)
    r2 = G.apply_op(ad, A, ["ask", n, False])
    mech = known_mechanism(ad, A, pre, H)
    if mech:
        return [(mech[0], f"{name} after {len(H)} ops, second ask({n}, tell_pending=False): {mech[1]}")], True
    s2 = G.snapshot(ad, A)
    is_bal = ad.spec["kind"] == "Bal"
    generic = []
    if G.answer_key(r1) != G.answer_key(r2):
        generic.append(("repeat", f"ask({n}, tell_pending=False) twice returned {G.short(r1)} then {G.short(r2)}"))
    for tag, s in (("first", s1), ("second", s2)):
        d = G.diff_snap(s0, s)
        if d:
            generic.append(("state", f"{d[0]} changed by the {tag} ask({n}, tell_pending=False): {G.short(s0[d[0]])} -> {G.short(s[d[0]])}"))
            break
    chg = children_changed(ad, A, pre) if is_bal else {}
    B = G.replay(ad, H)
    for _ in range(3):
        G.snapshot(ad, B)       # the same read-only observations as on A (loss() fills caches)
    msg, _ = run_continuation(ad, A, B, random.Random(seed))
    if msg:
        generic.append(("later", msg))
    msg_u = unobserved_experiment(ad, H, n, seed)
    if msg_u:
        generic.append(("later-unobserved", msg_u))
    if generic:
        na = nested_attribution(ad, A, f"{name} after {len(H)} ops: {generic[0][1]}")
        if na:
            return [na], True
    if generic and G.base_kind(ad.spec) == "L2D" and not _counterfactual:
        if post_l2d_stack != pre["l2d_stack"]:
            return [(SIG_F10, f"{name} after {len(H)} ops: {generic[0][1]}; the learner's _stack is not what it was before the call")], True
        with _SortedPendingInterp():
            cf, _ = probe_state(ad, H, n, seed, _counterfactual=True)
        if not cf:
            return [(SIG_F27, f"{name} after {len(H)} ops: {generic[0][1]} (vanishes when Learner2D reads its pending points in "
                              f"sorted order)")], True
    if generic and G.base_kind(ad.spec) == "Int" and not _counterfactual:
        with _FsumIntegrals():
            cf, _ = probe_state(ad, H, n, seed, _counterfactual=True)
        if not cf:
            return [(SIG_F28, f"{name} after {len(H)} ops: {generic[0][1]} (vanishes when igral and err are summed with math.fsum)")], True
    if generic and is_bal and chg:
        attrs = sorted({a for v in chg.values() for a in v})
        if G.base_kind(ad.spec) in ("L1D", "Avg1D") and set(attrs) <= L1D_REBUILD_ATTRS:
            return [(SIG_F18, f"{name} after {len(H)} ops: {generic[0][1]}; children {sorted(chg)} came back from the restore with "
                              f"different {attrs}")], True
    if generic and is_bal:
        # counterfactual: same experiment, but the BalancingLearner's private caches and _cycle are put back by hand
        A2, B2 = G.replay(ad, H), G.replay(ad, H)
        for _ in range(3):
            G.snapshot(ad, B2)
        G.snapshot(ad, A2)
        saved = save_balancing_private(A2)
        G.apply_op(ad, A2, ["ask", n, False])
        restore_balancing_private(A2, saved)
        G.snapshot(ad, A2)
        q1 = G.apply_op(ad, A2, ["ask", n, False])
        restore_balancing_private(A2, saved)
        ok = G.answer_key(q1) == G.answer_key(r1) and not G.diff_snap(s0, G.snapshot(ad, A2))
        msg2, _ = run_continuation(ad, A2, B2, random.Random(seed))
        msg2 = msg2 or unobserved_experiment(ad, H, n, seed, counterfactual=True)
        if ok and not msg2:
            return [(SIG_F3B, f"{name} after {len(H)} ops: {generic[0][1]} (vanishes when _ask_cache/_loss/_pending_loss/_cycle "
                              f"are put back by hand)")], True
        now_order = [list(b._undersampled_points) for a, b in leaves(ad, A) if a.spec["kind"] == "Avg1D"]
        if any(x != y and sorted(x) == sorted(y) for x, y in zip(pre["under_order"], now_order)):
            return [(SIG_F19, f"{name} after {len(H)} ops: {generic[0][1]}; the children's _undersampled_points hold the same "
                              f"abscissae in a different iteration order after the restore")], True
        if chg:
            attrs = sorted({a for v in chg.values() for a in v})
            return [(f"C09:{G.spec_name(_sig_spec(ad.spec))}:children-not-restored",
                     f"{name} after {len(H)} ops: {generic[0][1]}; children {sorted(chg)} differ in {attrs} after the call")], False
    for clause, m in generic:
        fails.append((f"C09:{G.spec_name(_sig_spec(ad.spec))}:{clause}", f"{name} after {len(H)} ops: {m}"))
    if generic:
        return fails, False
    # committing ask: same answer; state = ask(False) then tell_pending each
    C = G.replay(ad, H)
    rc = G.apply_op(ad, C, ["ask", n, True])
    if G.answer_key(rc) != G.answer_key(r1):
        fails.append((f"C09:{G.spec_name(_sig_spec(ad.spec))}:commit-answer",
                      f"{name} after {len(H)} ops: ask({n}, True) returned {G.short(rc)} but ask({n}, False) returned {G.short(r1)}"))
    elif not G.is_exc(rc) and ad.has_tell_pending:
        D = G.replay(ad, H)
        rd = G.apply_op(ad, D, ["ask", n, False])
        bad = None
        for p in (rd[1] if not G.is_exc(rd) else []):
            o = G.apply_op(ad, D, ["tell_pending", p])
            if G.is_exc(o):
                bad = o
                break
        sc, sd = G.snapshot(ad, C), G.snapshot(ad, D)
        d = G.diff_snap(sc, sd)
        if G.base_kind(ad.spec) == "L2D":
            # Learner2D interpolates over the pending points with qhull: the expected loss depends, in the last digits,
            # on the ORDER in which the same pending points were inserted -- compared to 1e-5 relative
            d = [k for k in d if not (k.endswith(("loss_exp", "fresh_exp", "child_exp")) and _close(sc[k], sd[k]))]
        if bad is not None:
            fails.append((f"C09:{G.spec_name(_sig_spec(ad.spec))}:commit-state",
                          f"{name} after {len(H)} ops: tell_pending of a point returned by ask({n}, False) raised {G.short(bad)}"))
        elif d and is_bal and set(d) <= {"loss_exp", "loss_real", "fresh_exp", "fresh_real"} and _equal_without_loss_caches(ad, C, D):
            return [(SIG_F2, f"{name} after {len(H)} ops: after ask({n}, True) loss(real=False) = {G.short(sc['loss_exp'])} but after "
                             f"ask({n}, False) + tell_pending(each) {G.short(sd['loss_exp'])} (equal once _loss/_pending_loss are dropped)")], True
        elif d and G.base_kind(ad.spec) == "L2D" and \
                [G.canon(list(b._stack.items())) for a, b in leaves(ad, C)] != [G.canon(list(b._stack.items())) for a, b in leaves(ad, D)]:
            return [(SIG_F10, f"{name} after {len(H)} ops: after ask({n}, True) {d[0]} = {G.short(sc[d[0]])} but after ask({n}, False) + "
                              f"tell_pending(each) {G.short(sd[d[0]])}; the Learner2D stacks of the two twins differ")], True
        elif d and nested_attribution(ad, D, ""):
            return [nested_attribution(ad, D, f"{name} after {len(H)} ops: after ask({n}, True) {d[0]} = {G.short(sc[d[0]])} but after "
                                              f"ask({n}, False) + tell_pending(each) {G.short(sd[d[0]])}")], True
        elif d:
            fails.append((f"C09:{G.spec_name(_sig_spec(ad.spec))}:commit-state",
                          f"{name} after {len(H)} ops: after ask({n}, True) {d[0]} = {G.short(sc[d[0]])} but after ask({n}, False) + "
                          f"tell_pending(each) {G.short(sd[d[0]])}"))
        elif G.base_kind(ad.spec) != "L2D" and all(b.tri is not None for a, b in leaves(ad, D) if a.spec["kind"] == "LND"):
            # (a LearnerND without a triangulation draws random points from a private RNG that ask(tell_pending=False)
            # rolls back and ask(tell_pending=True) advances -- the F24 mechanism; such states are left to C10:F24)
            # the two must also BEHAVE alike: further committing asks of size >= 4 while pending points accumulate
            if G.has_bal(ad.spec):
                for l in (C, D):
                    drop_loss_caches(ad, l)                 # C09:F2 (stale loss caches) is decided by the comparison above
                # the round-robin position is advanced by ASKING, not by marking points pending: ask(n, True) moved it
                # n places, ask(n, False) + tell_pending(each) left it where it was (tell_pending of arbitrary points
                # cannot know about it).  Not bookkeeping in the sense of the property: the twins are aligned here
                # (every 'cycle' BalancingLearner of the tree, also the inner ones of nested configurations).
                align_cycles(ad, C, D)
            rng = random.Random(seed + 13)
            # LearnerND: the sub-triangulations of the two twins hold the same simplices built in a different order; volumes
            # (hence loss improvements) may differ in the last bit -- points exact, improvements to 1e-9 relative
            tol = 1e-9 if G.base_kind(ad.spec) == "LND" else 0.0
            m, _ = run_continuation(ad, C, D, rng, script_long(rng), f"the twin that did ask({n}, False) + tell_pending(each)", imp_rel=tol)
            if m:
                na = nested_attribution(ad, D, f"{name} after {len(H)} ops, after ask({n}, True): {m}")
                if na:
                    return [na], True
            if m and is_bal:
                known = attribute_commit_later(ad, H, n, seed, rd)
                if known:
                    return [(known, f"{name} after {len(H)} ops, after ask({n}, True): {m}")], True
            if m and G.base_kind(ad.spec) == "LND" and not _counterfactual:
                with _PurgeStaleQueue():
                    cf, _ = probe_state(ad, H, n, seed, _counterfactual=True)
                if not cf:
                    return [(SIG_F29, f"{name} after {len(H)} ops, after ask({n}, True): {m} (vanishes when remove_unfinished also "
                                      f"drops the sub-simplex entries of the queue)")], True
                if not commit_later_with_clean_queues(ad, H, n, seed):
                    return [(SIG_F29, f"{name} after {len(H)} ops, after ask({n}, True): {m} (vanishes when the outdated entries are "
                                      f"removed from _simplex_queue before the asks)")], True
            if m:
                fails.append((f"C09:{G.spec_name(_sig_spec(ad.spec))}:commit-later",
                              f"{name} after {len(H)} ops, after ask({n}, True): {m}"))
    elif not G.is_exc(rc) and not ad.has_tell_pending:
        # integrator: no per-point tell_pending; the returned points must be pending
        pend = set(ad.pending(C))
        missing = [p for p in rc[1] if ad.key(ad.point(p)) not in pend]
        if missing:
            fails.append((f"C09:{G.spec_name(_sig_spec(ad.spec))}:commit-state",
                          f"{name} after {len(H)} ops: points {G.short(missing)} returned by ask({n}, True) are not pending"))
    return fails, False


def attribute_commit_later(ad, H, n, seed, rd):
    """A BalancingLearner whose ask(n, True) and ask(n, False)+tell_pending(each) twins behave differently later on:
    is it one of the listed defects of the non-committing ask (children not restored / own caches not restored)?"""
    D2 = G.replay(ad, H)
    pre2 = pre_state(ad, D2)
    saved = save_balancing_private(D2)
    G.apply_op(ad, D2, ["ask", n, False])
    mech = known_mechanism(ad, D2, pre2)
    if mech:
        return mech[0]
    chg = children_changed(ad, D2, pre2)
    if chg:
        attrs = {a for v in chg.values() for a in v}
        if G.base_kind(ad.spec) in ("L1D", "Avg1D") and attrs <= L1D_REBUILD_ATTRS:
            return SIG_F18
        return None
    restore_balancing_private(D2, saved)
    for p in (rd[1] if not G.is_exc(rd) else []):
        G.apply_op(ad, D2, ["tell_pending", p])
    C2 = G.replay(ad, H)
    G.apply_op(ad, C2, ["ask", n, True])
    for l in (C2, D2):
        l._loss, l._pending_loss = {}, {}
    rng = random.Random(seed + 13)
    m, _ = run_continuation(ad, C2, D2, rng, script_long(rng))
    return SIG_F3B if not m else None


def _close(a, b, rel=1e-5):
    import math
    try:
        return math.isclose(float.fromhex(a[1]), float.fromhex(b[1]), rel_tol=rel)
    except Exception:  # noqa: BLE001
        return a == b


def _equal_without_loss_caches(ad, C, D):
    for l in (C, D):
        drop_loss_caches(ad, l)
    return not G.diff_snap(G.snapshot(ad, C), G.snapshot(ad, D))


def _sig_spec(spec):
    """Signature granularity: learner type (+ child type and strategy for wrappers), not parameters."""
    k = spec["kind"]
    if k == "Bal":
        return {"kind": "Bal", "child": _sig_spec(spec["child"]), "nchild": "n", "strategy": spec.get("strategy")}
    if k == "DS":
        return {"kind": "DS", "child": _sig_spec(spec["child"])}
    return {"kind": k}


# ---------------------------------------------------------------- one case = one history on one configuration
def drive_history(ad, rng, nops, commit_only, directed=False):
    """Random legal history on the real learner; returns the concrete op list
    (ops that raised end the history, except argument-less corner cases)."""
    l = ad.make()
    H, handed = [], []
    w = {"commit": 1.0 if commit_only else 0.75}
    script = G.directed_ops(ad, l, rng) if directed else None
    out = None
    for _ in range(nops + (40 if directed and G.base_kind(ad.spec) == "Int" else 0)):
        op = None
        if script is not None:
            try:
                op = script.send(out) if H else next(script)
            except StopIteration:
                script = None
        if op is None:
            op = G.gen_op(ad, l, rng, handed, w)
        out = G.apply_op(ad, l, op)
        if G.is_exc(out):
            if op[0] == "ask" and op[1] == 0:
                continue
            break
        H.append(op)
        track_handed(ad, op, out, handed)
    return H


def track_handed(ad, op, out, handed):
    if op[0] == "ask":
        handed += out[1]        # also suggestions of a non-committing ask: evaluating them is a legal use
    elif op[0] == "tell":
        k = ad.key(ad.point(op[1]))
        handed[:] = [p for p in handed if ad.key(ad.point(p)) != k]
    elif op[0] == "tell_many":
        ks = {ad.key(ad.point(q)) for q in op[1]}
        handed[:] = [p for p in handed if ad.key(ad.point(p)) not in ks]
    elif op[0] == "remove_unfinished" and not ad.discard_noop:
        handed[:] = []


def shrink(spec, ops, n, seed, signature, budget=40):
    """Delta debugging over the op list, then over n: smallest input that still fails with the same signature."""
    ad = G.adapter(spec)

    def fails(o, k):
        try:
            fl, _ = probe_state(ad, o, k, seed)
        except Exception:  # noqa: BLE001
            return None
        for s, w in fl:
            if s == signature:
                return w
        return None
    what = fails(ops, n)
    if what is None:
        return ops, n, None
    ops = list(ops)
    changed = True
    while changed and budget > 0:
        changed = False
        for i in range(len(ops) - 1, -1, -1):
            cand = ops[:i] + ops[i + 1:]
            budget -= 1
            w = fails(cand, n)
            if w is not None:
                ops, what, changed = cand, w, True
            if budget <= 0:
                break
    for k in range(0, n):
        w = fails(ops, k)
        if w is not None:
            n, what = k, w
            break
    return ops, n, what


def run_case(args):
    spec, seed, nops, stride = args[:4]
    directed = len(args) > 4 and args[4]
    warnings.filterwarnings("ignore")
    ad = G.adapter(spec)
    rng = random.Random(seed)
    fragile = G.has_bal(spec) or G.base_kind(spec) == "Int"
    H = drive_history(ad, rng, nops, commit_only=fragile, directed=directed)
    fails, probes, with_pending, known_hits, raising = [], 0, 0, 0, 0
    nhist = {}
    if len(H) > 3 * nops:           # long scripted opening (integrator): probe its end and the random tail
        positions = list(range(len(H) - nops, len(H) + 1, stride))
    else:
        positions = list(range(0, len(H) + 1, stride))
    for k in positions:
        n = rng.randint(0, 12) if rng.random() < 0.6 else rng.choice([1, 2, 3])
        if spec.get("big_n") and rng.random() < 0.7:
            n = rng.choice([6, 8, 13, 20, 40, 60])       # large enough to fail half-way
        prefix = H[:k]
        try:
            f, known = probe_state(ad, prefix, n, seed * 1000 + k)
        except Exception as e:  # noqa: BLE001  (the machinery must not die silently)
            f, known = [(f"C09:{G.spec_name(_sig_spec(spec))}:oracle-crash", f"{G.spec_name(spec)}: {G.exc_value(e)}")], False
        probes += 1
        nhist[n] = nhist.get(n, 0) + 1
        Lr = G.replay(ad, prefix)
        with_pending += bool(ad.pending(Lr))
        if spec.get("big_n"):
            raising += G.is_exc(G.apply_op(ad, Lr, ["ask", n, False])) and n > 0
        known_hits += known
        for sig, what in f:
            fails.append({"signature": sig, "what": what, "replay": {"spec": spec, "ops": prefix, "n": n, "seed": seed * 1000 + k}})
        if len(fails) >= 3:
            break
    return {"spec": spec, "len": len(H), "probes": probes, "with_pending": with_pending, "fails": fails, "raising": raising,
            "n_hist": nhist, "ops": H[:10], "kinds": [op[0] for op in H]}


# ---------------------------------------------------------------- correspondence for the two modelled learners
def seq_history(rng, n, maxlen):
    h = []
    for _ in range(rng.randint(4, maxlen)):
        r = rng.random()
        if r < 0.45:
            h.append(("ask", rng.choice([0, 1, 2, 3, 5, n, n + 2]), rng.random() < 0.5))
        elif r < 0.80:
            h.append(("tell", rng.choice(["pending", "pending", "known", "known", "todo"])))
        elif r < 0.88:
            h.append(("tell_pending", "todo_strict"))
        elif r < 0.94:
            h.append(("tell_many", rng.randint(2, 3)))
        else:
            h.append(("remove_unfinished",))
    return h


def l1d_next_op(rng, l, cfg):
    """Learner1D ops rich in non-committing asks and re-tells (for the rest: impl_l1d.gen_next_op)."""
    r = rng.random()
    if r < 0.30:
        return ("ask", rng.choice([0, 1, 2, 3, 4, 6, 9, 12]), rng.random() < 0.45)
    if r < 0.45 and l.data:
        x = rng.choice(list(l.data))
        y = I.yval(cfg, x)
        if rng.random() < 0.5:
            y = tuple(v + 1 for v in y) if isinstance(y, tuple) else y + 1.0
        return ("tell", float(x), y)
    if r < 0.52 and l.data:
        return ("tell_pending", float(rng.choice(list(l.data))))     # ignored: known point
    return I.gen_next_op(rng, l, cfg)


def correspondence(chk: Check):
    ncs, ncl = (200, 120) if chk.quick else (2000, 1200)
    # --- SequenceLearner
    cases, metas = [], []
    for k in range(ncs):
        rng = chk.rng("seq", k)
        n = rng.choice([0, 1, 2, 3, 5, 8, 13, 21])
        kind = rng.choice(c17.KINDS)
        try:
            steps, _ = c17.drive(n, kind, seq_history(rng, n, 26 if chk.quick else 80), rng)
        except Exception as e:  # noqa: BLE001
            chk.fail(f"%s:SequenceLearner:raises-{type(e).__name__}" % "C09",
                     f"SequenceLearner(n={n}, {kind}) raised {type(e).__name__}: {str(e)[:120]} on a legal history", {"seq_n": n, "kind": kind, "case": k})
            continue
        cases.append(c17.case_term(n, steps))
        metas.append({"n": n, "kind": kind, "ops": [list(s[0]) for s in steps]})
    mism, legal, errors = chk.coq_cases("seqcases", c17.PREAMBLE, "case", cases, "check", "is_legal")
    for e in errors:
        chk.broke("correspondence", "Model/Seq.v cases could not be evaluated", e[-600:])
    for c, s in mism[:3]:
        chk.broke("correspondence", f"Model/Seq.v vs SequenceLearner: case {c} step {s}", dict(metas[c], ops=metas[c]["ops"][:s + 1]))
    nc_asks = sum(1 for m in metas for o in m["ops"] if o[0] == "ask" and not o[2])
    chk.extra["seq_correspondence"] = {"cases": len(cases), "mismatches": len(mism), "legal": legal, "non_committing_asks": nc_asks}
    # --- Learner1D
    cases, metas = [], []
    nca = 0
    for k in range(ncl):
        rng = chk.rng("l1d", k)
        cfg = {"func": rng.choice(list(I.FUNCS)), "bounds": list(rng.choice(I.BOUNDS)),
               "loss": rng.choice(["default", "uniform", "triangle", "curvature"]), "factor": 2}
        l, rec = I.make_learner(cfg)
        steps = []
        try:
            for _ in range(rng.randint(4, 24 if chk.quick else 70)):
                op = l1d_next_op(rng, l, cfg)
                out = I.apply_op(l, op)
                rec.on = False
                o = I.obs_of(l)
                rec.on = True
                steps.append((op, out, o))
                nca += op[0] == "ask" and not op[2]
        except OverflowError:
            continue
        except Exception as e:  # noqa: BLE001  (the implementation raised on a legal history)
            chk.fail(f"%s:Learner1D:{op[0]}-raises-{type(e).__name__}" % "C09",
                     f"Learner1D({cfg}) raised {type(e).__name__}: {str(e)[:120]} on {G.short(op)} after {len(steps)} ops",
                     {"l1d_cfg": cfg, "ops": [I.op_json(s[0]) for s in steps] + [I.op_json(op)]})
            continue
        cases.append(I.case_term(l, rec, steps))
        metas.append({"cfg": cfg, "ops": [I.op_json(s[0]) for s in steps]})
    mism, _, errors = chk.coq_cases("l1dcases", I.PREAMBLE, "case", cases, "check", None, shard=10)
    for e in errors:
        chk.broke("correspondence", "Model/L1D.v cases could not be evaluated", e[-600:])
    for c, s in mism[:3]:
        chk.broke("correspondence", f"Model/L1D.v vs Learner1D: case {c} step {s}", dict(metas[c], ops=metas[c]["ops"][:s + 1]))
    chk.extra["l1d_correspondence"] = {"cases": len(cases), "mismatches": len(mism), "non_committing_asks": nca}
    chk.log(f"correspondence: Seq {chk.extra['seq_correspondence']}, L1D {chk.extra['l1d_correspondence']}")


# ---------------------------------------------------------------- correspondence for the further modelled learners
# (models owned by other checks; their drivers / printers / Run files are reused, only the op mix is ours)
def avg_ops(rng, maxlen, p_ask, p_commit):
    """AverageLearner op list that needs no feedback: seeds from a small range, so that re-tells of known seeds, tells of
    pending seeds, tell_pending of known / pending / fresh seeds and gaps (fallback branch of ask) all occur by themselves."""
    ops = []
    top = rng.choice([6, 10, 16])
    for _ in range(rng.randint(4, maxlen)):
        r = rng.random()
        if r < p_ask:
            ops.append(("ask", rng.choice([1, 1, 2, 3, 5, 8]) if rng.random() < 0.95 else 0, rng.random() < p_commit))
        elif r < p_ask + (1 - p_ask) * 0.62:
            ops.append(("tell", rng.randint(0, top), rng.choice([rng.gauss(0.5, 2.0), float(rng.randint(-3, 3)), 1e-3 * rng.random()])))
        elif r < p_ask + (1 - p_ask) * 0.85:
            ops.append(("tell_pending", rng.randint(0, top + 3)))
        else:
            ops.append(("remove_unfinished",))
    return ops


def avg_correspondence(chk: Check, tag, p_ask, p_commit):
    """Model/Avg.v vs the real AverageLearner (bit-exact, inside Coq) on OUR op mix; returns the counters."""
    from . import c16
    guard = c16.probe_guard()
    n = 150 if chk.quick else 1500
    cases, metas = [], []
    cnt = {"cases": 0, "ops": 0, "non_committing_asks": 0, "committing_asks": 0, "fallback_asks": 0, "re_tells": 0,
           "tell_pending_of_known": 0, "discards_with_pending": 0}
    for k in range(n):
        rng = chk.rng(tag, k)
        cfg = c16.gen_avg_cfg(rng)
        ops = avg_ops(rng, 28 if chk.quick else 80, p_ask, p_commit)
        steps, _, sqx = c16.avg_drive(cfg, None, 0, concrete=ops)
        known, pend = set(), False
        for op, out, o in steps:
            cnt["ops"] += 1
            if op[0] == "ask":
                cnt["committing_asks" if op[2] else "non_committing_asks"] += 1
                pts = out[0] if out not in (None, "err") else []
                if pts and pts != list(range(pts[0], pts[0] + len(pts))):
                    cnt["fallback_asks"] += 1
            elif op[0] == "tell":
                cnt["re_tells"] += op[1] in known
                known.add(op[1])
            elif op[0] == "tell_pending":
                cnt["tell_pending_of_known"] += op[1] in known
            else:
                cnt["discards_with_pending"] += pend
            pend = bool(o["pend"])
        cases.append(c16.avg_case_term(cfg, guard, steps, sqx))
        metas.append({"kind": "avg", "cfg": cfg, "ops": c16.jsonable_ops(steps)})
    cnt["cases"] = len(cases)
    mism, _, errors = chk.coq_cases(tag, c16.PREAMBLE, "acase", cases, "acheck", None, shard=40)
    for e in errors:
        chk.broke("correspondence", "Model/Avg.v cases could not be evaluated", e[-600:])
    for c, s in mism[:3]:
        chk.broke("correspondence", f"Model/Avg.v vs AverageLearner: case {c} step {s}", dict(metas[c], ops=metas[c]["ops"][:s + 1]))
    cnt["mismatches"] = len(mism)
    return cnt


def model_correspondences(chk: Check):
    from .. import impl_bookkeeping as B
    chk.extra["avg_correspondence"] = avg_correspondence(chk, "avgcases", p_ask=0.40, p_commit=0.45)
    chk.log(f"correspondence: Avg {chk.extra['avg_correspondence']}")
    chk.extra["avg1d_pending_correspondence"] = B.d1p_correspondence(
        chk, "a1dcases", B.MIX_C09, 120 if chk.quick else 1000, 26 if chk.quick else 50)
    chk.log(f"correspondence: Avg1D+pending {chk.extra['avg1d_pending_correspondence']}")
    chk.extra["integrator_nc_correspondence"] = B.int_correspondence(
        chk, "intcases", 40 if chk.quick else 400, 40 if chk.quick else 120, 0.3)
    chk.log(f"correspondence: Integrator with non-committing asks {chk.extra['integrator_nc_correspondence']}")


# ---------------------------------------------------------------- driver
def run(chk: Check) -> int:
    warnings.filterwarnings("ignore")
    chk.prove(VO_TARGETS, THEOREMS)
    correspondence(chk)
    model_correspondences(chk)

    l2d_exc = l2d_smoke()
    if l2d_exc:
        chk.fail(SIG_F7, f"Learner2D cannot go beyond its four corner points on this platform: {G.short(l2d_exc)}",
                 {"spec": {"kind": "L2D"}, "ops": [["ask", 4, True]], "n": 3, "smoke": "l2d"})
    bi_exc = bal_int_smoke()
    if bi_exc:
        chk.fail(SIG_F16, f"BalancingLearner([IntegratorLearner, ...]).ask(1) raises {G.short(bi_exc)}",
                 {"spec": {"kind": "Bal", "child": {"kind": "Int"}, "nchild": 2, "strategy": "cycle"}, "ops": [], "n": 1, "smoke": "balint"})
    flat = all_specs(l2d_ok=not l2d_exc, bal_int_ok=not bi_exc) + raising_specs()
    nested = nested_specs(l2d_ok=not l2d_exc)
    specs = flat + nested
    per = 8 if chk.quick else 40
    per_nested = 4 if chk.quick else 20     # wrappers inside wrappers: fewer histories per configuration, same probing
    nops = 16 if chk.quick else 40
    stride = 1 if chk.quick else 2
    jobs = []
    corpus = sorted((chk.work.parents[1] / "corpus" / "C09").glob("*.json"))
    for si, spec in enumerate(specs):
        for c in range(per if si < len(flat) else per_nested):
            seed = chk.rng("case", si, c).randrange(1 << 30)
            jobs.append((spec, seed, nops, stride, c % 3 == 2))
    # long cases first (the pool hands out one case at a time): nested LearnerND / Learner2D configurations dominate
    order = sorted(range(len(jobs)), key=lambda j: (-(1 + G.wrapper_depth(jobs[j][0])) * (G.base_kind(jobs[j][0]) in ("LND", "L2D")), j))
    jobs = [jobs[j] for j in order]
    results = []
    with cf.ProcessPoolExecutor(max_workers=NPROC) as ex:
        for r in ex.map(run_case, jobs, chunksize=1):
            results.append(r)
    # corpus: minimised failing inputs are replayed first in the report
    for f in corpus:
        d = json.loads(f.read_text())
        ad = G.adapter(d["spec"])
        fl, _ = probe_state(ad, d["ops"], d["n"], d.get("seed", 0))
        for sig, what in fl:
            chk.fail(sig, what, d)
    per_type, nhist, kinds = {}, {}, {}
    shrunk = {}
    for r in results:
        name = G.spec_name(_sig_spec(r["spec"]))
        t = per_type.setdefault(name, {"cases": 0, "probes": 0, "states_with_pending": 0, "failing_probes": 0})
        t["cases"] += 1
        t["probes"] += r["probes"]
        t["states_with_pending"] += r["with_pending"]
        t["failing_probes"] += len(r["fails"])
        for n, c in r["n_hist"].items():
            nhist[n] = nhist.get(n, 0) + c
        for k in r["kinds"]:
            kinds[k] = kinds.get(k, 0) + 1
        chk.note_case((r["spec"], r["ops"], r["len"]), r["with_pending"] > 0 and r["probes"] > 3)
        chk.cov["evaluations"] += r["probes"] - 1
        if r["len"] > 5:
            chk.sample({"learner": G.spec_name(r["spec"]), "ops": r["ops"][:6]})
        for f in r["fails"][:2]:
            if f["signature"] not in shrunk:
                rp = f["replay"]
                ops, n, what = shrink(rp["spec"], rp["ops"], rp["n"], rp["seed"], f["signature"])
                if what is not None:
                    f = {"signature": f["signature"], "what": what + " [minimised]", "replay": dict(rp, ops=ops, n=n)}
                shrunk[f["signature"]] = f
                chk.failures.insert(0, f)       # minimised inputs first in the replay file
                continue
            chk.fail(f["signature"], f["what"], f["replay"])
    chk.extra["minimised_failing_inputs"] = {s: {"learner": G.spec_name(f["replay"]["spec"]), "ops": f["replay"]["ops"], "n": f["replay"]["n"]}
                                             for s, f in shrunk.items()}
    chk.extra["tentative_asks_that_raised_half_way_configs"] = sum(r.get("raising", 0) for r in results)
    chk.extra.update({"twin_experiments_per_learner_type": per_type, "request_size_histogram": dict(sorted(nhist.items())),
                      "op_histogram": kinds, "configurations": len(specs), "nested_wrapper_configurations": len(nested),
                      "nested_wrapper_histories": sum(1 for r in results if G.wrapper_depth(r["spec"]) >= 2),
                      "nested_wrapper_probes_with_pending": sum(r["with_pending"] for r in results if G.wrapper_depth(r["spec"]) >= 2),
                      "exhaustive": False,
                      "learner2d_runs_here": not l2d_exc, "balancing_over_integrator_can_ask": not bi_exc})
    chk.log(f"twin oracle: {sum(r.get('raising', 0) for r in results)} probed tentative asks raised (configurations that fail half-way)")
    chk.log(f"twin oracle: {len(results)} histories, {sum(r['probes'] for r in results)} probed states, "
            f"{len(chk.failures)} failures ({len({f['signature'] for f in chk.failures})} signatures)")
    return chk.finish(
        rule="one case = one history driven on a real learner (13 base configurations of the 7 learner types; BalancingLearner over "
             "2-3 children of each type x 4 strategies; DataSaver over each type; NESTED wrappers: BalancingLearner over DataSaver[X] x 4 "
             "strategies, DataSaver[BalancingLearner[X]], BalancingLearner over BalancingLearners, three levels -- the snapshot also "
             "reads data / pending points / losses from every inner learner object); at EVERY prefix of the history a twin experiment "
             "with n in 0..12 (twins by replay); non-trivial = the history reaches states with pending points and has > 3 probed states; "
             "distinct by (configuration, op list); BalancingLearner histories switch the strategy mid-run; domains with different "
             "per-axis ranges; plus model correspondences (Seq, L1D, Avg, Avg1D+pending, Integrator with non-committing asks) on "
             "histories where about every second ask is non-committing",
        assumptions=["Seq, L1D, Avg, Avg1D(+pending overlay), Integrator models tied to the code by sampled correspondence here; "
                     "Balancing / DataSaver / LearnerND models by the correspondences of C15 / C18 / C04",
                     "for the restore-based learners (BalancingLearner, IntegratorLearner, LearnerND) 'the non-committing ask changes "
                     "nothing' is a theorem only by construction of the model of restore; that the real snapshot/rollback is complete "
                     "is decided by the twin oracle (and, for the integrator, by the correspondence) -- exploration, not proof",
                     "Learner2D has no model: twin oracle only",
                     "C09_*_partial: equality of the wrapper's private caches / cycle position / LearnerND's queue, hence of all later "
                     "answers, is not proved (false for LearnerND: C09:F29); interval losses of AverageLearner1D are not modelled",
                     "later answers are compared along a 6-step common continuation, not for ever"])


def replay(doc) -> int:
    warnings.filterwarnings("ignore")
    bad = 0
    for f in doc.get("failing_inputs", []):
        r = f.get("replay") or {}
        if "spec" not in r:
            continue
        if r.get("smoke") == "l2d":
            e = l2d_smoke()
            print("replayed Learner2D smoke ->", e or "runs")
            bad += bool(e)
            continue
        if r.get("smoke") == "balint":
            e = bal_int_smoke()
            print("replayed BalancingLearner[IntegratorLearner] smoke ->", e or "asks")
            bad += bool(e)
            continue
        ad = G.adapter(r["spec"])
        fl, _ = probe_state(ad, r["ops"], r["n"], r.get("seed", 0))
        print("replayed", G.spec_name(r["spec"]), len(r["ops"]), "ops, n =", r["n"], "->", [s for s, _ in fl] or "oracle silent")
        for _, w in fl[:2]:
            print("   ", w)
        bad += bool(fl)
    return 1 if bad else 0
