"""C04 -- LearnerND: one loss per simplex of the data, and ask refines the worst simplex.

proof          : coq/theories/Props/C04.v (model Model/LND.v on top of Model/Tri.v)
correspondence : the real LearnerND (2-D / 3-D, rectangular and ConvexHull domains, scalar / vector
                 outputs, default_loss / uniform_loss) is driven with out-of-order and partial
                 completion; every oracle answer (losses, volumes, geometric predicates of the main and
                 of the sub-triangulations, inside_bounds, chosen points, triangulation attempts) is
                 recorded by wrapping methods from this process; the Coq model replays the history in
                 binary64 and compares data, pending points, tri, _losses, _subtriangulations, the
                 whole _simplex_queue and loss() after every operation (vm_compute inside Coq); loss() is the FIRST
                 thing read from the learner after an operation (LearnerND.tri is built lazily, and tell reads it before
                 it stores the point: the model's Touch step is that first loss() call), the compared value is that one
search/oracle  : from-scratch oracle of the property text on the real object (impl_lnd.Oracle)
"""
from __future__ import annotations

import json

from .. import coqio as C
from .. import impl_lnd as LN
from .. import impl_tri as X
from ..core import Check

THEOREMS = {n: "Props.C04" for n in [
    "C04_one_loss_per_simplex", "C04_loss_is_max", "C04_ask_count_corners_first", "C04_queue_complete",
    "C04_next_point_in_worst_simplex", "C04_next_point_in_worst_simplex_refuted_unfixed"]}

PREAMBLE = """From Coq Require Import ZArith PrimFloat List. Import ListNotations.
From AV Require Import Base.Prelude Base.FloatUtil Model.Tri Model.LND Run.TriRun Run.LNDRun.
Open Scope nat_scope."""


# ---------------------------------------------------------------------------
def s_term(s):
    return C.lst(C.nat(int(i)) for i in s)


def tbl(items, kpr, vpr):
    return C.lst(C.pair(kpr(k), vpr(v)) for k, v in items)


def rorc_term(a):
    """X.AddRec -> rorc"""
    if a is None:
        return "no_orc"
    vis = {}
    for f, _c, v1, v2, _s in a.orient:
        if all(i is not None for i in f):
            vis.setdefault(tuple(int(i) for i in f), v1 == -v2)
    flat, circ = {}, {}
    for s, b in a.flat:
        flat.setdefault(tuple(int(i) for i in s), b)
    for _p, s, b in a.circ:
        circ.setdefault(tuple(int(i) for i in s), b)
    return C.app("mkr", s_term(a.locate or ()), C.lst(C.nat(int(i)) for i in (a.reduce[1] if a.reduce else [])),
                 tbl(vis.items(), s_term, C.bool_), tbl(flat.items(), s_term, C.bool_), tbl(circ.items(), s_term, C.bool_))


def key2(k):
    return C.pair(C.nat(k[0]), s_term(k[1]))


def env_term(e):
    main = e["main"]
    hint = None if main is None or main.hint is None else tuple(int(i) for i in main.hint)
    return C.app(
        "mkrenv",
        tbl(sorted(e["inb"].items()), C.nat, C.bool_),
        C.lst(C.opt(t, lambda ss: C.lst(s_term(x) for x in ss)) for t in e["tris"]),
        C.lst(C.nat(i) for i in e["choose"]),
        rorc_term(main),
        C.opt(hint, s_term),
        C.bool_(e["rescale"]),
        tbl(sorted(e["loss"].items()), s_term, C.flt),
        tbl(sorted(e["vol"].items()), s_term, C.flt),
        tbl(sorted(e["svol"].items()), lambda k: C.pair(s_term(k[0]), s_term(k[1])), C.flt),
        tbl(sorted(e["pis"].items()), key2, C.bool_),
        tbl(sorted(e["sub"].items(), key=lambda kv: kv[0]), key2, rorc_term),
        tbl(sorted(e["locate"].items()), C.nat, s_term),
        C.lst(C.nat(i) for i in e["order"]))


def obs_term(o):
    return C.app(
        "mklobs",
        C.lst(C.nat(i) for i in o["data"]), C.lst(C.nat(i) for i in o["pend"]),
        C.opt(o["tri"], lambda t: C.pair(C.lst(C.nat(i) for i in t[0]), C.lst(s_term(s) for s in t[1]))),
        tbl(o["losses"], s_term, C.flt),
        C.lst(C.pair(s_term(k), C.pair(C.lst(C.nat(i) for i in v[0]), C.lst(s_term(u) for u in v[1]))) for k, v in o["subs"]),
        C.lst(C.tup(C.flt(a), s_term(b), C.opt(c_, s_term)) for a, b, c_ in o["queue"]),
        C.flt(o["loss"]))


def op_term(st, pid):
    op, e = st["op"], st["env"]
    if op[0] == "tell":
        return C.app("RTell", C.nat(pid(op[1])), env_term(e))
    if op[0] == "tell_pending":
        return C.app("RTellPending", C.nat(pid(op[1])), env_term(e))
    if op[0] == "ask":
        return C.app("RAsk", C.nat(op[1]), env_term(e))
    if op[0] == "touch":
        return C.app("RTouch", env_term(e))
    return "RRemoveUnfinished"


def out_term(o):
    if o[0] == "err":
        return C.app("OErr", o[1])
    return C.app("ORet", C.lst(C.pair(C.nat(p), C.flt(v)) for p, v in o[1]))


def case_term(hooks, ncorners, dim, repaired, fix12):
    cfg = C.app("mkcfg", C.nat(dim), C.lst(C.nat(i) for i in range(ncorners)), C.bool_(repaired), C.bool_(fix12),
                C.lst(C.pair(C.flt(k), C.Z(v)) for k, v in sorted(hooks.rnd.items())))
    items = [C.tup(op_term(st, hooks.id_of), out_term(st["out"]), C.opt(st["obs"], obs_term)) for st in hooks.steps]
    return C.pair(cfg, C.lst(items, sep=";\n  "))


# ---------------------------------------------------------------------------
F5_WITNESS = [["ask", 3], "tell_all", ["ask", 1], ["remove_unfinished"], ["ask", 1]]


def probe_f5():
    """does the 4-call witness of F5 still raise on the tree under test?"""
    cfg = {"dim": 2, "domain": "hull", "bounds": "triangle", "func": "smooth", "vdim": 1, "loss": "default"}
    l, f, _ = LN.make_learner(cfg)
    pts, _ = l.ask(3)
    for p in pts:
        l.tell(p, f(p))
    l.ask(1)
    l.remove_unfinished()
    try:
        l.ask(1)
        return False
    except AssertionError:
        return True


F12_WITNESS = {"cfg": {"dim": 2, "domain": "rect", "bounds": [(-1, 1), (-1, 1)], "func": "smooth", "vdim": 1, "loss": "default"},
               "ops": [("ask", 2), ("ask", 3), ("tell", 2), ("tell", 3), ("tell", 1), ("ask", 1), ("ask", 1), ("tell", 0), ("ask", 2)]}


def probe_f12():
    """does the minimised out-of-order history of F12 still raise?"""
    l, f, _ = LN.make_learner(F12_WITNESS["cfg"])
    out = []
    try:
        for op in F12_WITNESS["ops"]:
            if op[0] == "ask":
                out += list(l.ask(op[1])[0])
            else:
                p = out.pop(op[1])
                l.tell(p, f(p))
    except ValueError as e:
        return "already in triangulation" in str(e)
    return False


def run_case(cfg, hist=None, concrete=None, unfixed5=True, unfixed12=True):
    with LN.LNDHooks() as hooks:
        r = LN.drive(cfg, hist=hist, concrete=concrete, hooks=hooks)
    l = r["learner"]
    term = case_term(hooks, len(r["oracle"].corners), cfg["dim"], not unfixed5, not unfixed12)
    return r, hooks, term


def nontrivial(r, hooks):
    ooo = False
    asked = []
    for st in hooks.steps:
        if st["op"][0] == "ask" and st["out"][0] == "ret":
            asked += [p for p, _ in st["out"][1]]
        elif st["op"][0] == "tell":
            i = hooks.id_of(st["op"][1])
            if i in asked:
                if asked.index(i) != 0:
                    ooo = True
                asked.remove(i)
    subs = any(st["obs"] and st["obs"]["subs"] for st in hooks.steps)
    tri = any(st["obs"] and st["obs"]["tri"] and len(st["obs"]["tri"][0]) > len(r["oracle"].corners) for st in hooks.steps)
    return ooo and subs and tri


def run(chk: Check) -> int:
    chk.prove(["theories/Props/C04.vo", "theories/Run/LNDRun.vo"], THEOREMS)
    unfixed5, unfixed12 = probe_f5(), probe_f12()
    ncases = 220 if chk.quick else 900
    maxlen = 22 if chk.quick else 40
    cases, metas = [], []
    hist = {"op": {}, "dim": {}, "domain": {}, "loss": {}, "vdim": {}, "func": {}}
    tot = {"ops": 0, "worst_simplex_checked": 0, "subtriangulations_checked": 0, "losses_recomputed": 0, "asks": 0,
           "histories_with_F5_trigger": 0, "histories_with_F12_trigger": 0, "rescales": 0,
           "tri_first_built_by_loss_after_tell": {"2": 0, "3": 0}}

    def bump(h, k):
        hist[h][str(k)] = hist[h].get(str(k), 0) + 1

    def add(cfg, r, hooks, term, origin):
        orc = r["oracle"]
        cases.append(term)
        metas.append({"origin": origin, "cfg": cfg, "ops": r["ops"]})
        chk.note_case((cfg, r["ops"]), nontrivial(r, hooks))
        for k in ("dim", "domain", "loss", "vdim", "func"):
            bump(k, cfg[k])
        for o in r["ops"]:
            bump("op", o[0])
        tot["ops"] += len(r["ops"])
        tot["worst_simplex_checked"] += orc.stats["worst_checked"]
        tot["subtriangulations_checked"] += orc.stats["subtri_checked"]
        tot["losses_recomputed"] += orc.stats["losses_checked"]
        tot["asks"] += orc.stats["asks"]
        tot["tri_first_built_by_loss_after_tell"][str(cfg["dim"])] += orc.stats["tri_first_built_by_loss"]
        tot["histories_with_F5_trigger"] += orc.f5_trigger is not None
        tot["histories_with_F12_trigger"] += orc.f12_trigger is not None
        tot["rescales"] += sum(1 for st in hooks.steps if st["env"]["rescale"])
        if len(r["ops"]) > 8 and cfg["dim"] == 2:
            chk.sample({"config": cfg, "ops": [o if o[0] != "tell" else ["tell", [round(x, 4) for x in o[1]]] for o in r["ops"]][:14]})
        seen = set()
        for clause, msg, step in orc.errors:
            if clause in seen:
                continue
            seen.add(clause)
            chk.fail(f"C04:{clause}", f"LearnerND {cfg} step {step}: {msg}", {"cfg": cfg, "ops": r["ops"][:step + 1]})

    corpus = sorted((chk.work.parents[1] / "corpus" / "C04").glob("*.json"))
    for f in corpus:
        dsc = json.loads(f.read_text())
        r, hooks, term = run_case(dsc["cfg"], concrete=dsc["ops"], unfixed5=unfixed5, unfixed12=unfixed12)
        add(dsc["cfg"], r, hooks, term, f.name)
    for k in range(ncases):
        rng = chk.rng("case", k)
        cfg = LN.gen_config(rng)
        h = LN.gen_history(rng, maxlen, cfg["dim"])
        r, hooks, term = run_case(cfg, hist=h, unfixed5=unfixed5, unfixed12=unfixed12)
        add(cfg, r, hooks, term, f"seed{chk.seed}/{k}")
    # a shard is kept below ~1 MB of Gallina: coqc's time and memory grow faster than linearly with the file size
    mism, legal, errors = chk.coq_cases("cases", PREAMBLE, "case", cases, "check", "is_legal", shard=14 if chk.quick else 6)
    for e in errors:
        chk.broke("correspondence", "Model/LND.v cases could not be evaluated", e)
    for c, s in mism[:5]:
        m = metas[c]
        chk.broke("correspondence", f"Model/LND.v vs LearnerND: case {m['origin']} step {s} (model steps: each operation is followed "
                                    f"by a Touch step)", {"cfg": m["cfg"], "ops": m["ops"][:s // 2 + 1]})
    chk.extra.update({"histograms": hist, "totals": tot, "legal_histories_per_coq": legal, "cases_compared_in_coq": len(cases),
                      "mismatches": len(mism), "exhaustive": False,
                      "tree_under_test": {"F5_reproduces": unfixed5, "F12_reproduces": unfixed12,
                                          "model_flags": {"repaired": not unfixed5, "fix12": not unfixed12}}})
    chk.log(f"correspondence: {len(cases)} cases / {tot['ops']} operations, {len(mism)} mismatches, {legal} legal; "
            f"oracle failures {len(chk.failures)} (F5 reproduces: {unfixed5}, F12 reproduces: {unfixed12})")
    return chk.finish(
        level="proof",
        rule="real LearnerND driven in 2-D and 3-D on rectangular and ConvexHull domains, scalar and 2-vector outputs, "
             "default_loss and uniform_loss, functions smooth / steep (range growth > 1.1) / constant / ramp and slow (values that do not grow the output range); loss() is "
             "the first thing read from the learner after every operation (the triangulation is built lazily); histories mix ask(1..2^d+1), "
             "tells of outstanding points in random order, unsolicited tells and tell_pending, remove_unfinished; non-trivial = an "
             "out-of-order tell, a sub-triangulation present at some step and a point inserted beyond the corners; distinct by "
             "(config, ops)",
        assumptions=["PARTIAL: geometric validity of the (sub-)triangulations is checked per run by the exact oracle only",
                     "hand-written model Model/LND.v tied to the code by the sampled correspondence with recorded oracle answers",
                     "loss functions with nth_neighbors = 0 only"])


def replay(doc) -> int:
    bad = 0
    items = doc.get("failing_inputs", []) + [b for b in doc.get("no_longer_checks", []) if isinstance(b.get("detail"), dict)]
    for f in items:
        r_ = f.get("replay") or f.get("detail")
        r = LN.drive(r_["cfg"], concrete=r_["ops"])
        orc = r["oracle"]
        print("replayed", r_["cfg"], len(r["ops"]), "ops ->", [(e[0], e[1][:160]) for e in orc.errors[:3]] or "oracle silent")
        bad += bool(orc.errors)
    return 1 if bad else 0
