"""C08 -- IntegratorLearner: converged integrals are right and match Gonnet's algorithm 4.

LEVEL: proof for the polynomial / constants part, explicitly PARTIAL for the
accuracy claim (see coq/theories/Props/C08.v, comment C08_accuracy_partial).

proof          : Props/C08.v over Model/QuadAlg.v (exact rationals): the idealised rule is
                 exact on polynomials of degree < n for ANY n <= 33 nodes with an exact
                 left inverse, successive depths agree, err = 0, done(); shift matrices;
                 linearity; R-lemmas relating the code's orthonormal formulas to the model.
                 + Props/C08consts.v (facts about the constants the code computed, exported
                 into gen/Consts.v) when that file is present.
correspondence : the arithmetic kernel (_calc_coeffs incl. _downdate, calc_igral, calc_err,
                 T_left/T_right) recorded on real intervals and re-evaluated (i) in exact
                 Fractions with the code's own constants, (ii) against definitions that do
                 not use the constants (interpolation property, Clenshaw-Curtis weights,
                 resampling on the half interval), (iii) calc_igral inside Coq over Q from
                 gen/Consts.v, compared exactly with the Fraction value.
search (decides the accuracy and algorithm_4 clauses, NOT theorems):
                 parameterised families with closed-form integrals on the REAL class, tol
                 1e-10..1e-3, sequential / batched / shuffled-partial delivery:
                 done() => |igral - exact| <= max(err, tol |exact|) + 1e-13 scale;
                 sequential feeding vs tests/algorithm_4.py at equal evaluation counts.
"""
from __future__ import annotations

import concurrent.futures as cf
import json
import math
import multiprocessing as mp
import re
import signal
import time
from fractions import Fraction

import numpy as np

from .. import impl_c08 as I
from ..core import COQ, STD_AXIOMS_OK, VERIF, Check

OWN = ["C08_coeffs_recovered", "C08_igral_exact_poly", "C08_igral_exact_poly_distinct_nodes",
       "C08_interpolation_unique", "C08_right_inverse_is_left", "C08_pint_antiderivative", "C08_pint_substitution",
       "C08_coeffs_next_depth_agree", "C08_err_zero_when_coeffs_agree", "C08_poly_estimate_exact_and_done",
       "C08_igral_linear", "C08_igral_width", "C08_shift_is_resampling", "C08_split_coeffs_exact_poly",
       "C08_igral_split_additive", "C08_hypotheses_satisfiable",
       "C08_igral_prefactor_real", "C08_err_real_sq", "C08_err_zero_when_coeffs_agree_real"]
THEOREMS = {n: "Props.C08" for n in OWN}
CONSTS_V = COQ / "theories" / "Props" / "C08consts.v"
CORPUS = VERIF / "corpus" / "C08"

SEARCH_ONLY = [
    "accuracy: done() => |igral - exact| <= max(err, tol |exact|) + rounding, for exp / sin / cos / Lorentzian / Gaussian / "
    "sqrt end point / |x-c|^alpha / kink / jump / non-finite-node integrands (search on the real class only; Gonnet's "
    "estimate is a heuristic)",
    "accuracy for polynomials in floating point (the theorem is about the exact rule; the float run is checked by the search)",
    "out-of-order and partial delivery (search only)",
    "DivergentIntegralError only for divergent integrands (search only)",
    "igral / err equal to tests/algorithm_4.py at equal evaluation counts (search only)",
]

TINY = 1e-250        # absolute floor of the kernel comparisons (values in the denormal range)
NEAR_DUP_SIG = ("C08:near-duplicate-abscissa: sequential run lags algorithm_4 at equal evaluation counts because shared "
                "abscissae are recomputed (1 ulp off an evaluated one) and evaluated again")
FIXED_ZERO_STRETCH = [
    ("zgauss", {"a": 0.0, "b": 1.0, "x0": 0.2, "s": 0.01}),
    ("zgauss", {"a": 0.0, "b": 2.0, "x0": 0.2, "s": 0.01}),
    ("zgauss", {"a": -1.0, "b": 1.0, "x0": 0.6, "s": 0.02}),
    ("step0", {"a": 0.0, "b": 1.0, "c": 0.41, "h": 1.0}),
    ("step0", {"a": -1.0, "b": 1.0, "c": 0.3, "h": 1.0}),
    ("ramp", {"a": 0.0, "b": 1.0, "x0": 0.37, "k": 1.0}),
    ("ramp", {"a": 0.0, "b": 2.0, "x0": 1.3, "k": 2.0}),
    ("bump", {"a": 0.0, "b": 1.0, "x0": 0.3, "s": 0.15}),
    ("bump", {"a": -1.0, "b": 1.0, "x0": -0.5, "s": 0.25}),
]
FIXED_NARROW_PEAK = [       # (family, params, tolerances, loops): > 20 bisections, < 21 doublings of the local average
    ("nlorentz", {"a": 0.0, "b": 1.0, "x0": 0.41, "g": 1e-7}, (1e-3, 1e-6), 110),
    ("nlorentz", {"a": 0.0, "b": 1.0, "x0": 0.83, "g": 1e-8}, (1e-3,), 110),
    ("nlorentz", {"a": 0.0, "b": 1.0, "x0": 0.83, "g": 1e-6}, (1e-6,), 110),
    ("nlorentz", {"a": 0.0, "b": 2.0, "x0": 0.23, "g": 2e-9}, (1e-4,), 110),
]
RUN_TIMEOUT = 10.0   # seconds per run of the learner (a run that does not return is counted, not judged)


def consts_theorems() -> list[str]:
    if not CONSTS_V.exists():
        return []
    from ..core import strip_comments
    return re.findall(r"(?m)^\s*(?:Theorem|Lemma|Corollary)\s+(C08_\w+)", strip_comments(CONSTS_V.read_text()))


# ----------------------------------------------------------------------
# worker side


class RunTimeout(Exception):
    pass


def _alarm(*_a):
    raise RunTimeout()


def _with_deadline(fn, seconds=RUN_TIMEOUT):
    signal.signal(signal.SIGALRM, _alarm)
    signal.setitimer(signal.ITIMER_REAL, seconds)
    try:
        return fn()
    finally:
        signal.setitimer(signal.ITIMER_REAL, 0)


def modeclass(mode: str) -> str:
    return "sequential" if mode in ("seq1", "seqn") else "out-of-order"


def judge(mem, tol, out) -> dict:
    """The property's accuracy clause on one finished run."""
    r = {"status": out.status, "n": out.n, "verdict": None}
    if out.status == "done":
        n, ig, er, niv = out.done_events[0]
        L = out.learner
        scale = max(abs(mem.exact), I.l1_scale(L))
        bound = max(er, tol * abs(mem.exact)) + 1e-13 * scale
        diff = abs(ig - mem.exact)
        r.update(n_done=n, igral=ig, err=er, exact=mem.exact, bound=bound, diff=diff, nivals=niv,
                 heuristic=I.heuristic_leaves(L), napprox=len(L.approximating_intervals),
                 removed=sum(1 for i in L.approximating_intervals if i.removed),
                 maxdepth=max((i.rdepth for i in L.approximating_intervals), default=0))
        if not (diff <= bound):          # also catches nan
            r["verdict"] = "inaccurate"
        elif not I.done_criterion(L):
            r["verdict"] = "criterion"
    elif out.status == "divergent" and not mem.divergent:
        r["verdict"] = "divergent"
    return r


def signature(family, mode, r) -> str:
    mc = modeclass(mode)
    if r["verdict"] == "divergent":
        return f"C08:{family}:{mc}: DivergentIntegralError raised for a convergent integrand"
    if r["verdict"] == "exception":
        return f"C08:{family}:{mc}: the learner raised {r['error'].split(':')[0]} on a convergent integrand"
    if r["verdict"] == "criterion":
        return ("C08:done: done() holds although err != 0, err >= |igral|*tol (the tolerance is relative), "
                "intervals remain and the removed-interval clause does not apply")
    if r.get("heuristic", 0) and mc == "out-of-order":
        return ("C08:out-of-order: done() while an approximating interval carries the heuristic half-of-parent error "
                "(its parent's own rule is incomplete); |igral - exact| > max(err, tol*|exact|) + rounding")
    return f"C08:{family}:{mc}: done() but |igral - exact| > max(err, tol*|exact|) + rounding"


def task_accuracy(t):
    family, params, tol, mode, seed, budget = t
    import random
    import warnings
    warnings.simplefilter("ignore")
    np.seterr(all="ignore")
    I.modules()
    mem = I.build(family, params)
    try:
        out = _with_deadline(lambda: I.drive(mem, tol, mode, random.Random(seed), budget))
    except RunTimeout:
        return {"status": "timeout", "verdict": None, "n": 0}
    except Exception as e:  # noqa: BLE001  (an exception the learner does not document)
        return {"status": "exception", "verdict": None if mem.divergent else "exception", "n": 0,
                "error": f"{type(e).__name__}: {e}"[:200]}
    r = judge(mem, tol, out)
    if r["verdict"]:
        r["ops"] = out.ops
    if out.status == "internal":
        r["error"] = out.error
    return r


def rerun_ops(family, params, tol, ops):
    mem = I.build(family, params)
    try:
        out = _with_deadline(lambda: I.drive(mem, tol, "ops", None, 0, ops=ops), 30.0)
    except RunTimeout:
        return {"status": "timeout", "verdict": None}
    return judge(mem, tol, out)


def task_reference(t):
    """Sequential feeding against tests/algorithm_4.py."""
    family, params, tol, loops = t
    import warnings
    warnings.simplefilter("ignore")
    np.seterr(all="ignore")
    I.modules()
    mem = I.build(family, params)
    try:
        ref, rst = _with_deadline(lambda: I.reference_trajectory(mem, tol, loops), 25.0 + loops)
        if not ref:
            return {"status": "empty"}
        nref = ref[-1][0]
        traj, lst, _L = _with_deadline(lambda: I.learner_trajectory(mem, tol, nref, 4 * nref + 100), 25.0 + loops)
        zero_refined = I.zero_refined_intervals(_L)
    except RunTimeout:
        return {"status": "timeout"}
    if lst == "internal":
        return {"status": "internal"}
    if lst == "divergent" and not mem.divergent:
        return {"status": "learner_divergent", "evaluations": len(traj)}
    by_n = {n: (d, ig, er, dn) for (n, d, ig, er, dn) in traj}          # literal: same number of evaluations
    by_distinct = {}                                                     # aligned on distinct abscissae
    for (n, d, ig, er, dn) in traj:
        by_distinct[n - d] = (n, d, ig, er, dn)
    dup_pairs = getattr(_L, "c08_dup_pairs", [])
    res = {"status": "ok", "zero_refined": zero_refined, "ref_status": rst, "learner_status": lst,
           "literal": 0, "repo_ok": 0, "tight_ok": 0, "done_agree": 0, "worst_rel": 0.0,
           "near_dup_states": 0, "near_dup": None, "unattributed_skipped": 0, "mismatch": None, "done_mismatch": None,
           "duplicates_asked": len(dup_pairs),
           "divergent_ref": rst == "divergent", "divergent_learner": lst == "divergent"}

    def agree(lig, ler, ig, er):
        big = max(1.0, abs(ig), abs(er))
        repo = abs(lig - ig) < 1.5e-7 * big and abs(ler - er) < 1.5e-7 * big      # the repo's 7 decimals, scaled
        sc = max(abs(ig), abs(er), 1e-300)
        rel = max(abs(lig - ig) / sc, abs(ler - er) / sc)
        return repo, (rel if math.isfinite(rel) else math.inf)

    snapped = {}

    def snapped_state(nr):
        """the state with nr distinct abscissae of a run in which a near-duplicate abscissa is answered with
        the value of its already evaluated neighbour"""
        if not snapped:
            try:
                tr, _st, _L2 = _with_deadline(lambda: I.learner_trajectory(mem, tol, nref, 4 * nref + 100, snap=True), 25.0)
            except (RunTimeout, Exception):  # noqa: BLE001
                tr = []
            snapped[-1] = None
            for (n, d, ig, er, dn) in tr:
                snapped[n - d] = (n, d, ig, er, dn)
        return snapped.get(nr)

    for k, (nr, ig, er, niv) in enumerate(ref, 1):
        if er is None or nr not in by_n:
            break
        if niv > 150:              # algorithm_4 drops intervals above 200, the learner above 1000
            break
        d, lig, ler, ldone = by_n[nr]
        ref_done = rst == "finished" and k == len(ref)
        res["literal"] += 1
        repo, rel = agree(lig, ler, ig, er)
        if repo and ldone == ref_done:
            res["repo_ok"] += 1
            res["done_agree"] += 1
            res["tight_ok"] += rel <= 1e-12
            res["worst_rel"] = max(res["worst_rel"], rel)
            continue
        # the literal comparison fails at this state: is it the near-duplicate lag?
        # (the near-duplicate may still sit in the batch the learner is working on: it is on the stack
        # since the batch was opened, and is asked before the state with nr distinct abscissae is reached)
        al = by_distinct.get(nr)
        if al is not None and al[1] > 0:
            n2, d2, aig, aer, adone = al
            arepo, _arel = agree(aig, aer, ig, er)
            variant = "lag"
            if not (arepo and adone == ref_done):
                # the integrand may differ between the two abscissae (a singular point 1 ulp away): the
                # mismatch is explained by the near-duplicates iff it disappears when they are answered
                # with the neighbour's value
                sn = snapped_state(nr)
                if sn is not None and sn[1] > 0:
                    n2, d2, aig, aer, adone = sn
                    arepo, _arel = agree(aig, aer, ig, er)
                    variant = "lag and a different integrand value at the near-duplicate"
            if arepo and adone == ref_done:
                res["near_dup_states"] += 1
                res["near_dup_value_variant_states"] = res.get("near_dup_value_variant_states", 0) + (variant != "lag")
                if res["near_dup"] is None:
                    pair = [q for q in dup_pairs if q[0] <= n2][-1]
                    res["near_dup"] = {"variant": variant, "f_at_duplicate": pair[3] if len(pair) > 3 else None,
                                       "f_at_evaluated": pair[4] if len(pair) > 4 else None, "loop": k, "evaluations": nr, "ref_igral": ig, "ref_err": er, "igral": lig, "err": ler,
                                       "learner_done": ldone, "reference_returned": ref_done,
                                       "duplicate": {"evaluation": pair[0], "asked": pair[1], "already_evaluated": pair[2]},
                                       "duplicates_so_far": d2, "aligned_evaluations": n2, "aligned_igral": aig, "aligned_err": aer}
                continue
        if (al is None or mem.divergent) and dup_pairs:
            # the learner stopped before the aligned state, or the integrand is divergent (outside the property's
            # families: next to a non-integrable singularity neither run is meaningful once abscissae differ by an
            # ulp): cannot attribute, not judged
            res["unattributed_skipped"] += 1
            break
        if not repo:
            if res["mismatch"] is None:
                res["mismatch"] = {"loop": k, "evaluations": nr, "ref_igral": ig, "igral": lig, "ref_err": er, "err": ler,
                                   "duplicates_so_far": d}
        elif res["done_mismatch"] is None:
            res["done_mismatch"] = {"loop": k, "evaluations": nr, "reference_returned": ref_done, "learner_done": ldone,
                                    "igral": lig, "err": ler}
    return res


# ----------------------------------------------------------------------
# kernel correspondence (main process)


def cc_weights(n):
    """Clenshaw-Curtis weights for the nodes -cos(j pi/(n-1)), classical formula."""
    N = n - 1
    w = []
    for j in range(n):
        cj = 1.0 if j in (0, N) else 2.0
        s = 0.0
        for k in range(0, N // 2 + 1):
            bk = 1.0 if k in (0, N // 2) else 2.0
            s += bk / (1.0 - 4.0 * k * k) * math.cos(2.0 * k * j * math.pi / N)
        w.append(cj / N * s)
    return w


def kernel_checks(chk: Check, rec: I.Recorder, EK: I.ExactKernel, stats: dict, tag: str):
    """Compare every recorded kernel call with the exact re-evaluation and the definitions."""
    ns = EK.ns
    bad = []

    def flag(kind, detail):
        bad.append((kind, detail))

    for fx, depth, c in rec.coeffs:
        n = ns[depth]
        nans = [i for i, v in enumerate(fx) if not math.isfinite(v)]
        ce = EK.calc_coeffs(list(fx), depth)
        nrm = max(I.fnorm(ce), 1e-300)
        d = I.fnorm([Fraction(float(a)) - b for a, b in zip(c, ce)])
        stats["coeffs"] += 1
        stats["coeffs_nonfinite"] += bool(nans)
        stats["worst_coeffs"] = max(stats["worst_coeffs"], d / nrm)
        if not d <= 1e-10 * nrm + TINY:
            flag("_calc_coeffs differs from the exact evaluation of V_inv @ fx (+ downdate)",
                 {"depth": depth, "nans": nans, "rel": d / nrm})
        # definition: the coefficients interpolate the finite values at the Clenshaw-Curtis nodes,
        # with as many vanishing top coefficients as there are non-finite values
        nodes = I.cc_nodes(n)
        fmax = max([abs(float(v)) for v in fx if math.isfinite(v)] + [1e-300])
        worst = 0.0
        for j in range(n):
            if j in nans:
                continue
            worst = max(worst, abs(I.interp(c, nodes[j]) - float(fx[j])))
        tolx = (1e-10 if not nans else 1e-9) * fmax * n
        stats["worst_interp"] = max(stats["worst_interp"], worst / fmax)
        if not worst <= tolx + TINY:
            flag("coefficients do not interpolate the function values at the nodes -cos(j pi/(n-1))",
                 {"depth": depth, "nans": nans, "max_residual_rel": worst / fmax})
        if nans and any(float(c[n - 1 - t]) != 0.0 for t in range(len(nans))):
            flag("downdate left a non-zero top coefficient", {"depth": depth, "nans": nans})
    for a, b, c, ig in rec.igrals:
        ie = EK.calc_igral(a, b, c[0])
        stats["igral"] += 1
        if not abs(Fraction(ig) - ie) <= Fraction(1, 10 ** 10) * abs(ie) + Fraction(TINY):
            flag("calc_igral differs from (b - a) c[0] / sqrt 2", {"a": a, "b": b, "c0": float(c[0]), "igral": ig,
                                                                    "exact": float(ie)})
    # igral against the Clenshaw-Curtis rule applied to the recorded values (finite ones only)
    for (fx, depth, c) in rec.coeffs[:200]:
        if not np.all(np.isfinite(fx)):
            continue
        n = ns[depth]
        w = cc_weights(n)
        q = math.fsum(wj * float(v) for wj, v in zip(w, fx)) / 2.0       # per unit width
        ref = float(c[0]) / math.sqrt(2.0)
        fmax = max(abs(float(v)) for v in fx) or 1e-300
        stats["cc"] += 1
        if not abs(q - ref) <= 1e-10 * fmax + TINY:
            flag("c[0]/sqrt 2 is not the Clenshaw-Curtis quadrature of the node values",
                 {"depth": depth, "cc": q, "c0_over_sqrt2": ref})
    for a, b, c_old, c_new, err, ret, shifted in rec.errs:
        e2 = EK.err_sq(a, b, c_old, c_new)
        ee = I.fsqrt(e2)
        scale = abs(b - a) * max(I.fnorm(c_old), I.fnorm(c_new), 1e-300)
        stats["err"] += 1
        if not abs(err - ee) <= 1e-10 * scale + TINY:
            flag("calc_err differs from (b - a) * || pad(c_old) - pad(c_new) ||_2",
                 {"a": a, "b": b, "err": err, "exact": ee, "scale": scale})
        if shifted is not None:
            pa, pb, pc = shifted
            left = a == pa
            ce = EK.shift(left, pc)
            nrm = max(I.fnorm(pc), 1e-300)
            d = I.fnorm([Fraction(float(x)) - y for x, y in zip(c_old, ce)])
            stats["shift"] += 1
            if not d <= 1e-10 * nrm + TINY:
                flag("c_old of a child differs from T_left/T_right[:, :n_parent] @ parent.c",
                     {"left": left, "rel": d / nrm})
            # definition: c_old represents the parent's interpolant on the child's half
            s = -1.0 if left else 1.0
            worst = 0.0
            for t in (-1.0, -0.6, -0.2, 0.3, 0.7, 1.0):
                worst = max(worst, abs(I.interp(c_old, t) - I.interp(pc, (t + s) / 2.0)))
            stats["worst_shift"] = max(stats["worst_shift"], worst / nrm)
            if not worst <= 1e-9 * nrm * len(pc) + TINY:
                flag("shifted coefficients do not represent the parent's interpolant on the child's half interval",
                     {"left": left, "max_dev_rel": worst / nrm})
    for kind, detail in bad[:3]:
        chk.broke("correspondence", f"arithmetic kernel ({tag}): {kind}", detail)
    return not bad


COQ_PRE = """From Coq Require Import ZArith QArith List. Import ListNotations.
From AVGen Require Import Consts.
Definition dy (p : Z * Z) : Q :=
  let (m, e) := p in
  match e with
  | Z0 => inject_Z m
  | Zpos k => inject_Z (m * Z.pow_pos 2 k)
  | Zneg k => m # (Pos.iter xO 1%positive k)
  end.
Fixpoint dot (r : list (Z * Z)) (f : list (Z * Z)) : Q :=
  match r, f with
  | x :: r', y :: f' => Qred (dy x * dy y + dot r' f')
  | _, _ => 0
  end.
Definition igralQ (d : nat) (a b s2 : Z * Z) (fx : list (Z * Z)) : Z * positive :=
  let q := Qred ((dy b - dy a) * dot (nth 0 (nth d V_inv []) []) fx / dy s2) in (Qnum q, Qden q).
"""


def _dy(x: float) -> str:
    if x == 0:
        return "(0, 0)%Z"
    m, e = Fraction(x).numerator, 0
    fr = Fraction(x)
    den = fr.denominator
    e = -(den.bit_length() - 1)
    m = fr.numerator
    while m % 2 == 0 and m != 0:
        m //= 2
        e += 1
    assert Fraction(m) * Fraction(2) ** e == fr
    return f"(({m}), ({e}))%Z"


def coq_igral(chk: Check, rec: I.Recorder, EK: I.ExactKernel, k: int):
    """calc_igral of recorded intervals inside Coq over Q from gen/Consts.v; exact comparison."""
    if not (COQ / "gen" / "Consts.v").exists():
        chk.extra["coq_igral"] = "gen/Consts.v not present: skipped"
        return
    # pair the recorded coefficient calls (fx, depth) with an interval: recompute from fx
    items = []
    per_depth = {0: 0, 1: 0, 2: 0, 3: 0}
    for fx, depth, c in rec.coeffs:
        if np.all(np.isfinite(fx)) and per_depth[depth] < (k + 3) // 4:
            per_depth[depth] += 1
            items.append((fx, depth))
    bounds = [(0.0, 3.0), (-1.0, 1.0), (0.125, 0.75), (1.0, 1.0000001), (-2.5, 7.25)]
    exprs, expect = [], []
    s2 = math.sqrt(2.0)
    for i, (fx, depth) in enumerate(items):
        a, b = bounds[i % len(bounds)]
        row = EK.V_inv[depth][0]
        c0 = sum(r * Fraction(float(v)) for r, v in zip(row, fx))
        q = (Fraction(b) - Fraction(a)) * c0 / Fraction(s2)
        expect.append((q.numerator, q.denominator))
        exprs.append(f"igralQ {depth} {_dy(a)} {_dy(b)} {_dy(s2)} [{'; '.join(_dy(float(v)) for v in fx)}]")
    if not exprs:
        return
    ans = chk.coq_eval("igral_q", COQ_PRE, exprs)
    if ans is None or len(ans) != len(exprs):
        chk.broke("correspondence", "calc_igral over Q inside Coq (gen/Consts.v) did not evaluate", str(ans)[:400])
        return
    agree = 0
    for (en, ed), txt in zip(expect, ans):
        nums = [int(x) for x in re.findall(r"-?\d+", txt.split(":")[0])]
        if len(nums) >= 2 and nums[0] == en and nums[1] == ed:
            agree += 1
        else:
            chk.broke("correspondence", "calc_igral over Q from gen/Consts.v differs from the exact evaluation with the "
                      "constants of the running integrator_coeffs", {"coq": txt[:200], "fraction": f"{en} / {ed}"})
            break
    chk.extra["coq_igral"] = {"evaluated_in_coq": len(exprs), "agree_exactly": agree}
    chk.checker_cmds.append("coqc igral_q.v (calc_igral over Q from gen/Consts.v, compared exactly with the Fraction kernel)")


# ----------------------------------------------------------------------


def minimise(family, params, tol, ops, sig_fn):
    """Light minimisation: rounder parameters / tolerance, then a shorter schedule prefix."""
    best = (params, tol, ops)

    def fails(p, t, o):
        try:
            r = rerun_ops(family, p, t, o)
        except Exception:  # noqa: BLE001
            return False
        return r["verdict"] is not None and sig_fn(r)

    # the schedule stops at done(): drop trailing ops is pointless; try rounding the numbers
    def rnd(x, d):
        return float(f"{x:.{d}g}") if isinstance(x, float) else x
    for d in (2, 3, 5):
        p2 = {k: ([rnd(v, d) for v in val] if isinstance(val, list) else rnd(val, d)) for k, val in params.items()}
        t2 = rnd(tol, 1)
        for cand in ((p2, t2), (p2, tol)):
            if fails(cand[0], cand[1], ops):
                return cand[0], cand[1], ops
    return best


def run(chk: Check) -> int:
    import random
    import warnings
    warnings.simplefilter("ignore")
    np.seterr(all="ignore")
    t_start = time.time()
    il, co = I.modules()
    # ---- 1. regenerate the constants, build, audit
    try:
        from .. import trace_consts
        trace_consts.regenerate()
    except ImportError:
        chk.extra["consts_translator"] = "harness/avh/trace_consts.py not present"
    except Exception as e:  # noqa: BLE001  (fail closed: the tie to /repo is broken)
        chk.broke("translator", "export of the quadrature constants (trace_consts) failed", repr(e)[:600])
    theorems = dict(THEOREMS)
    chk.prove(["theories/Props/C08.vo"], THEOREMS, allowed_axioms=STD_AXIOMS_OK)
    cth = consts_theorems()
    if cth:
        # the constants theorems are owned by the constants translator (C20 runs coqchk on their
        # cone in its own thorough tier: the vm_compute proofs take > 40 min under coqchk's lazy
        # reduction); here they are built, audited with Print Assumptions and counted
        theorems.update({n: "Props.C08consts" for n in cth})
        was_quick, chk.quick = chk.quick, True
        try:
            chk.prove(["theories/Props/C08consts.vo"], {n: "Props.C08consts" for n in cth}, allowed_axioms=STD_AXIOMS_OK)
        finally:
            chk.quick = was_quick
    chk.extra["constants_theorems"] = cth or "Props/C08consts.v not present: the constants obligations are not part of this run"
    chk.log("proofs done")

    quick = chk.quick
    per_family = 32 if quick else 700
    budget = 4000 if quick else 12000
    modes = ["seq1", "seqn", "shuffle"]
    ctx = mp.get_context("fork")
    first_fail: dict[str, tuple] = {}
    hist = {"status": {}, "family_done": {}, "mode_done": {}, "tol_decade": {}, "heuristic_runs": 0,
            "internal_errors_C07": 0, "timeouts": 0, "nonfinite_member_done": 0, "removed_intervals_runs": 0,
            "max_rdepth": 0}

    def bump(d, k, v=1):
        d[k] = d.get(k, 0) + v

    def record_failure(family, params, tol, mode, r, origin):
        sig = signature(family, mode, r)
        if sig in first_fail:
            return
        ops = r.get("ops")
        p2, t2 = params, tol
        if ops and origin != "corpus":
            p2, t2, ops = minimise(family, params, tol, ops, lambda rr: signature(family, mode, rr) == sig)
            r2 = rerun_ops(family, p2, t2, ops)
            if r2["verdict"]:
                r = dict(r2, ops=ops)
        first_fail[sig] = (family, p2, t2, mode, r)

    # ---- 2. corpus first
    CORPUS.mkdir(parents=True, exist_ok=True)
    ncorpus = 0
    for f in sorted(CORPUS.glob("*.json")):
        d = json.loads(f.read_text())
        if d.get("kind", "accuracy") != "accuracy":
            continue
        if d.get("ops"):
            r = rerun_ops(d["family"], d["params"], d["tol"], d["ops"])
        else:                       # a seeded schedule: (mode, seed, budget)
            r = task_accuracy((d["family"], d["params"], d["tol"], d["mode"], d.get("seed", 0), d.get("budget", 4000)))
        ncorpus += 1
        chk.note_case(("corpus", f.name), True)
        if r["verdict"]:
            r.setdefault("ops", d.get("ops"))
            record_failure(d["family"], d["params"], d["tol"], d.get("mode", "shuffle"), r, "corpus")
    chk.log(f"corpus: {ncorpus} cases replayed")

    # ---- 3. accuracy search on the real class
    tasks, metas = [], []
    for fam in I.FAMILIES:
        nmem = per_family if fam != "divergent" else max(4, per_family // 4)
        for i in range(nmem):
            rng = chk.rng("acc", fam, i)
            params = I.draw(fam, rng)
            tol = 10.0 ** rng.uniform(-10, -3)
            for mode in modes:
                seed = rng.getrandbits(48)
                tasks.append((fam, params, tol, mode, seed, budget))
                metas.append((fam, params, tol, mode))
    results = []
    with cf.ProcessPoolExecutor(max_workers=14, mp_context=ctx) as ex:
        for r in ex.map(task_accuracy, tasks, chunksize=4):
            results.append(r)
    ndone = 0
    div_seen = 0
    for (fam, params, tol, mode), r, t in zip(metas, results, tasks):
        bump(hist["status"], r["status"])
        if r["status"] == "exception":
            bump(hist.setdefault("exceptions", {}), f"{fam}: {r['error'][:80]}")
            r["seed"], r["budget"] = t[4], t[5]
        if r["status"] == "internal":
            hist["internal_errors_C07"] += 1
            continue
        if r["status"] == "timeout":
            hist["timeouts"] += 1
            continue
        if fam == "divergent":
            div_seen += r["status"] == "divergent"
            continue
        if r["status"] == "done":
            ndone += 1
            bump(hist["family_done"], fam)
            bump(hist["mode_done"], mode)
            bump(hist["tol_decade"], f"1e{math.floor(math.log10(tol))}")
            hist["heuristic_runs"] += bool(r["heuristic"])
            hist["removed_intervals_runs"] += bool(r["removed"])
            hist["max_rdepth"] = max(hist["max_rdepth"], r["maxdepth"])
            mem_nonfinite = fam in ("inv_sqrt", "nan_node", "inf_node") or (fam == "power" and params["al"] < 0)
            hist["nonfinite_member_done"] += mem_nonfinite
            # non-trivial: the run needed at least one split, or met a non-finite value
            chk.note_case((fam, json.dumps(params, sort_keys=True), tol, mode), r["napprox"] > 1 or mem_nonfinite)
            if ndone % 97 == 1:
                chk.sample({"family": fam, "params": params, "tol": tol, "delivery": mode, "evaluations": r["n_done"],
                            "igral": r["igral"], "exact": r["exact"], "err": r["err"], "bound": r["bound"],
                            "approximating_intervals": r["napprox"]})
        if r["verdict"]:
            record_failure(fam, params, tol, mode, r, "search")
    hist["divergent_family_raised"] = div_seen
    seq1_total = sum(1 for (fam, _p, _t, mode) in metas if mode == "seq1" and fam != "divergent")
    seq1_done = hist["mode_done"].get("seq1", 0)
    seq1_internal = sum(1 for (fam, _p, _t, mode), r in zip(metas, results) if mode == "seq1" and r["status"] == "internal")
    hist["sequential_internal_errors"] = seq1_internal
    if seq1_done < 0.6 * seq1_total:
        # the unchanged tree reaches done() in ~95% of the one-by-one runs and never raises an
        # internal error there; a search that judges (almost) nothing must not pass
        chk.broke("vacuity", "fewer than 60% of the one-by-one sequential runs reached done(): the accuracy search is vacuous",
                  {"sequential_runs": seq1_total, "done": seq1_done, "internal_errors": seq1_internal, "status": hist["status"]})
    chk.log(f"accuracy: {len(tasks)} runs, {ndone} reached done(), {hist['internal_errors_C07']} skipped on C07 internal errors, "
            f"{hist['timeouts']} timeouts, {len(first_fail)} failing signatures")

    # ---- 4. polynomial family: the float shadow of C08_poly_estimate_exact_and_done
    npoly = 40 if quick else 400
    poly_bad = None
    poly_worst = 0.0
    for i in range(npoly):
        rng = chk.rng("poly33", i)
        params = I.draw("poly", rng)
        mem = I.build("poly", params)
        try:
            L = I.run_sequential(mem, 1e-8, 33)
        except I.INTERNAL_ERRORS:
            hist["sequential_internal_errors"] += 1
            continue
        sc = max(abs(mem.exact), I.l1_scale(L), 1e-300)
        rel = abs(float(L.igral) - mem.exact) / sc
        relerr = float(L.err) / sc
        poly_worst = max(poly_worst, rel, relerr)
        chk.note_case(("poly33", json.dumps(params, sort_keys=True)), len(params["cs"]) > 5)
        if (rel > 1e-11 or relerr > 1e-9) and poly_bad is None:
            poly_bad = (params, float(L.igral), mem.exact, float(L.err))
    chk.extra["poly_first_estimate"] = {"members": npoly, "worst_relative_error_or_estimate": poly_worst}
    if poly_bad:
        p, ig, ex, er = poly_bad
        chk.fail("C08:poly:sequential: the first 33-point estimate of a polynomial of degree <= 12 is not exact to rounding",
                 f"polynomial {p}: igral={ig!r} exact={ex!r} err={er!r} after 33 evaluations",
                 {"kind": "poly33", "family": "poly", "params": p})

    # ---- 5. reference implementation
    nref = 10 if quick else 150
    loops = 25 if quick else 60
    rtasks, rmetas = [], []
    for fam in I.FAMILIES:
        for i in range(nref):
            rng = chk.rng("ref", fam, i)
            params = I.draw(fam, rng, dyadic=(i % 4 != 3))
            tol = 10.0 ** rng.uniform(-10, -3)
            rtasks.append((fam, params, tol, loops))
            rmetas.append((fam, params, tol))
    ref = {"members": 0, "states_compared_literal": 0, "agree_repo_tolerance_and_termination": 0, "agree_rel_1e-12": 0,
           "worst_rel_of_agreeing": 0.0, "timeouts": 0, "internal_errors": 0,
           "members_that_asked_a_near_duplicate_abscissa": 0,
           "near_duplicate_lag_members": 0, "near_duplicate_lag_states": 0, "unattributed_not_judged": 0,
           "members_with_refined_all_zero_interval": 0,
           "both_divergent": 0, "only_reference_divergent": 0, "only_learner_divergent": 0}
    # corpus reference cases first (the minimal near-duplicate witness), then fixed members with an
    # exactly-zero stretch on simple ranges (every run, every seed): an all-zero interval is the
    # boundary case c_diff == hint * norm(c) == 0 of the forced-split test
    pre_t, pre_m = [], []
    for f in sorted(CORPUS.glob("*.json")):
        d = json.loads(f.read_text())
        if d.get("kind") == "reference":
            pre_t.append((d["family"], d["params"], d["tol"], d.get("loops", loops)))
            pre_m.append((d["family"], d["params"], d["tol"]))
            chk.note_case(("corpus", f.name), True)
    for fam, params in FIXED_ZERO_STRETCH:
        for tol in (1e-3, 1e-5, 1e-7):
            pre_t.append((fam, params, tol, max(loops, 40)))
            pre_m.append((fam, params, tol))
    for fam, params, tols, lps in FIXED_NARROW_PEAK:
        for tol in tols:
            pre_t.append((fam, params, tol, lps))
            pre_m.append((fam, params, tol))
    rtasks, rmetas = pre_t + rtasks, pre_m + rmetas
    with cf.ProcessPoolExecutor(max_workers=14, mp_context=ctx) as ex:
        rres = list(ex.map(task_reference, rtasks, chunksize=2))
    for (fam, params, tol, lps), r in zip(rtasks, rres):
        if r["status"] != "ok":
            ref["timeouts"] += r["status"] == "timeout"
            ref["internal_errors"] += r["status"] == "internal"
            if r["status"] == "learner_divergent":
                sig = f"C08:{fam}:sequential: DivergentIntegralError raised for a convergent integrand"
                if sig not in first_fail:
                    first_fail[sig] = (fam, params, tol, "seq1", {"verdict": "divergent", "n": r["evaluations"], "ops": None})
            continue
        ref["members"] += 1
        ref["members_with_refined_all_zero_interval"] += bool(r["zero_refined"])
        ref["states_compared_literal"] += r["literal"]
        ref["agree_repo_tolerance_and_termination"] += r["repo_ok"]
        ref["agree_rel_1e-12"] += r["tight_ok"]
        ref["worst_rel_of_agreeing"] = max(ref["worst_rel_of_agreeing"], r["worst_rel"])
        ref["members_that_asked_a_near_duplicate_abscissa"] += bool(r["duplicates_asked"])
        ref["near_duplicate_lag_members"] += bool(r["near_dup_states"])
        ref["near_duplicate_lag_states"] += r["near_dup_states"]
        ref["of_which_integrand_differs_at_the_duplicate"] = (ref.get("of_which_integrand_differs_at_the_duplicate", 0)
                                                              + r.get("near_dup_value_variant_states", 0))
        ref["unattributed_not_judged"] += r["unattributed_skipped"]
        ref["both_divergent"] += r["divergent_ref"] and r["divergent_learner"]
        ref["only_reference_divergent"] += r["divergent_ref"] and not r["divergent_learner"]
        ref["only_learner_divergent"] += r["divergent_learner"] and not r["divergent_ref"]
        chk.note_case(("ref", fam, json.dumps(params, sort_keys=True), tol), r["literal"] >= 3)
        if r["near_dup"] and NEAR_DUP_SIG not in first_fail:
            first_fail[NEAR_DUP_SIG] = (fam, params, tol, "reference", {"what": r["near_dup"], "kind": "near_dup", "loops": lps})
        if r["mismatch"]:
            sig = f"C08:algorithm_4:{fam}: igral/err differ from tests/algorithm_4.py at an equal number of evaluations"
            if sig not in first_fail:
                m = r["mismatch"]
                first_fail[sig] = (fam, params, tol, "reference", {"what": m, "kind": "reference", "loops": lps})
        if r["done_mismatch"]:
            sig = (f"C08:algorithm_4:{fam}: done() disagrees with the termination of tests/algorithm_4.py at an equal "
                   "number of evaluations")
            if sig not in first_fail:
                first_fail[sig] = (fam, params, tol, "reference", {"what": r["done_mismatch"], "kind": "reference_done",
                                                                    "loops": lps})
    chk.extra["reference_algorithm_4"] = ref
    if ref["states_compared_literal"] < 3 * len(rtasks) or ref["members_with_refined_all_zero_interval"] < 8:
        chk.broke("vacuity", "the comparison with tests/algorithm_4.py compared too few states (or met too few intervals on "
                  "which the integrand vanishes identically)", ref)
    chk.log(f"reference: {ref['members']} members, {ref['states_compared_literal']} states compared at equal evaluation counts, "
            f"{ref['agree_repo_tolerance_and_termination']} agree (repo tolerance + termination), {ref['agree_rel_1e-12']} to 1e-12, "
            f"{ref['near_duplicate_lag_states']} lag by near-duplicate abscissae ({ref['near_duplicate_lag_members']} members)")

    # ---- 6. arithmetic kernel correspondence
    EK = I.ExactKernel()
    kstats = {"coeffs": 0, "coeffs_nonfinite": 0, "igral": 0, "err": 0, "shift": 0, "cc": 0,
              "worst_coeffs": 0.0, "worst_interp": 0.0, "worst_shift": 0.0}
    kfams = ["poly", "exp", "sin", "lorentz", "jump", "kink", "inv_sqrt", "nan_node", "inf_node", "power", "gauss"]
    nk = 1 if quick else 4
    rec_all = None
    for fam in kfams:
        for i in range(nk):
            rng = chk.rng("kernel", fam, i)
            params = I.draw(fam, rng)
            mem = I.build(fam, params)
            for mode in ("seq1", "shuffle"):
                with I.Recorder(limit=60 if quick else 150) as rec:
                    try:
                        _with_deadline(lambda: I.drive(mem, 10.0 ** rng.uniform(-9, -4), mode, random.Random(rng.getrandbits(32)),
                                                       400 if quick else 1200))
                    except RunTimeout:
                        pass
                if not kernel_checks(chk, rec, EK, kstats, f"{fam}/{mode}"):
                    break
                if rec_all is None:
                    rec_all = rec
                elif len(rec_all.coeffs) < 400:
                    rec_all.coeffs += rec.coeffs[:12]
    chk.extra["kernel_correspondence"] = dict(kstats, tolerance="1e-10 relative in norm (the one place floats are compared with a "
                                              "tolerance: BLAS summation order is not reproducible); 1e-9 for the interpolation "
                                              "residual after a downdate")
    if rec_all is not None:
        coq_igral(chk, rec_all, EK, 8 if quick else 24)
    if kstats["coeffs"] < 100 or kstats["err"] < 100 or kstats["shift"] < 20 or kstats["coeffs_nonfinite"] < 5:
        chk.broke("vacuity", "the kernel correspondence recorded too few calls", kstats)
    chk.log(f"kernel: {kstats['coeffs']} _calc_coeffs ({kstats['coeffs_nonfinite']} with non-finite values), "
            f"{kstats['igral']} calc_igral, {kstats['err']} calc_err, {kstats['shift']} shifts")

    # ---- 7. report
    for sig, (fam, params, tol, mode, r) in first_fail.items():
        if r.get("kind") == "near_dup":
            m = r["what"]
            dp = m["duplicate"]
            chk.fail(sig, f"{fam} {params} tol={tol:.3g}, one point at a time ({m['variant']}): evaluation {dp['evaluation']} is at "
                     f"abscissa {dp['asked']!r} (f = {m['f_at_duplicate']!r}) although {dp['already_evaluated']!r} "
                     f"(f = {m['f_at_evaluated']!r}) is already evaluated ({m['duplicates_so_far']} such "
                     f"near-duplicates so far); after {m['evaluations']} evaluations (loop {m['loop']}) algorithm_4 has "
                     f"igral={m['ref_igral']!r} err={m['ref_err']!r} (returned: {m['reference_returned']}), the learner "
                     f"igral={m['igral']!r} err={m['err']!r} (done: {m['learner_done']}); after {m['aligned_evaluations']} "
                     f"evaluations, i.e. the same number of distinct abscissae"
                     f"{' and with the near-duplicates answered by the value of their evaluated neighbour' if m['variant'] != 'lag' else ''}"
                     f", it has igral={m['aligned_igral']!r} err={m['aligned_err']!r}",
                     {"kind": "reference", "family": fam, "params": params, "tol": tol, "loops": r["loops"]})
        elif r.get("kind") == "reference_done":
            m = r["what"]
            chk.fail(sig, f"{fam} {params} tol={tol:.3g}: after {m['evaluations']} evaluations (loop {m['loop']}) algorithm_4 "
                     f"{'returned' if m['reference_returned'] else 'continues'} but learner.done() is {m['learner_done']} "
                     f"(igral={m['igral']!r}, err={m['err']!r})",
                     {"kind": "reference", "family": fam, "params": params, "tol": tol, "loops": r["loops"]})
        elif r.get("kind") == "reference":
            m = r["what"]
            chk.fail(sig, f"{fam} {params} tol={tol:.3g}: after {m['evaluations']} evaluations (loop {m['loop']}) "
                     f"algorithm_4 has igral={m['ref_igral']!r} err={m['ref_err']!r}, the learner igral={m['igral']!r} err={m['err']!r}",
                     {"kind": "reference", "family": fam, "params": params, "tol": tol, "loops": r["loops"]})
        elif r["verdict"] == "criterion":
            chk.fail(sig, f"{fam} {params} tol={tol:.3g} delivery={mode}: done() after {r['n_done']} evaluations with "
                     f"igral={r['igral']!r} err={r['err']!r}: err/|igral| = {r['err'] / max(abs(r['igral']), 1e-300):.3g} >= tol",
                     {"kind": "accuracy", "family": fam, "params": params, "tol": tol, "mode": mode, "ops": r.get("ops")})
        elif r["verdict"] == "exception":
            chk.fail(sig, f"{fam} {params} tol={tol:.3g} delivery={mode} seed={r.get('seed')}: {r['error']}",
                     {"kind": "accuracy_seeded", "family": fam, "params": params, "tol": tol, "mode": mode,
                      "seed": r.get("seed"), "budget": r.get("budget")})
        elif r["verdict"] == "divergent":
            chk.fail(sig, f"{fam} {params} tol={tol:.3g} delivery={mode}: DivergentIntegralError after {r['n']} evaluations",
                     {"kind": "accuracy", "family": fam, "params": params, "tol": tol, "mode": mode, "ops": r.get("ops")})
        else:
            chk.fail(sig, f"{fam} {params} tol={tol:.3g} delivery={mode}: done() after {r['n_done']} evaluations with "
                     f"igral={r['igral']!r}, exact={r['exact']!r}, |diff|={r['diff']:.3g} > bound={r['bound']:.3g} "
                     f"(err={r['err']:.3g}, {r['napprox']} approximating intervals, {r['heuristic']} with heuristic error)",
                     {"kind": "accuracy", "family": fam, "params": params, "tol": tol, "mode": mode, "ops": r.get("ops")})
    chk.extra["search_histograms"] = hist
    chk.extra["clauses"] = {"theorems (all inputs)": sorted(theorems), "search_only (decided on every run by the oracle)": SEARCH_ONLY}
    chk.extra["level_note"] = ("proof for the idealised rule on polynomials and for the exported constants; the accuracy claim "
                               "for the other families, out-of-order delivery and the equality with algorithm_4 are PARTIAL: "
                               "search only")
    chk.extra["wall_parts_s"] = round(time.time() - t_start, 1)
    return chk.finish(
        level="proof",
        rule="members of 19 integrand families (four of them exactly 0.0 on a stretch of the range, one a Lorentzian 1e-5..1e-9 of the range wide) with closed-form integrals (random parameters and ranges, tol 1e-10..1e-3) driven on "
             "the real IntegratorLearner with three delivery schedules (ask 1/tell 1; ask k/tell all in order; ask <= 50, tell a "
             "random part in random order with the rest in flight); non-trivial = done() reached with more than one approximating "
             "interval (at least one split) or a non-finite function value was met; distinct by (family, parameters, tol, schedule); "
             "plus polynomial first-estimate cases (non-trivial = degree >= 5) and reference comparisons (non-trivial = >= 3 states "
             "compared at equal evaluation counts)",
        assumptions=["ACCURACY IS NOT A THEOREM: Gonnet's error estimate is a heuristic; the clauses listed under search_only are "
                     "decided by the search on sampled family members only",
                     "the theorems are about the idealised rule over exact rationals (Model/QuadAlg.v, unnormalised Legendre basis); "
                     "its tie to the floating-point code is the kernel correspondence (exact Fraction re-evaluation, 1e-10 in norm) "
                     "and, when present, the theorems about the exported constants",
                     "runs that raise AssertionError/KeyError/IndexError inside IntegratorLearner (C07, DESIGN 9 F1) or do not "
                     "return within 10 s are counted and skipped, not judged",
                     "comparison with algorithm_4 is literal (same number of evaluations) for every sequential run; a literal "
                     "mismatch is attributed to the near-duplicate-abscissa finding only if the run has asked an abscissa within "
                     "4 ulp of an evaluated one AND the state with the same number of DISTINCT abscissae agrees with the reference "
                     "(value, error, termination); every other mismatch is a failure"])


def replay(doc) -> int:
    import warnings
    warnings.simplefilter("ignore")
    np.seterr(all="ignore")
    I.modules()
    bad = 0
    for f in doc.get("failing_inputs", []):
        r = f.get("replay") or {}
        kind = r.get("kind")
        if kind == "accuracy_seeded":
            res = task_accuracy((r["family"], r["params"], r["tol"], r["mode"], r["seed"], r["budget"]))
            print("replayed", r["family"], r["params"], "tol", r["tol"], r["mode"], "->", res["status"], res.get("error"))
            bad += bool(res["verdict"])
        elif kind == "accuracy" and r.get("ops"):
            res = rerun_ops(r["family"], r["params"], r["tol"], r["ops"])
            print("replayed", r["family"], r["params"], "tol", r["tol"], "->", res["status"],
                  {k: res.get(k) for k in ("igral", "exact", "err", "bound", "diff", "verdict")})
            bad += bool(res["verdict"])
        elif kind == "reference":
            res = task_reference((r["family"], r["params"], r["tol"], r["loops"]))
            print("replayed reference comparison", r["family"], r["params"], "->", res.get("mismatch"), res.get("done_mismatch"),
                  res.get("near_dup"))
            bad += bool(res.get("mismatch") or res.get("done_mismatch") or res.get("near_dup"))
        elif kind == "poly33":
            mem = I.build("poly", r["params"])
            L = I.run_sequential(mem, 1e-8, 33)
            print("replayed poly33", r["params"], "igral", float(L.igral), "exact", mem.exact, "err", float(L.err))
    for b in doc.get("no_longer_checks", []):
        print("no longer checks:", b.get("kind"), b.get("name"))
    return 1 if bad else 0
