"""Helpers of the C08 check (IntegratorLearner: converged integrals are right and
match Gonnet's algorithm 4).

* integrand families with closed-form integrals (`build(family, params)`),
  every member a deterministic *scalar* function built on `math` only, so that
  the learner (scalar calls) and tests/algorithm_4.py (vector calls, served by
  a list comprehension over the same scalar function) see bit-identical values;
* delivery schedules on the REAL class: sequential ask(1)/tell, ask(n)/tell all
  in order, and a parallel-runner-like shuffled / partial delivery;
* run-time recording (no edit of /repo) of every `_calc_coeffs`, `calc_igral`,
  `calc_err` the implementation performs (module / class attributes wrapped in
  this process only);
* an exact re-implementation of that arithmetic kernel in `fractions.Fraction`
  with the code's own float constants converted exactly, and *semantic* checks
  of the kernel that do not use the constants (interpolation property of the
  coefficients, shifted coefficients represent the parent's interpolant on the
  half interval, igral is the exact integral of the interpolant).
"""
from __future__ import annotations

import importlib
import math
import sys
from fractions import Fraction

import numpy as np

INTERNAL_ERRORS = (AssertionError, KeyError, IndexError)   # C07's domain (DESIGN 9, F1)

# ----------------------------------------------------------------------
# integrand families


class Member:
    """One integrand: scalar f, closed-form integral, bounds."""

    def __init__(self, family, params, f, exact, a, b, divergent=False, nonfinite=False, descr=""):
        self.family, self.params = family, params
        self.f, self.exact, self.a, self.b = f, exact, a, b
        self.divergent, self.nonfinite, self.descr = divergent, nonfinite, descr

    def fvec(self, xs):
        return np.array([self.f(float(x)) for x in np.atleast_1d(xs)], dtype=float)


def _poly_exact(cs, a, b):
    fa, fb = Fraction(a), Fraction(b)
    s = Fraction(0)
    for k, c in enumerate(cs):
        s += Fraction(c) * (fb ** (k + 1) - fa ** (k + 1)) / (k + 1)
    return float(s)


def _erf_diff(u, v):
    """erf(v) - erf(u), accurately in the tails."""
    if u > 0 and v > 0:
        return math.erfc(u) - math.erfc(v)
    if u < 0 and v < 0:
        return math.erfc(-v) - math.erfc(-u)
    return math.erf(v) - math.erf(u)


def _pow_antider(x, c, al):
    # antiderivative of |x - c| ** al  (al > -1)
    return (x - c) * abs(x - c) ** al / (al + 1) if x != c else 0.0


FAMILIES = ["poly", "exp", "sin", "cos", "lorentz", "gauss", "sqrt_end", "power", "kink", "jump",
            "inv_sqrt", "nan_node", "inf_node",
            # integrands that are EXACTLY 0.0 on a stretch of the range (an all-zero interval makes
            # c_diff == hint * norm(c) == 0, the boundary case of the "refinement did not help" test)
            "zgauss", "step0", "ramp", "bump",
            # integrable peak that takes > 20 bisections to locate, most of them doubling the local average
            # (the divergence heuristic ndiv must NOT fire): Lorentzian of width 1e-5 .. 1e-9 of the range
            "nlorentz",
            "divergent"]
# families the accuracy clause quantifies over (divergent only shows the exception is reachable)
CONVERGENT = [f for f in FAMILIES if f != "divergent"]


def draw(family: str, rng, dyadic: bool = False) -> dict:
    """Draw JSON-serialisable parameters of one member (bounds included).
    dyadic: end points with few significant bits, so that the learner's recomputed
    interval end points (a+b)/2 -+ (b-a)/2 are exact and no abscissa is evaluated twice."""
    w = 10.0 ** rng.uniform(-2, 1.2)
    a = rng.choice([0.0, -1.0, 1.0, rng.uniform(-5, 5), rng.uniform(-5, 5)])
    if rng.random() < 0.25:
        a, w = rng.choice([(0.0, 1.0), (-1.0, 2.0), (0.0, 3.0), (0.0, 2.0)])
    if dyadic:
        a = rng.choice([0.0, 0.0, 1.0, -1.0, -2.0, -0.5, 0.25, 3.0])
        w = rng.choice([0.25, 0.5, 1.0, 1.0, 2.0, 3.0, 4.0, 8.0])
    b = a + w
    p = {"a": a, "b": b}
    if family == "poly":
        deg = rng.randint(0, 12)
        p["cs"] = [rng.uniform(-1, 1) * rng.choice([1, 1, 10, 0.1]) for _ in range(deg + 1)]
    elif family == "exp":
        p["k"] = rng.choice([-1, 1]) * 10.0 ** rng.uniform(-1, 0.8)
    elif family in ("sin", "cos"):
        p["w"] = 10.0 ** rng.uniform(-1, 1.6) / max(w, 0.05) * rng.choice([1, 1, 3])
        p["w"] = min(p["w"], 60.0 / w)              # at most ~10 periods over the range
        p["phi"] = rng.uniform(-math.pi, math.pi)
    elif family == "lorentz":
        p["x0"] = a + w * rng.choice([rng.random(), 0.5, 0.0, 1.0, 0.3])
        p["g"] = w * 10.0 ** rng.uniform(-2.0, 0.3)
    elif family == "gauss":
        p["x0"] = a + w * rng.choice([rng.random(), 0.5, 0.0, 1.0, 0.3])
        p["s"] = w * 10.0 ** rng.uniform(-1.7, 0.3)
    elif family == "sqrt_end":
        pass
    elif family == "nlorentz":         # g / ((x - x0)^2 + g^2), g = 1e-5 .. 1e-9 of the range, centre at a non-dyadic point
        p["g"] = w * 10.0 ** rng.uniform(-9, -5)
        p["x0"] = a + w * rng.choice([0.11, 0.23, 0.41, 0.52, 0.77, 0.83, 0.94, rng.uniform(0.05, 0.95)])
    elif family == "zgauss":           # exp(-((x-x0)/s)^2), so narrow that the tails underflow to 0.0 (beyond ~27.3 s)
        p["s"] = w / rng.uniform(35, 60)
        p["x0"] = a + w * rng.choice([rng.uniform(0.03, 0.2), rng.uniform(0.8, 0.97), 0.2, 0.1])
    elif family == "step0":            # 0 left of c, h right of it
        p["c"] = a + w * rng.choice([rng.random(), 0.41, 0.5, 0.25, 0.7])
        p["h"] = rng.choice([1.0, 1.0, rng.uniform(0.5, 3)])
    elif family == "ramp":             # max(0, k (x - x0))
        p["x0"] = a + w * rng.choice([rng.uniform(0.05, 0.95), 0.37, 0.5, 0.75])
        p["k"] = rng.choice([1.0, 1.0, rng.uniform(0.2, 5)])
    elif family == "bump":             # (1 - u^2)^2 for |u| < 1, u = (x - x0)/s, exactly 0 outside
        p["s"] = w * rng.uniform(0.08, 0.35)
        p["x0"] = a + w * rng.choice([rng.uniform(0.1, 0.9), 0.2, 0.5, 0.0, 1.0])
    elif family == "power":
        p["c"] = a + w * rng.choice([rng.random(), 0.5, 0.0, 1.0, 0.25, 0.45])
        p["al"] = rng.choice([0.5, 1.5, 0.987654321, rng.uniform(0.1, 2.5), rng.uniform(-0.45, -0.05)])
    elif family == "kink":
        p["c"] = a + w * rng.choice([rng.random(), 0.5, 0.25, 0.3, 0.7])
        p["s1"], p["s2"] = rng.uniform(-2, 2), rng.uniform(-2, 2)
    elif family == "jump":
        p["c"] = a + w * rng.choice([rng.random(), 0.5, 0.25, 0.3, 0.7])
        p["h1"], p["h2"] = rng.uniform(-2, 2), rng.uniform(0.5, 3)
    elif family == "inv_sqrt":
        p["c"] = rng.choice([a, b, (a + b) / 2, a + w / 4])
    elif family in ("nan_node", "inf_node"):
        p["k"] = rng.uniform(-1.5, 1.5)
        p["where"] = rng.sample([0.5, 0.25, 0.75, 0.0, 1.0, 0.125, 0.5 + 0.5 * math.cos(3 * math.pi / 16)], rng.randint(1, 3))
    elif family == "divergent":
        p["c"] = rng.choice([a, (a + b) / 2, a + w * 0.987654321])
        p["al"] = rng.choice([-1.0, -1.1, -1.5])
    else:
        raise ValueError(family)
    return p


def build(family: str, p: dict) -> Member:
    a, b = float(p["a"]), float(p["b"])
    if family == "poly":
        cs = [float(c) for c in p["cs"]]

        def f(x):
            r = 0.0
            for c in reversed(cs):
                r = r * x + c
            return r
        return Member(family, p, f, _poly_exact(cs, a, b), a, b, descr=f"degree {len(cs) - 1}")
    if family == "exp":
        k = float(p["k"])
        return Member(family, p, lambda x: math.exp(k * x), math.exp(k * a) * math.expm1(k * (b - a)) / k, a, b)
    if family in ("sin", "cos"):
        w, phi = float(p["w"]), float(p["phi"])
        if family == "cos":
            phi2 = phi + math.pi / 2
            return Member(family, p, lambda x: math.cos(w * x + phi),
                          2 * math.sin(w * (a + b) / 2 + phi2) * math.sin(w * (b - a) / 2) / w, a, b)
        return Member(family, p, lambda x: math.sin(w * x + phi),
                      2 * math.sin(w * (a + b) / 2 + phi) * math.sin(w * (b - a) / 2) / w, a, b)
    if family == "lorentz":
        x0, g = float(p["x0"]), float(p["g"])
        ex = (math.atan((b - x0) / g) - math.atan((a - x0) / g)) / g
        return Member(family, p, lambda x: 1.0 / ((x - x0) ** 2 + g * g), ex, a, b)
    if family == "gauss":
        x0, s = float(p["x0"]), float(p["s"])
        r2 = math.sqrt(2.0)
        ex = s * math.sqrt(math.pi / 2) * _erf_diff((a - x0) / (s * r2), (b - x0) / (s * r2))
        return Member(family, p, lambda x: math.exp(-((x - x0) ** 2) / (2 * s * s)), ex, a, b)
    if family == "sqrt_end":
        return Member(family, p, lambda x: math.sqrt(abs(x - a)), 2.0 / 3.0 * (b - a) ** 1.5, a, b)
    if family == "nlorentz":
        x0, g = float(p["x0"]), float(p["g"])
        ex = math.atan((b - x0) / g) - math.atan((a - x0) / g)
        return Member(family, p, lambda x: g / ((x - x0) ** 2 + g * g), ex, a, b)
    if family == "zgauss":
        x0, sg = float(p["x0"]), float(p["s"])
        ex = sg * math.sqrt(math.pi) / 2 * _erf_diff((a - x0) / sg, (b - x0) / sg)
        return Member(family, p, lambda x: math.exp(-(((x - x0) / sg) ** 2)), ex, a, b)
    if family == "step0":
        c, h = float(p["c"]), float(p["h"])
        return Member(family, p, lambda x: 0.0 if x < c else h, h * (b - c), a, b)
    if family == "ramp":
        x0, k = float(p["x0"]), float(p["k"])
        return Member(family, p, lambda x: max(0.0, k * (x - x0)), k * (b - x0) ** 2 / 2 - (k * (a - x0) ** 2 / 2 if a > x0 else 0.0),
                      a, b)
    if family == "bump":
        x0, sg = float(p["x0"]), float(p["s"])

        def f(x):
            u = (x - x0) / sg
            return (1.0 - u * u) ** 2 if -1.0 < u < 1.0 else 0.0

        def F(u):
            u = min(1.0, max(-1.0, u))
            return u - 2.0 * u ** 3 / 3.0 + u ** 5 / 5.0
        return Member(family, p, f, sg * (F((b - x0) / sg) - F((a - x0) / sg)), a, b)
    if family == "power":
        c, al = float(p["c"]), float(p["al"])

        def f(x):
            d = abs(x - c)
            if d == 0.0:
                return math.inf if al < 0 else 0.0
            return d ** al
        return Member(family, p, f, _pow_antider(b, c, al) - _pow_antider(a, c, al), a, b, nonfinite=al < 0)
    if family == "kink":
        c, s1, s2 = float(p["c"]), float(p["s1"]), float(p["s2"])
        ex = s1 * (-(c - a) ** 2 / 2) + s2 * ((b - c) ** 2 / 2)
        return Member(family, p, lambda x: (s1 if x < c else s2) * (x - c), ex, a, b)
    if family == "jump":
        c, h1, h2 = float(p["c"]), float(p["h1"]), float(p["h2"])
        return Member(family, p, lambda x: h1 if x < c else h2, h1 * (c - a) + h2 * (b - c), a, b)
    if family == "inv_sqrt":
        c = float(p["c"])

        def f(x):
            d = abs(x - c)
            return math.inf if d == 0.0 else 1.0 / math.sqrt(d)
        F = lambda x: math.copysign(2 * math.sqrt(abs(x - c)), x - c)  # noqa: E731
        return Member(family, p, f, F(b) - F(a), a, b, nonfinite=True)
    if family in ("nan_node", "inf_node"):
        k = float(p["k"])
        bad = {(a + b) / 2 + (b - a) * (2 * t - 1) / 2 for t in p["where"]}
        val = math.nan if family == "nan_node" else math.inf

        def f(x):
            return val if x in bad else math.exp(k * x) + 1.0
        ex = (math.exp(k * a) * math.expm1(k * (b - a)) / k if k else (b - a)) + (b - a)
        return Member(family, p, f, ex, a, b, nonfinite=True)
    if family == "divergent":
        c, al = float(p["c"]), float(p["al"])

        def f(x):
            d = abs(x - c)
            return math.inf if d == 0.0 else d ** al
        return Member(family, p, f, math.inf, a, b, divergent=True, nonfinite=True)
    raise ValueError(family)


# ----------------------------------------------------------------------
# the implementation


def modules():
    il = importlib.import_module("adaptive.learner.integrator_learner")
    co = importlib.import_module("adaptive.learner.integrator_coeffs")
    return il, co


def algorithm_4_module():
    return importlib.import_module("adaptive.tests.algorithm_4")


class Recorder:
    """Wraps integrator_learner._calc_coeffs / _Interval.calc_igral / _Interval.calc_err
    in this process and records their inputs and outputs."""

    def __init__(self, limit=400):
        self.il, self.co = modules()
        self.limit = limit
        self.coeffs, self.igrals, self.errs = [], [], []
        self._saved = None

    def __enter__(self):
        il = self.il
        Iv = il._Interval
        self._saved = (il._calc_coeffs, Iv.calc_igral, Iv.calc_err)
        o_cc, o_ig, o_er = self._saved
        rec = self

        def calc_coeffs(fx, depth):
            fx_in = np.array(fx, dtype=float, copy=True)
            c = o_cc(fx, depth)
            if len(rec.coeffs) < rec.limit or not np.all(np.isfinite(fx_in)):
                if len(rec.coeffs) < 4 * rec.limit:
                    rec.coeffs.append((fx_in, int(depth), np.array(c, copy=True)))
            return c

        def calc_igral(ival):
            o_ig(ival)
            if len(rec.igrals) < rec.limit:
                rec.igrals.append((float(ival.a), float(ival.b), np.array(ival.c, copy=True), float(ival.igral)))

        def calc_err(ival, c_old):
            c_old_in = np.array(c_old, copy=True)
            r = o_er(ival, c_old)
            if len(rec.errs) < rec.limit:
                par = ival.parent
                shifted = None
                if ival.depth_complete == 0 and par is not None and par.depth_complete is not None and hasattr(par, "c"):
                    shifted = (float(par.a), float(par.b), np.array(par.c, copy=True))
                rec.errs.append((float(ival.a), float(ival.b), c_old_in, np.array(ival.c, copy=True),
                                 float(ival.err), float(r), shifted))
            return r

        il._calc_coeffs = calc_coeffs
        Iv.calc_igral = calc_igral
        Iv.calc_err = calc_err
        return self

    def __exit__(self, *a):
        il = self.il
        il._calc_coeffs, il._Interval.calc_igral, il._Interval.calc_err = self._saved


class Outcome:
    def __init__(self):
        self.status = "budget"       # done | budget | divergent | internal | noimprove
        self.n = 0
        self.igral = self.err = None
        self.done_events = []        # (npoints, igral, err, nivals) at every moment done() was observed True
        self.ops = []
        self.error = None
        self.max_abs = 0.0


def drive(mem: Member, tol: float, mode: str, rng, budget: int, stop_at_done=True, ops=None):
    """Run the real IntegratorLearner on `mem` until done() or `budget` evaluations.
    mode: 'seq1' ask(1)/tell(1); 'seqn' ask(k)/tell all in order; 'shuffle' ask up to 50,
    tell a random part in random order, the rest stays in flight (and is delivered later).
    `ops` (a recorded list of ["ask", k] / ["tell", i], i indexing the abscissae handed out
    so far) replays a schedule exactly.  done() is evaluated after every tell."""
    il, _ = modules()
    L = il.IntegratorLearner(mem.f, bounds=(mem.a, mem.b), tol=tol)
    out = Outcome()
    out.ops = []
    asked: list[float] = []
    inflight: list[int] = []

    def tell(i):
        x = asked[i]
        y = mem.f(x)
        if math.isfinite(y):
            out.max_abs = max(out.max_abs, abs(y))
        out.ops.append(["tell", i])
        L.tell(x, y)
        out.n += 1
        if L.done():
            out.done_events.append((L.npoints, float(L.igral), float(L.err), len(L.ivals)))
            return True
        return False

    def ask(k):
        out.ops.append(["ask", k])
        xs, _ = L.ask(k)
        base = len(asked)
        asked.extend(xs)
        return list(range(base, base + len(xs)))

    try:
        if ops is not None:
            for o in ops:
                if o[0] == "ask":
                    ask(int(o[1]))
                elif tell(int(o[1])) and stop_at_done:
                    break
        else:
            stop = False
            while out.n < budget and not stop:
                if mode == "seq1":
                    k = 1
                elif mode == "seqn":
                    k = rng.choice([2, 3, 4, 6, 8, 16, 33, 50])
                else:
                    k = rng.randint(1, 50)
                idx = ask(min(k, max(1, budget - out.n)))
                if mode == "shuffle":
                    inflight += idx
                    rng.shuffle(inflight)
                    m = rng.randint(1, len(inflight))
                    batch, inflight = inflight[:m], inflight[m:]
                else:
                    batch = idx
                for i in batch:
                    if tell(i) and stop_at_done:
                        stop = True
                        break
        if out.done_events:
            out.status = "done"
    except il.DivergentIntegralError:
        out.status = "divergent"
    except RuntimeError as e:          # "No way to improve the integral estimate."
        out.status = "noimprove"
        out.error = repr(e)
    except INTERNAL_ERRORS as e:
        out.status = "internal"
        out.error = type(e).__name__
    out.learner = L
    out.inflight = len(inflight)
    try:
        out.igral, out.err = float(L.igral), float(L.err)
    except Exception:  # noqa: BLE001
        pass
    return out


def zero_refined_intervals(L) -> int:
    """intervals refined at least once (depth_complete >= 1) on which every node value is exactly 0.0"""
    n, todo = 0, [L.first_ival]
    while todo:
        iv = todo.pop()
        todo.extend(iv.children)
        if iv.depth_complete and iv.parent is not None and hasattr(iv, "fx") and not np.any(iv.fx):
            n += 1
    return n


def done_criterion(L) -> bool:
    """The documented stopping rule, from public attributes: the error is 0, or below the
    RELATIVE tolerance, or only the removed intervals keep it above, or nothing is left."""
    err, igral = float(L.err), float(L.igral)
    exc = sum(float(i.err) for i in L.approximating_intervals if i.removed)
    lim = abs(igral) * L.tol
    return bool(err == 0 or err < lim or (err - exc < lim < exc) or not L.ivals)


def l1_scale(L) -> float:
    """sum over the approximating intervals of width * max |finite node value|: an upper
    estimate of int |f|, the scale of the rounding error of the sum of contributions."""
    s = 0.0
    for iv in L.approximating_intervals:
        fx = [abs(float(v)) for v in iv.fx if math.isfinite(v)]
        s += abs(iv.b - iv.a) * (max(fx) if fx else 0.0)
    return s


def heuristic_leaves(L) -> int:
    """approximating intervals whose error was never computed: completed at depth 0 while
    the parent's own rule is incomplete, so `err` is still update_heuristic_err's
    half-the-parent value."""
    return sum(1 for iv in L.approximating_intervals
               if iv.depth_complete == 0 and iv.parent is not None and iv.parent.depth_complete is None)


def run_sequential(mem: Member, tol: float, n: int):
    """The repo's own `run_integrator_learner` (tests/test_cquad.py): n times ask(1), tell."""
    il, _ = modules()
    L = il.IntegratorLearner(mem.f, bounds=(mem.a, mem.b), tol=tol)
    for _ in range(n):
        xs, _ = L.ask(1)
        for x in xs:
            L.tell(x, mem.f(x))
    return L


# ----------------------------------------------------------------------
# exact kernel (Fractions, the code's float constants converted exactly)


class ExactKernel:
    def __init__(self):
        _, co = modules()
        self.ns = tuple(int(n) for n in co.ns)
        F = Fraction
        self.xi = [[F(float(x)) for x in row] for row in co.xi]
        self.V_inv = [[[F(float(x)) for x in row] for row in M] for M in co.V_inv]
        self.T_left = [[F(float(x)) for x in row] for row in co.T_left]
        self.T_right = [[F(float(x)) for x in row] for row in co.T_right]
        self.b_def = [[F(float(x)) for x in row] for row in co.b_def]
        self.alpha = [F(float(x)) for x in co.alpha]
        self.gamma = [F(float(x)) for x in co.gamma]
        self.sqrt2 = F(math.sqrt(2))

    def calc_coeffs(self, fx, depth):
        """_calc_coeffs with _zero_nans and _downdate, exactly."""
        F = Fraction
        nans = [i for i, v in enumerate(fx) if not math.isfinite(v)]
        z = [F(0) if i in nans else F(float(v)) for i, v in enumerate(fx)]
        c = [sum(r * v for r, v in zip(row, z)) for row in self.V_inv[depth]]
        if nans:
            b = list(self.b_def[depth])
            m = self.ns[depth] - 1
            for i in nans:
                b[m + 1] = b[m + 1] / self.alpha[m]
                xii = self.xi[depth][i]
                b[m] = (b[m] + xii * b[m + 1]) / self.alpha[m - 1]
                for j in range(m - 1, 0, -1):
                    b[j] = (b[j] + xii * b[j + 1] - self.gamma[j + 1] * b[j + 2]) / self.alpha[j - 1]
                b = b[1:]
                q = c[m] / b[m]
                for t in range(m):
                    c[t] -= q * b[t]
                c[m] = F(0)
                m -= 1
        return c

    def calc_igral(self, a, b, c0):
        return (Fraction(b) - Fraction(a)) * Fraction(float(c0)) / self.sqrt2

    def err_sq(self, a, b, c_old, c_new):
        n = max(len(c_old), len(c_new))
        d = [Fraction(0)] * n
        for i, v in enumerate(c_old):
            d[i] += Fraction(float(v)) if not isinstance(v, Fraction) else v
        for i, v in enumerate(c_new):
            d[i] -= Fraction(float(v)) if not isinstance(v, Fraction) else v
        w = Fraction(b) - Fraction(a)
        return w * w * sum(x * x for x in d)

    def shift(self, left: bool, c_par):
        T = self.T_left if left else self.T_right
        n = len(c_par)
        cp = [Fraction(float(v)) for v in c_par]
        return [sum(T[i][k] * cp[k] for k in range(n)) for i in range(len(T))]


def fsqrt(fr: Fraction) -> float:
    """sqrt of an exact rational as a float, without intermediate under/overflow."""
    if fr <= 0:
        return 0.0
    e = fr.numerator.bit_length() - fr.denominator.bit_length()
    k = e // 2
    scaled = fr / Fraction(4) ** k if k >= 0 else fr * Fraction(4) ** (-k)
    try:
        return math.ldexp(math.sqrt(float(scaled)), k)
    except OverflowError:
        return math.inf


def fnorm(v):
    return fsqrt(sum((x if isinstance(x, Fraction) else Fraction(float(x))) ** 2 for x in v))


# orthonormal Legendre basis, from the definition (independent of the code's constants)
def basis(n, t):
    """[B_0(t) .. B_{n-1}(t)], B_k = sqrt(k + 1/2) P_k, floats."""
    P = [1.0, t]
    for i in range(2, n):
        P.append(((2 * i - 1) * t * P[-1] - (i - 1) * P[-2]) / i)
    return [math.sqrt(k + 0.5) * P[k] for k in range(n)]


def interp(c, t):
    B = basis(len(c), t)
    return math.fsum(float(ck) * bk for ck, bk in zip(c, B))


def cc_nodes(n):
    """Clenshaw-Curtis nodes -cos(i pi / (n-1)), from the definition."""
    return [-math.cos(i * math.pi / (n - 1)) for i in range(n)]


def exact_reference_value(f_scalar, a, b):  # pragma: no cover - debugging aid
    from scipy.integrate import quad
    return quad(f_scalar, a, b, epsabs=0, epsrel=1e-13, limit=500)[0]


if __name__ == "__main__":  # small self-check of closed forms against scipy.quad
    import random
    rng = random.Random(int(sys.argv[1]) if len(sys.argv) > 1 else 0)
    from scipy.integrate import quad
    for fam in CONVERGENT:
        worst = 0.0
        for _ in range(30):
            p = draw(fam, rng)
            m = build(fam, p)
            pts = [p[k] for k in ("c", "x0") if k in p and m.a < p[k] < m.b]
            g = (lambda x, m=m: (lambda y: y if math.isfinite(y) else 0.0)(m.f(x)))
            v, e = quad(g, m.a, m.b, epsabs=0, epsrel=1e-12, limit=2000, points=pts or None)
            scale = max(abs(m.exact), abs(v), 1e-300)
            worst = max(worst, (abs(v - m.exact) - 10 * e) / scale)
        print(f"{fam:10s} worst closed-form vs quad excess rel diff {worst:.2e}")


# ----------------------------------------------------------------------
# comparison with tests/algorithm_4.py


def _near(x, y):
    return abs(x - y) <= 4 * math.ulp(max(abs(x), abs(y), 5e-324))


def reference_trajectory(mem: Member, tol: float, max_loops: int):
    """States (nr_points, igral, err, n_intervals) of algorithm_4 after 1, 2, .. loops
    (the function is deterministic, so re-running with N_loops = k reproduces a prefix)."""
    a4 = algorithm_4_module()
    out, status = [], "ok"
    last = None
    for k in range(1, max_loops + 2):
        try:
            ig, er, n, ivs = a4.algorithm_4(mem.fvec, mem.a, mem.b, tol, N_loops=k)
        except a4.DivergentIntegralError as e:
            status = "divergent"
            if k <= max_loops:
                out.append((e.nr_points, math.inf, None, 0))
            break
        st = (int(n), float(ig), float(er), len(ivs))
        if st == last:               # the reference returned before using all its loops: finished
            status = "finished"
            break
        if k > max_loops:            # one loop beyond the cap, only to see whether the last state was final
            break
        out.append(st)
        last = st
    return out, status


def learner_trajectory(mem: Member, tol: float, n_distinct: int, cap: int, snap: bool = False):
    """Feed the learner one point at a time (the repo's run_integrator_learner) and record,
    after every tell, (evaluations, near-duplicate evaluations so far, igral, err).
    A near-duplicate is an abscissa within 6 ulp (at the magnitude of the end points of the
    interval it was computed for) of one already evaluated: the learner
    recomputes interval end points as (a+b)/2 -+ (b-a)/2, which can differ from the stored
    end point in the last place; algorithm_4 re-uses the parent's values there.
    snap=True answers a near-duplicate abscissa with the value already recorded for its
    neighbour (what algorithm_4's re-use by index amounts to): the run then shows what the
    learner computes when the 1-ulp shift of the abscissa cannot change the integrand."""
    import bisect
    vals: dict[float, float] = {}
    il, _ = modules()
    L = il.IntegratorLearner(mem.f, bounds=(mem.a, mem.b), tol=tol)
    xs_sorted: list[float] = []
    traj, dups, n, status = [], 0, 0, "ok"
    L.c08_dup_pairs = []          # (evaluation number, abscissa asked, abscissa already evaluated)
    try:
        while n - dups <= n_distinct and n < cap:
            pts, _ = L.ask(1)
            for x in pts:
                i = bisect.bisect_left(xs_sorted, x)
                old = None
                # rounding of (a+b)/2 + (b-a) xi/2 is a few ulps at the magnitude of the interval's end
                # points (not of x: the left end of (0.022, 0.49) is recomputed at magnitude 0.25)
                mag = min((max(abs(iv.a), abs(iv.b)) for iv in L.x_mapping[x]), default=abs(x))
                tolx = 6 * math.ulp(max(mag, abs(x), 5e-324))
                if i < len(xs_sorted) and abs(xs_sorted[i] - x) <= tolx:
                    old = xs_sorted[i]
                elif i > 0 and abs(xs_sorted[i - 1] - x) <= tolx:
                    old = xs_sorted[i - 1]
                if old is not None:
                    dups += 1
                    L.c08_dup_pairs.append((n + 1, float(x), float(old)))
                xs_sorted.insert(i, x)
                y = vals[old] if (snap and old is not None) else mem.f(x)
                vals[x] = y
                if old is not None:
                    L.c08_dup_pairs[-1] += (float(mem.f(x)), float(vals[old]))
                L.tell(x, y)
                n += 1
                ig = float(L.igral) if L.approximating_intervals else math.nan
                traj.append((n, dups, ig, float(L.err), bool(L.done())))
    except il.DivergentIntegralError:
        status = "divergent"
    except RuntimeError:
        status = "noimprove"
    except INTERNAL_ERRORS:
        status = "internal"
    return traj, status, L
