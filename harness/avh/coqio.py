"""Printers from Python values to Gallina terms, and parsers for the short
answers Coq prints.  Floats cross the boundary as hexadecimal literals, so
they are bit-exact."""
from __future__ import annotations

import math
import re


def nat(n: int) -> str:
    assert n >= 0
    return f"{int(n)}%nat"


def Z(n: int) -> str:
    n = int(n)
    return f"({n})%Z" if n < 0 else f"{n}%Z"


def bool_(b) -> str:
    return "true" if b else "false"


def flt(x: float) -> str:
    """A double as a Coq primitive-float term (exact)."""
    x = float(x)
    if math.isnan(x):
        return "PrimFloat.nan"
    if math.isinf(x):
        return "PrimFloat.infinity" if x > 0 else "PrimFloat.neg_infinity"
    if x == 0.0:
        return "PrimFloat.zero" if math.copysign(1.0, x) > 0 else "PrimFloat.neg_zero"
    h = x.hex()  # e.g. -0x1.999999999999ap-4
    if h.startswith("-"):
        return f"(PrimFloat.opp {h[1:]}%float)"
    return f"{h}%float"


def lst(items, sep="; ") -> str:
    return "[" + sep.join(items) + "]"


def opt(x, pr) -> str:
    return "None" if x is None else f"(Some {pr(x)})"


def pair(a: str, b: str) -> str:
    return f"({a}, {b})"


def tup(*xs: str) -> str:
    return "(" + ", ".join(xs) + ")"


def app(f: str, *args: str) -> str:
    return "(" + " ".join((f,) + args) + ")"


_NUM = re.compile(r"\(\s*(\d+)(?:%nat)?\s*,\s*(\d+)(?:%nat)?\s*\)")


def parse_pairs(text: str):
    """Parse '= [(1, 2); (3, 4)] : list (nat * nat)' -> [(1,2),(3,4)]."""
    return [(int(a), int(b)) for a, b in _NUM.findall(text)]


def parse_nat(text: str) -> int:
    m = re.search(r"=\s*(\d+)", text)
    if not m:
        raise ValueError(f"cannot parse nat from {text!r}")
    return int(m.group(1))
